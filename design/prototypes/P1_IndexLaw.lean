-- Design prototype P1 (not part of the framework): the index law behind the table modes of
-- as_str / range / from_str, over a symbolic width `w`, core Lean only.
--   index = (v.wrapping_sub(b.wrapping_sub(o))) as unsigned   with  v - b + o = k,  0 ≤ k < 2^w
def wrapU (w : Nat) (x : Int) : Int := x % (2:Int)^w
def wrapS (w : Nat) (x : Int) : Int := Int.bmod x (2^w)

theorem wrapS_emod (w : Nat) (x : Int) : (wrapS w x) % (2:Int)^w = x % (2:Int)^w := by
  unfold wrapS
  have : ((2^w : Nat) : Int) = (2:Int)^w := by simp
  rw [← this, Int.bmod_emod]

theorem idx_ok (w : Nat) (v b o k : Int) (hk : 0 ≤ k) (hk2 : k < (2:Int)^w) (h : v - b + o = k) :
    (wrapS w (v - wrapS w (b - wrapS w o))) % (2:Int)^w = k := by
  rw [wrapS_emod, Int.sub_emod, wrapS_emod, Int.sub_emod b, wrapS_emod, ← Int.sub_emod b, ← Int.sub_emod]
  have : v - (b - o) = k := by omega
  rw [this]
  exact Int.emod_eq_of_lt hk hk2

#print axioms idx_ok
