-- Design prototype P4 (not part of the framework): see DESIGN.md Appendix A.
-- prototype: src/feature/next_fn.rs:72-95 (with holes) against "first discriminant greater than v"
inductive Res (α : Type) | ok (a : α) | panic | ub
deriving Repr, DecidableEq

structure Repr' where (signed : Bool) (bits : Nat)
def Repr'.lo (r : Repr') : Int := if r.signed then -(2:Int)^(r.bits-1) else 0
def Repr'.hi (r : Repr') : Int := if r.signed then (2:Int)^(r.bits-1) - 1 else (2:Int)^r.bits - 1
/-- wrapping_add(1), specified by its two cases rather than by bmod (the bmod form is proved equal elsewhere) -/
def Repr'.succWrap (r : Repr') (x : Int) : Int := if x = r.hi then r.lo else x + 1

abbrev Run := Int × Int
def Run.contains (r : Run) (x : Int) : Bool := r.1 ≤ x && x ≤ r.2

def transmute (vals : List Int) (n : Int) : Res Int := if n ∈ vals then .ok n else .ub

/-- `loop { let r = it.next().unwrap_unchecked(); if r.0.contains(&current) { … } }` -/
def nextLoop (R : Repr') (vals : List Int) (current : Int) : List Run → Res (Option Int)
  | [] => .ub                                    -- unwrap_unchecked on None
  | r :: rest =>
    if r.contains current then
      let c' := R.succWrap current
      if r.contains c' then
        match transmute vals c' with | .ok x => .ok (some x) | .panic => .panic | .ub => .ub
      else
        match rest with
        | [] => .ok none
        | r2 :: _ => match transmute vals r2.1 with | .ok x => .ok (some x) | .panic => .panic | .ub => .ub
    else nextLoop R vals current rest

def interval (b e : Int) : List Int := (List.range (e - b + 1).toNat).map (fun (k : Nat) => b + (k : Int))
def expand (rs : List Run) : List Int := rs.flatMap (fun r => interval r.1 r.2)

def WFRuns : List Run → Prop
  | [] => True
  | [r] => r.1 ≤ r.2
  | r :: r2 :: rest => r.1 ≤ r.2 ∧ r.2 + 1 < r2.1 ∧ WFRuns (r2 :: rest)

theorem mem_interval (b e x : Int) : x ∈ interval b e ↔ b ≤ x ∧ x ≤ e := by
  unfold interval
  simp only [List.mem_map, List.mem_range]
  constructor
  · rintro ⟨k, hk, rfl⟩; omega
  · intro h; exact ⟨(x - b).toNat, by omega, by omega⟩

theorem WFRuns.tail {r : Run} {rs : List Run} (h : WFRuns (r :: rs)) : WFRuns rs := by
  cases rs with
  | nil => trivial
  | cons r2 rest => exact h.2.2

theorem WFRuns.head {r : Run} {rs : List Run} (h : WFRuns (r :: rs)) : r.1 ≤ r.2 := by
  cases rs with
  | nil => exact h
  | cons r2 rest => exact h.1

/-- everything in later runs is above the end of the first run by at least 2 -/
theorem WFRuns.above {r : Run} {rs : List Run} (h : WFRuns (r :: rs)) : ∀ y ∈ expand rs, r.2 + 1 < y := by
  induction rs generalizing r with
  | nil => intro y hy; simp [expand] at hy
  | cons r2 rest ih =>
    intro y hy
    have hy := (show y ∈ interval r2.1 r2.2 ∨ y ∈ expand rest by simpa [expand] using hy)
    rcases hy with hy | hy
    · have := (mem_interval _ _ _).mp hy; have := h.2.1; omega
    · have h2 : WFRuns (r2 :: rest) := h.2.2
      have := ih h2 y hy
      have := h.2.1; have := h2.head; omega

theorem find_interval_none (b e v : Int) (h : e ≤ v) : (interval b e).find? (fun y => decide (v < y)) = none := by
  rw [List.find?_eq_none]; intro y hy; have := (mem_interval _ _ _).mp hy; simp; omega

theorem find_interval_succ (b e v : Int) (h1 : b ≤ v) (h2 : v + 1 ≤ e) :
    (interval b e).find? (fun y => decide (v < y)) = some (v + 1) := by
  unfold interval
  have hlen : (v + 1 - b).toNat < (e - b + 1).toNat := by omega
  rw [List.find?_map]
  have : (List.range (e - b + 1).toNat).find? ((fun y => decide (v < y)) ∘ fun k : Nat => b + (k:Int)) = some (v + 1 - b).toNat := by
    rw [List.find?_eq_some_iff_getElem]
    refine ⟨by simp; omega, (v + 1 - b).toNat, by simpa using hlen, by simp, ?_⟩
    intro j hj; simp; omega
  rw [this]; simp; omega

theorem head_expand (r2 : Run) (rest : List Run) (h : WFRuns (r2 :: rest)) :
    ∃ tl, expand (r2 :: rest) = r2.1 :: tl := by
  have hh := h.head
  simp only [expand, List.flatMap_cons, interval]
  have : (r2.2 - r2.1 + 1).toNat = (r2.2 - r2.1).toNat + 1 := by omega
  rw [this, List.range_succ_eq_map]; simp

theorem head_mem_expand (r2 : Run) (rest : List Run) (h : WFRuns (r2 :: rest)) : r2.1 ∈ expand (r2 :: rest) := by
  obtain ⟨tl, htl⟩ := head_expand r2 rest h; rw [htl]; simp

theorem mem_expand_cons (r : Run) (rest : List Run) (y : Int) :
    y ∈ expand (r :: rest) ↔ y ∈ interval r.1 r.2 ∨ y ∈ expand rest := by
  simp [expand]

theorem find_expand_cons (r : Run) (rest : List Run) (p : Int → Bool) :
    (expand (r :: rest)).find? p = ((interval r.1 r.2).find? p).or ((expand rest).find? p) := by
  simp [expand, List.find?_append]

theorem next_holes (R : Repr') (vals : List Int) (rs : List Run)
    (hwf : WFRuns rs) (hvals : vals = expand rs)
    (hrange : ∀ r ∈ rs, R.lo ≤ r.1 ∧ r.2 ≤ R.hi)
    (hnotfull : ∀ r ∈ rs, ¬ (r.1 = R.lo ∧ r.2 = R.hi))
    (v : Int) (hv : v ∈ vals) :
    nextLoop R vals v rs = .ok (vals.find? (fun y => decide (v < y))) := by
  subst hvals
  -- generalise: run the loop on a suffix `rs'` while `transmute` keeps looking at the full table
  suffices H : ∀ (rs' : List Run), WFRuns rs' → (∀ y ∈ expand rs', y ∈ expand rs) →
      (∀ r ∈ rs', R.lo ≤ r.1 ∧ r.2 ≤ R.hi) → (∀ r ∈ rs', ¬ (r.1 = R.lo ∧ r.2 = R.hi)) → v ∈ expand rs' →
      nextLoop R (expand rs) v rs' = .ok ((expand rs').find? (fun y => decide (v < y))) from
    H rs hwf (fun _ h => h) hrange hnotfull hv
  intro rs'
  induction rs' with
  | nil => intro _ _ _ _ hv; simp [expand] at hv
  | cons r rest ih =>
    intro hwf hsub hrange hnf hv
    have hbe := hwf.head
    have habove := hwf.above
    have hr := hrange r (by simp)
    rw [mem_expand_cons] at hv
    unfold nextLoop
    by_cases hc : r.contains v = true
    · -- v is in this run
      simp only [hc, if_true]
      simp only [Run.contains, Bool.and_eq_true, decide_eq_true_eq] at hc
      by_cases hlast : v = r.2
      · -- last of the run: fall over to next run (or None)
        have hc' : r.contains (R.succWrap v) = false := by
          simp only [Run.contains, Repr'.succWrap]
          split
          · -- wrapped to lo: contained only if the run is the whole type
            have := hnf r (by simp)
            simp only [Bool.and_eq_false_imp, decide_eq_true_eq, decide_eq_false_iff_not]
            intro _; omega
          · simp; omega
        simp only [hc']
        have hnone : (interval r.1 r.2).find? (fun y => decide (v < y)) = none := find_interval_none _ _ _ (by omega)
        cases rest with
        | nil => rw [find_expand_cons, hnone]; simp [expand]
        | cons r2 rest2 =>
          obtain ⟨tl, htl⟩ := head_expand r2 rest2 hwf.tail
          have hmem : r2.1 ∈ expand (r :: r2 :: rest2) :=
            (mem_expand_cons _ _ _).mpr (Or.inr (head_mem_expand r2 rest2 hwf.tail))
          have hgt : v < r2.1 := by have := habove r2.1 (head_mem_expand r2 rest2 hwf.tail); omega
          simp only [transmute, hsub _ hmem, if_true, Bool.false_eq_true, if_false]
          rw [find_expand_cons, hnone, htl]
          simp [hgt]
      · -- successor inside the run
        have hlt : v + 1 ≤ r.2 := by omega
        have hne : v ≠ R.hi := by omega
        have hsw : R.succWrap v = v + 1 := by simp [Repr'.succWrap, hne]
        have hc' : r.contains (v + 1) = true := by simp [Run.contains]; omega
        have hmem : v + 1 ∈ expand (r :: rest) :=
          (mem_expand_cons _ _ _).mpr (Or.inl ((mem_interval _ _ _).mpr (by omega)))
        simp only [hsw, hc', if_true, transmute, hsub _ hmem]
        rw [find_expand_cons, find_interval_succ r.1 r.2 v hc.1 hlt]; simp
    · -- v is in a later run
      simp only [hc, Bool.false_eq_true, if_false]
      have hvrest : v ∈ expand rest := by
        rcases hv with hv | hv
        · exfalso; apply hc; have := (mem_interval _ _ _).mp hv; simp [Run.contains]; omega
        · exact hv
      have hgt := habove v hvrest
      have hnone : (interval r.1 r.2).find? (fun y => decide (v < y)) = none := find_interval_none _ _ _ (by omega)
      rw [ih hwf.tail (fun y hy => hsub y ((mem_expand_cons _ _ _).mpr (Or.inr hy)))
            (fun r' hr' => hrange r' (by simp [hr'])) (fun r' hr' => hnf r' (by simp [hr'])) hvrest]
      rw [find_expand_cons, hnone]; simp

#print axioms next_holes
#eval nextLoop ⟨true, 8⟩ [-128, 5, 6, 127] 127 [(-128,-128),(5,6),(127,127)]
#eval nextLoop ⟨true, 8⟩ [-128, 5, 6, 127] 6 [(-128,-128),(5,6),(127,127)]
