-- Design prototype P3 (not part of the framework): see DESIGN.md Appendix A.
-- generic lemma: running guarded "set these flags" rules once, in an order where no later rule
-- (nor the rule itself) sets an earlier rule's source flag, leaves every rule satisfied.
structure Rule (P : Type) where
  src : Nat
  guard : P → Bool
  heads : List Nat

variable {P : Type}

def applyRule (p : P) (st : Nat → Bool) (r : Rule P) : Nat → Bool :=
  if st r.src && r.guard p then fun i => if i ∈ r.heads then true else st i else st

def run (p : P) (rs : List (Rule P)) (st : Nat → Bool) : Nat → Bool := rs.foldl (applyRule p) st

def Sat (p : P) (st : Nat → Bool) (r : Rule P) : Prop :=
  st r.src = true → r.guard p = true → ∀ h ∈ r.heads, st h = true

/-- no rule at or after position of `r` sets `r.src` -/
def Ordered : List (Rule P) → Prop
  | [] => True
  | r :: rs => (∀ r' ∈ r :: rs, r.src ∉ r'.heads) ∧ Ordered rs

theorem apply_mono (p : P) (st) (r : Rule P) (i : Nat) (h : st i = true) : applyRule p st r i = true := by
  unfold applyRule; split
  · simp only; split <;> simp [h]
  · exact h

theorem run_mono (p : P) (rs : List (Rule P)) : ∀ st i, st i = true → run p rs st i = true := by
  induction rs with
  | nil => intro st i h; exact h
  | cons r rs ih => intro st i h; exact ih _ i (apply_mono p st r i h)

theorem apply_frame (p : P) (st) (r : Rule P) (i : Nat) (h : i ∉ r.heads) : applyRule p st r i = st i := by
  unfold applyRule; split
  · simp [h]
  · rfl

theorem run_frame (p : P) (rs : List (Rule P)) : ∀ st i, (∀ r ∈ rs, i ∉ r.heads) → run p rs st i = st i := by
  induction rs with
  | nil => intro st i _; rfl
  | cons r rs ih =>
    intro st i h
    have h1 : i ∉ r.heads := h r (by simp)
    have h2 : ∀ r' ∈ rs, i ∉ r'.heads := fun r' hr' => h r' (by simp [hr'])
    show run p rs (applyRule p st r) i = st i
    rw [ih _ i h2, apply_frame p st r i h1]

theorem run_sat (p : P) (rs : List (Rule P)) : ∀ st, Ordered rs → ∀ r ∈ rs, Sat p (run p rs st) r := by
  induction rs with
  | nil => intro st _ r hr; cases hr
  | cons r0 rs ih =>
    intro st hord r hr
    obtain ⟨h0, hrest⟩ := hord
    rcases List.mem_cons.mp hr with rfl | hr'
    · -- the head rule itself
      intro hsrc hg h hh
      -- src unchanged by the whole run
      have hsrc0 : st r.src = true := by
        have := run_frame p (r :: rs) st r.src (fun r' hr' => h0 r' hr')
        rw [this] at hsrc; exact hsrc
      show run p rs (applyRule p st r) h = true
      apply run_mono
      unfold applyRule; simp [hsrc0, hg, hh]
    · exact ih _ hrest r hr'

#print axioms run_sat
