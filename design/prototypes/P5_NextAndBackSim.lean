-- Design prototype P5 (not part of the framework): see DESIGN.md Appendix A.
-- prototype: src/feature/iter/next_and_back.rs:50-99 simulates a list cursor, for every history
structure NB where
  fwd : Option Int
  bwd : Option Int
  len : Nat

variable (nx pv : Int → Option Int)

def NB.next (s : NB) : NB × Option Int :=
  if s.len = 0 then (s, none)
  else (⟨s.fwd.bind nx, s.bwd, s.len - 1⟩, s.fwd)

def NB.nextBack (s : NB) : NB × Option Int :=
  if s.len = 0 then (s, none)
  else (⟨s.fwd, s.bwd.bind pv, s.len - 1⟩, s.bwd)

inductive Op | next | nextBack | len

def NB.step (s : NB) : Op → NB × Option Int
  | .next => s.next nx
  | .nextBack => s.nextBack pv
  | .len => (s, some s.len)

def cursorStep (l : List Int) : Op → List Int × Option Int
  | .next => (l.tail, l.head?)
  | .nextBack => (l.dropLast, l.getLast?)
  | .len => (l, some l.length)

def NB.run (s : NB) : List Op → List (Option Int)
  | [] => []
  | o :: os => let (s', out) := s.step nx pv o; out :: NB.run s' os

def cursorRun (l : List Int) : List Op → List (Option Int)
  | [] => []
  | o :: os => let (l', out) := cursorStep l o; out :: cursorRun l' os

/-- `s` has consumed `i` items at the front and `j` at the back of `vals` -/
structure NBInv (vals : List Int) (s : NB) (i j : Nat) : Prop where
  total : i + s.len + j = vals.length
  fwd : s.fwd = vals[i]?
  bwd : s.bwd = if j < vals.length then vals[vals.length - 1 - j]? else none

def absList (vals : List Int) (i len : Nat) : List Int := (vals.drop i).take len

theorem abs_head (vals : List Int) (i len : Nat) (h : 0 < len) : (absList vals i len).head? = vals[i]? := by
  simp [absList, List.head?_take, List.head?_drop]; omega

theorem abs_tail (vals : List Int) (i len : Nat) : (absList vals i len).tail = absList vals (i+1) (len-1) := by
  unfold absList
  cases len with
  | zero => simp
  | succ n =>
    cases h : vals.drop i with
    | nil =>
      have : vals.drop (i+1) = [] := by
        rw [← List.drop_drop]; simp [h]
      simp [this]
    | cons x xs =>
      have : vals.drop (i+1) = xs := by
        rw [← List.drop_drop]; simp [h]
      simp [this]

theorem abs_length (vals : List Int) (i len : Nat) (h : i + len ≤ vals.length) : (absList vals i len).length = len := by
  simp [absList]; omega

theorem abs_dropLast (vals : List Int) (i len : Nat) (h : i + len ≤ vals.length) :
    (absList vals i len).dropLast = absList vals i (len-1) := by
  simp only [absList, List.dropLast_eq_take, List.length_take, List.length_drop, List.take_take]
  congr 1; omega

theorem abs_getLast (vals : List Int) (i len : Nat) (h : i + len ≤ vals.length) (hl : 0 < len) :
    (absList vals i len).getLast? = vals[i + len - 1]? := by
  rw [List.getLast?_eq_getElem?, abs_length vals i len h]
  simp only [absList, List.getElem?_take, List.getElem?_drop]
  have : len - 1 < len := by omega
  simp [this]; congr 1; omega

theorem step_sim (vals : List Int)
    (hnx : ∀ i, (vals[i]?).bind nx = vals[i+1]?)
    (hpv : ∀ i, i < vals.length → (vals[i]?).bind pv = if i = 0 then none else vals[i-1]?)
    (s : NB) (i j : Nat) (hinv : NBInv vals s i j) (o : Op) :
    (s.step nx pv o).2 = (cursorStep (absList vals i s.len) o).2 ∧
    ∃ i' j', NBInv vals (s.step nx pv o).1 i' j' ∧
      (cursorStep (absList vals i s.len) o).1 = absList vals i' (s.step nx pv o).1.len := by
  obtain ⟨htot, hf, hb⟩ := hinv
  cases o with
  | len =>
    refine ⟨?_, i, j, ⟨htot, hf, hb⟩, rfl⟩
    simp [NB.step, cursorStep, abs_length vals i s.len (by omega)]
  | next =>
    by_cases h0 : s.len = 0
    · refine ⟨?_, i, j, ?_, ?_⟩ <;> simp [NB.step, NB.next, cursorStep, h0, absList]
      exact ⟨by simpa [h0] using htot, hf, hb⟩
    · refine ⟨?_, i+1, j, ⟨?_, ?_, ?_⟩, ?_⟩
      · simp [NB.step, NB.next, cursorStep, h0, hf, abs_head vals i s.len (by omega)]
      · simp [NB.step, NB.next, h0]; omega
      · simp [NB.step, NB.next, h0, hf, hnx]
      · simp [NB.step, NB.next, h0, hb]
      · simp [NB.step, NB.next, cursorStep, h0, abs_tail]
  | nextBack =>
    by_cases h0 : s.len = 0
    · refine ⟨?_, i, j, ?_, ?_⟩ <;> simp [NB.step, NB.nextBack, cursorStep, h0, absList]
      exact ⟨by simpa [h0] using htot, hf, hb⟩
    · have hj : j < vals.length := by omega
      refine ⟨?_, i, j+1, ⟨?_, ?_, ?_⟩, ?_⟩
      · simp only [NB.step, NB.nextBack, cursorStep, h0, if_false, hb, hj, if_true]
        rw [abs_getLast vals i s.len (by omega) (by omega)]; congr 1; omega
      · simp [NB.step, NB.nextBack, h0]; omega
      · simp [NB.step, NB.nextBack, h0, hf]
      · simp only [NB.step, NB.nextBack, h0, if_false, hb, hj, if_true]
        rw [hpv _ (by omega)]
        by_cases hz : vals.length - 1 - j = 0
        · have : ¬ (j + 1 < vals.length) := by omega
          simp [hz, this]
        · have : j + 1 < vals.length := by omega
          simp [hz, this]; congr 1
      · simp [NB.step, NB.nextBack, cursorStep, h0, abs_dropLast vals i s.len (by omega)]

theorem run_sim (vals : List Int)
    (hnx : ∀ i, (vals[i]?).bind nx = vals[i+1]?)
    (hpv : ∀ i, i < vals.length → (vals[i]?).bind pv = if i = 0 then none else vals[i-1]?)
    (ops : List Op) : ∀ (s : NB) (i j : Nat), NBInv vals s i j →
      s.run nx pv ops = cursorRun (absList vals i s.len) ops := by
  induction ops with
  | nil => intros; rfl
  | cons o os ih =>
    intro s i j hinv
    obtain ⟨hout, i', j', hinv', habs⟩ := step_sim nx pv vals hnx hpv s i j hinv o
    simp only [NB.run, cursorRun]
    rw [hout, habs, ih _ i' j' hinv']

#print axioms run_sim
