-- Design prototype P2 (not part of the framework): the run table computed like
-- src/parser/mod.rs:67-80 covers exactly the discriminants.
def rangesLoop : (b l : Int) → List Int → List (Int × Int)
  | b, l, [] => [(b, l)]
  | b, l, i :: rest => if i ≠ l + 1 then (b, l) :: rangesLoop i i rest else rangesLoop b i rest

def computeRanges : List Int → List (Int × Int)
  | [] => []
  | m :: rest => rangesLoop m m rest

def InRanges (rs : List (Int × Int)) (x : Int) : Prop := ∃ r ∈ rs, r.1 ≤ x ∧ x ≤ r.2

theorem inRanges_loop (rest : List Int) : ∀ (b l : Int), b ≤ l → (∀ y ∈ rest, l < y) → rest.Pairwise (· < ·) →
    ∀ x, InRanges (rangesLoop b l rest) x ↔ ((b ≤ x ∧ x ≤ l) ∨ x ∈ rest) := by
  induction rest with
  | nil => intro b l _ _ _ x; simp [rangesLoop, InRanges]
  | cons i rest ih =>
    intro b l hbl hgt hp x
    have hi : l < i := hgt i (by simp)
    have hp' := List.pairwise_cons.mp hp
    unfold rangesLoop
    split
    · -- new run
      have := ih i i (Int.le_refl _) (fun y hy => hp'.1 y hy) hp'.2 x
      have hsplit : InRanges ((b, l) :: rangesLoop i i rest) x ↔ ((b ≤ x ∧ x ≤ l) ∨ InRanges (rangesLoop i i rest) x) := by
        simp [InRanges]
      rw [hsplit, this]; simp only [List.mem_cons]; constructor
      · rintro (h | h | h)
        · exact Or.inl h
        · exact Or.inr (Or.inl (by omega))
        · exact Or.inr (Or.inr h)
      · rintro (h | h | h)
        · exact Or.inl h
        · exact Or.inr (Or.inl (by omega))
        · exact Or.inr (Or.inr h)
    · -- extend run
      rename_i hne
      have hil : i = l + 1 := by omega
      have := ih b i (by omega) (fun y hy => hp'.1 y hy) hp'.2 x
      rw [this]; simp only [List.mem_cons]; constructor
      · rintro (h | h)
        · by_cases hx : x = i
          · exact Or.inr (Or.inl hx)
          · exact Or.inl (by omega)
        · exact Or.inr (Or.inr h)
      · rintro (h | h | h)
        · exact Or.inl (by omega)
        · exact Or.inl (by omega)
        · exact Or.inr h

theorem inRanges_iff (vals : List Int) (hp : vals.Pairwise (· < ·)) (x : Int) :
    InRanges (computeRanges vals) x ↔ x ∈ vals := by
  cases vals with
  | nil => simp [computeRanges, InRanges]
  | cons m rest =>
    have hp' := List.pairwise_cons.mp hp
    simp only [computeRanges]
    rw [inRanges_loop rest m m (Int.le_refl _) hp'.1 hp'.2 x]
    simp only [List.mem_cons]; constructor
    · rintro (h | h); exact Or.inl (by omega); exact Or.inr h
    · rintro (h | h); exact Or.inl (by omega); exact Or.inr h

#print axioms inRanges_iff
#eval computeRanges [-10, -5, -4, 3]
