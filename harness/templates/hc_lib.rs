//! Common part of the behavioural harness: the operation interpreter every generated
//! subject plugs into.  One line in, one line out; panics are caught per operation.
use std::io::{BufRead, Write};
use std::iter::FusedIterator;
use std::panic::{catch_unwind, AssertUnwindSafe};

pub trait Subject {
    fn id(&self) -> &'static str;
    /// run one operation (`toks[0]` = kind); the result is canonical text
    fn op(&self, toks: &[&str]) -> String;
}

pub fn hex(s: &str) -> String {
    let mut out = String::from("x");
    for b in s.as_bytes() {
        out.push_str(&format!("{:02x}", b));
    }
    out
}

pub fn unhex(s: &str) -> String {
    let b = s.as_bytes();
    let mut v = Vec::new();
    let mut i = 1;
    while i + 1 < b.len() {
        let h = (b[i] as char).to_digit(16).unwrap() as u8;
        let l = (b[i + 1] as char).to_digit(16).unwrap() as u8;
        v.push(h * 16 + l);
        i += 2;
    }
    String::from_utf8(v).unwrap()
}

pub fn opt<T: std::fmt::Display>(o: Option<T>) -> String {
    match o {
        Some(v) => format!("S{}", v),
        None => "N".to_string(),
    }
}

/// run an operation script on an iterator; the bounds are the four traits the
/// documentation promises
pub fn run_iter<I, T, F, M>(mut it: I, toks: &[&str], show: F, minmax: M) -> String
where
    I: Iterator<Item = T> + DoubleEndedIterator + ExactSizeIterator + FusedIterator,
    F: Fn(T) -> String,
    M: Fn(I, bool) -> Option<T>,
{
    let mut out: Vec<String> = Vec::new();
    let mut i = 0;
    while i < toks.len() && toks[i] != ";" {
        let t = toks[i];
        let r = match t.as_bytes()[0] {
            b'n' => opt(it.next().map(&show)),
            b'b' => opt(it.next_back().map(&show)),
            b'l' => format!("L{}", it.len()),
            b'h' => {
                let (lo, hi) = it.size_hint();
                match hi {
                    Some(h) => format!("H{},{}", lo, h),
                    None => format!("H{},-", lo),
                }
            }
            b't' => opt(it.nth(t[1..].parse::<usize>().unwrap()).map(&show)),
            b'u' => opt(it.nth_back(t[1..].parse::<usize>().unwrap()).map(&show)),
            _ => "?".to_string(),
        };
        out.push(r);
        i += 1;
    }
    if i + 1 < toks.len() {
        let list = |v: Vec<T>| format!("[{}]", v.into_iter().map(&show).collect::<Vec<_>>().join(","));
        let r = match toks[i + 1] {
            "fold" => list(it.fold(Vec::new(), |mut a, x| {
                a.push(x);
                a
            })),
            "rfold" => list(it.rfold(Vec::new(), |mut a, x| {
                a.push(x);
                a
            })),
            "last" => opt(it.last().map(&show)),
            "count" => format!("C{}", it.count()),
            "collect" => list(it.collect::<Vec<_>>()),
            "rev" => list(it.rev().collect::<Vec<_>>()),
            "min" => opt(minmax(it, true).map(&show)),
            "max" => opt(minmax(it, false).map(&show)),
            _ => "?".to_string(),
        };
        out.push(r);
    }
    out.join(" ")
}

/// args: <ops-file> [--resume-after <subject> <opid>]
pub fn main_loop(subjects: &[&dyn Subject]) {
    std::panic::set_hook(Box::new(|_| {}));
    let args: Vec<String> = std::env::args().collect();
    let file = std::fs::File::open(&args[1]).expect("ops file");
    let mut resume: Option<(String, String)> = None;
    if args.len() >= 5 && args[2] == "--resume-after" {
        resume = Some((args[3].clone(), args[4].clone()));
    }
    let stdout = std::io::stdout();
    let mut cur: Option<&dyn Subject> = None;
    for line in std::io::BufReader::new(file).lines() {
        let line = line.unwrap();
        let toks: Vec<&str> = line.split_whitespace().collect();
        if toks.is_empty() {
            continue;
        }
        if toks[0] == "DECL" {
            cur = subjects.iter().copied().find(|s| s.id() == toks[1]);
            continue;
        }
        if toks[0] != "OP" {
            continue;
        }
        let s = match cur {
            Some(s) => s,
            None => continue,
        };
        if let Some((rs, ro)) = &resume {
            if s.id() == rs && toks[1] == ro {
                resume = None;
            }
            continue;
        }
        let r = catch_unwind(AssertUnwindSafe(|| s.op(&toks[2..]))).unwrap_or_else(|_| "PANIC".to_string());
        let mut o = stdout.lock();
        writeln!(o, "{} {} {}", s.id(), toks[1], r).unwrap();
        o.flush().unwrap();
    }
}
