"""Shared, cached stages behind every per-property check.

A stage's result is cached under work/cache/<key>/<stage>.json where <key> hashes /repo's
working tree (src, Cargo.toml, Cargo.lock), /verif's own sources, the seed and the tier -- so
running all checks costs one build, yet any edit under /repo (or /verif) recomputes everything.
"""
import fcntl
import hashlib
import json
import os
import re
import subprocess
import sys
import time

VERIF = os.path.dirname(os.path.dirname(os.path.abspath(__file__)))
REPO = os.environ.get("VERIF_REPO", "/repo")
WORK = os.path.join(VERIF, "work")
LEAN_DIR = os.path.join(VERIF, "lean")
sys.path.insert(0, os.path.join(VERIF, "harness"))
sys.path.insert(0, os.path.join(VERIF, "translate"))


def log(*a):
    print(*a, file=sys.stderr, flush=True)


def _hash_tree(h, root, rel_dirs, exts=None, skip=()):
    for rd in rel_dirs:
        base = os.path.join(root, rd)
        if os.path.isfile(base):
            h.update(rd.encode()); h.update(open(base, "rb").read()); continue
        for dp, dns, fns in sorted(os.walk(base)):
            dns[:] = sorted(d for d in dns if d not in skip)
            for fn in sorted(fns):
                if exts and not fn.endswith(exts):
                    continue
                p = os.path.join(dp, fn)
                h.update(os.path.relpath(p, root).encode())
                h.update(open(p, "rb").read())


def repo_hash():
    h = hashlib.sha256()
    _hash_tree(h, REPO, ["src", "Cargo.toml", "Cargo.lock"])
    return h.hexdigest()[:16]


def verif_hash():
    h = hashlib.sha256()
    _hash_tree(h, VERIF, ["harness", "translate", "check", "known_findings.json"], skip=("__pycache__",))
    _hash_tree(h, VERIF, ["lean"], exts=(".lean", ".toml"), skip=(".lake", "Generated"))
    return h.hexdigest()[:16]


def cache_dir(seed, tier):
    key = f"{repo_hash()}-{verif_hash()}-{seed}-{tier}"
    d = os.path.join(WORK, "cache", key)
    os.makedirs(d, exist_ok=True)
    return d


class Lock:
    """exclusive file lock, re-entrant within this process"""
    held = {}

    def __init__(self, name):
        os.makedirs(WORK, exist_ok=True)
        self.name = name
        self.path = os.path.join(WORK, name + ".lock")

    def __enter__(self):
        if Lock.held.get(self.name, 0) == 0:
            f = open(self.path, "w")
            fcntl.flock(f, fcntl.LOCK_EX)
            Lock.held[self.name + ":f"] = f
        Lock.held[self.name] = Lock.held.get(self.name, 0) + 1
        return self

    def __exit__(self, *a):
        Lock.held[self.name] -= 1
        if Lock.held[self.name] == 0:
            f = Lock.held.pop(self.name + ":f")
            fcntl.flock(f, fcntl.LOCK_UN)
            f.close()


def cached(stage, seed, tier, compute, lockname=None):
    d = cache_dir(seed, tier)
    p = os.path.join(d, stage + ".json")
    if os.path.exists(p):
        return json.load(open(p))
    with Lock(lockname or stage):
        if os.path.exists(p):
            return json.load(open(p))
        t0 = time.time()
        r = compute()
        r["_stage_wall_s"] = round(time.time() - t0, 1)
        tmp = p + ".tmp"
        json.dump(r, open(tmp, "w"), default=str)
        os.replace(tmp, p)
        prune_cache()
        return r


def prune_cache(keep=6):
    cd = os.path.join(WORK, "cache")
    ds = sorted((os.path.getmtime(os.path.join(cd, d)), d) for d in os.listdir(cd))
    for _, d in ds[:-keep]:
        subprocess.run(["rm", "-rf", os.path.join(cd, d)])


# ---------------------------------------------------------------- Lean stage

THM_RE = re.compile(r"^\s*(?:@\[[^\]]*\]\s*)?theorem\s+([A-Za-z0-9_'.]+)", re.M)
ALLOWED_AXIOMS = {"propext", "Classical.choice", "Quot.sound"}
FORBIDDEN = re.compile(r"\b(sorry|admit|native_decide|bv_decide|implemented_by|unsafe)\b|^\s*axiom\s|maxHeartbeats\s+0", re.M)


def strip_comments(text):
    text = re.sub(r'"(?:[^"\\]|\\.)*"', '""', text)      # string literals (the inventory quotes Rust keywords)
    text = re.sub(r"/-.*?-/", "", text, flags=re.S)
    return re.sub(r"--.*", "", text)


def property_theorems():
    """{property id -> [fully qualified theorem names]} from lean/EnumToolsModel/Thm/Cxx.lean"""
    out = {}
    td = os.path.join(LEAN_DIR, "EnumToolsModel", "Thm")
    if not os.path.isdir(td):
        return out
    for fn in sorted(os.listdir(td)):
        m = re.match(r"(C\d+)\.lean$", fn)
        if not m:
            continue
        text = strip_comments(open(os.path.join(td, fn)).read())
        ns = re.search(r"^namespace\s+(\S+)", text, re.M)
        prefix = (ns.group(1) + ".") if ns else ""
        out[m.group(1)] = [prefix + t for t in THM_RE.findall(text)]
    return out


def lean_stage(seed, tier):
    def compute():
        res = {"ok": True, "errors": [], "translator": {}}
        # 1. regenerate the translated modules from /repo
        import translate
        res["translator"] = translate.run(REPO, os.path.join(LEAN_DIR, "EnumToolsModel", "Generated"))
        for mod, msg in res["translator"].get("errors", {}).items():
            # the tie of this module is broken; the stale text is kept so that everything else still builds
            res["ok"] = False
            res["errors"].append({"kind": "translator", "module": "EnumToolsModel.Generated." + mod.replace(".lean", ""), "msg": msg})
        # 2. forbidden constructs
        hits = []
        for dp, _, fns in os.walk(os.path.join(LEAN_DIR)):
            if ".lake" in dp:
                continue
            for fn in fns:
                if fn.endswith(".lean"):
                    txt = strip_comments(open(os.path.join(dp, fn)).read())
                    for m in FORBIDDEN.finditer(txt):
                        hits.append(f"{os.path.relpath(os.path.join(dp, fn), LEAN_DIR)}: {m.group(0).strip()}")
        res["forbidden_hits"] = hits
        if hits:
            res["ok"] = False
            res["errors"].append({"kind": "forbidden", "msg": "; ".join(hits)})
        # 3. build (the library root imports every module present)
        mods = []
        for dp, _, fns in sorted(os.walk(os.path.join(LEAN_DIR, "EnumToolsModel"))):
            for fn in sorted(fns):
                if fn.endswith(".lean"):
                    rel = os.path.relpath(os.path.join(dp, fn), LEAN_DIR)[:-5]
                    mods.append(rel.replace(os.sep, "."))
        root = "".join(f"import {m}\n" for m in mods)
        rp = os.path.join(LEAN_DIR, "EnumToolsModel.lean")
        if not os.path.exists(rp) or open(rp).read() != root:
            open(rp, "w").write(root)
        # the executables first: they do not depend on the proof modules
        for exe in ("etmodel", "ettrans"):
            q = subprocess.run(["lake", "build", exe], cwd=LEAN_DIR, capture_output=True, text=True)
            res[exe + "_rc"] = q.returncode
        p = subprocess.run(["lake", "build"], cwd=LEAN_DIR, capture_output=True, text=True)
        res["build_rc"] = p.returncode
        out = p.stdout + p.stderr
        res["build_tail"] = "\n".join(l for l in out.splitlines() if not l.startswith("trace"))[-6000:]
        failed = re.findall(r"^✖ \[\d+/\d+\] Building (\S+)", out, re.M)
        res["failed_modules"] = failed
        if p.returncode != 0:
            res["ok"] = False
            res["errors"].append({"kind": "build", "msg": "lake build failed: " + ", ".join(failed)})
        # 4. axiom audit of every property theorem (only those whose module built)
        thms = property_theorems()
        res["theorems"] = thms
        axioms = {}
        if p.returncode == 0:
            ok_mods = list(thms)
        else:
            # which property modules still build (a module can be unbuildable because something it imports failed)
            ok_mods = []
            for pid in thms:
                q = subprocess.run(["lake", "build", f"EnumToolsModel.Thm.{pid}"], cwd=LEAN_DIR, capture_output=True, text=True)
                if q.returncode == 0:
                    ok_mods.append(pid)
        res["thm_modules_built"] = ok_mods
        if ok_mods:
            audit = "\n".join(f"import EnumToolsModel.Thm.{pid}" for pid in ok_mods) + "\n"
            for pid in ok_mods:
                for t in thms[pid]:
                    audit += f"#print axioms {t}\n"
            ap = os.path.join(WORK, "Audit.lean")
            os.makedirs(WORK, exist_ok=True)
            open(ap, "w").write(audit)
            q = subprocess.run(["lake", "env", "lean", ap], cwd=LEAN_DIR, capture_output=True, text=True)
            txt = q.stdout + q.stderr
            for m in re.finditer(r"'([^']+)' depends on axioms: \[([^\]]*)\]", txt):
                axioms[m.group(1)] = [a.strip() for a in m.group(2).replace("\n", " ").split(",") if a.strip()]
            for m in re.finditer(r"'([^']+)' does not depend on any axioms", txt):
                axioms[m.group(1)] = []
            if q.returncode != 0:
                res["errors"].append({"kind": "audit", "msg": txt[-2000:]})
                res["ok"] = False
        res["axioms"] = axioms
        bad = {t: a for t, a in axioms.items() if set(a) - ALLOWED_AXIOMS}
        if bad:
            res["ok"] = False
            res["errors"].append({"kind": "axioms", "msg": json.dumps(bad)})
        return res
    return cached("lean", seed, "any", compute, lockname="lean")


# ---------------------------------------------------------------- behavioural stage

def behav_stage(seed, tier):
    def compute():
        import corpus as C
        import behav
        lean = lean_stage(seed, tier)
        if lean.get("build_rc", 1) != 0 and not os.path.exists(behav.ETMODEL):
            raise RuntimeError("model driver did not build")
        c = C.Corpus(seed, tier).build()
        # the third column needs a driver built from the Templates.lean of *this* run
        fresh_t = lean.get("ettrans_rc", 1) == 0 and "Templates.lean" not in lean.get("translator", {}).get("errors", {})
        r = behav.run_stage(c, tier, log=log, translated=fresh_t)
        r["translated_column"] = fresh_t
        # keep the cache small: transcripts only for grouped subjects
        grouped = {sid for g in c.groups.values() for sid in g}
        r["transcripts"] = {k: v for k, v in r["transcripts"].items() if k in grouped}
        r["subject_meta"] = {s.sid: {"family": s.family, "note": s.note, "repr": s.repr, "n": len(s.variants),
                                     "sem": [[d, nm] for d, _, nm in s.sorted_discs()] if len(s.variants) <= 64 else None}
                             for s in c.subjects}
        return r
    return cached("behav", seed, tier, compute, lockname="cargo")


# ---------------------------------------------------------------- probe stage (accept / reject)

def probe_stage(seed, tier):
    def compute():
        import probes
        import behav
        lean_stage(seed, tier)
        ps = probes.ProbeSet(seed, tier).build()
        return probes.run_probes(ps, WORK, behav.ETMODEL, log=log)
    return cached("probes", seed, tier, compute, lockname="cargo")
