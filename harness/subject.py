"""Abstract description of one derive input ("subject") and its two renderings:
Rust source text for the real derive, and protocol lines for the Lean model driver.

Everything the Lean `Decl` distinguishes is representable here, plus concrete spellings
(literal base, underscores, suffix, foreign attributes) that the model abstracts away.
"""
from dataclasses import dataclass, field
from typing import List, Optional, Tuple

REPRS = {
    "u8": (False, 8), "i8": (True, 8), "u16": (False, 16), "i16": (True, 16),
    "u32": (False, 32), "i32": (True, 32), "u64": (False, 64), "i64": (True, 64),
    "u128": (False, 128), "i128": (True, 128), "usize": (False, 64), "isize": (True, 64),
}


def repr_lo(r):
    s, b = REPRS[r]
    return -(1 << (b - 1)) if s else 0


def repr_hi(r):
    s, b = REPRS[r]
    return (1 << (b - 1)) - 1 if s else (1 << b) - 1


def hexname(s: str) -> str:
    return "x" + s.encode("utf-8").hex()


def rust_str(s: str) -> str:
    out = ['"']
    for ch in s:
        if ch == '"':
            out.append('\\"')
        elif ch == "\\":
            out.append("\\\\")
        elif ch == "\n":
            out.append("\\n")
        elif ch == "\t":
            out.append("\\t")
        elif ch == "\r":
            out.append("\\r")
        elif ch == "\0":
            out.append("\\0")
        elif ord(ch) < 0x20 or ord(ch) == 0x7F:
            out.append("\\u{%x}" % ord(ch))
        else:
            out.append(ch)
    out.append('"')
    return "".join(out)


@dataclass
class Disc:
    """kind: none | lit | neg | negattr | negneg | negother | other
    text: Rust source of the expression (for lit/neg: the spelling of the magnitude)"""
    kind: str = "none"
    mag: int = 0
    text: str = ""

    def rust(self):
        if self.kind == "none":
            return ""
        if self.kind == "lit":
            return " = " + (self.text or str(self.mag))
        if self.kind == "neg":
            return " = -" + (self.text or str(self.mag))
        if self.kind == "negneg":
            return " = --" + (self.text or str(self.mag))
        return " = " + self.text

    def proto(self):
        if self.kind == "none":
            return "-"
        if self.kind in ("lit", "neg", "negattr", "negneg"):
            return f"{self.kind}:{self.mag}"
        if self.kind == "negother":
            return "negother"
        return "other"


@dataclass
class VAttr:
    """kind: foreign | rename | bademit | badabort ; text = Rust source of the whole attribute"""
    kind: str
    value: str = ""
    text: str = ""

    def rust(self):
        if self.text:
            return self.text
        if self.kind == "rename":
            return f"#[enum_tools(rename = {rust_str(self.value)})]"
        raise ValueError("attribute needs text")

    def proto(self):
        if self.kind == "rename":
            return "VATTR rename " + hexname(self.value)
        return "VATTR " + self.kind


@dataclass
class Variant:
    ident: str
    disc: Disc = field(default_factory=Disc)
    attrs: List[VAttr] = field(default_factory=list)
    fields: str = "u"  # u | n | t
    fields_text: str = ""

    @property
    def name(self):
        n = self.ident
        for a in self.attrs:
            if a.kind == "rename":
                n = a.value
        return n


@dataclass
class Param:
    """kind: flag | str | nonstr | other"""
    kind: str
    name: str = ""
    value: str = ""
    text: str = ""

    def rust(self):
        if self.text:
            return self.text
        if self.kind == "flag":
            return self.name
        if self.kind == "str":
            return f"{self.name} = {rust_str(self.value)}"
        raise ValueError("param needs text")

    def proto(self):
        if self.kind == "flag":
            return f"PARAM flag {self.name}"
        if self.kind == "str":
            return f"PARAM str {self.name} {hexname(self.value)}"
        if self.kind == "nonstr":
            return f"PARAM nonstr {self.name}"
        return "PARAM other"


@dataclass
class Item:
    """kind: path | list | listfail | other ; name may start with '::' for a complex path"""
    kind: str
    name: str = ""
    params: List[Param] = field(default_factory=list)
    text: str = ""

    def rust(self):
        if self.text:
            return self.text
        if self.kind == "path":
            return self.name
        if self.kind == "list":
            return f"{self.name}({', '.join(p.rust() for p in self.params)})"
        raise ValueError("item needs text")

    def proto(self):
        if self.kind == "path":
            return [f"ITEM path {self.name}"]
        if self.kind == "other":
            return ["ITEM other"]
        if self.kind == "listfail":
            return [f"ITEM listfail {self.name}"]
        return [f"ITEM list {self.name} {len(self.params)}"] + [p.proto() for p in self.params]


@dataclass
class EAttr:
    """kind: repr | repr-other | et | et-fail | et-notlist | foreign"""
    kind: str
    name: str = ""
    items: List[Item] = field(default_factory=list)
    text: str = ""

    def rust(self):
        if self.text:
            return self.text
        if self.kind == "repr":
            return f"#[repr({self.name})]"
        if self.kind == "et":
            return f"#[enum_tools({', '.join(i.rust() for i in self.items)})]"
        raise ValueError("attr needs text")

    def proto(self):
        if self.kind == "repr":
            return [f"ATTR repr ident {self.name}"]
        if self.kind == "repr-other":
            return ["ATTR repr other"]
        if self.kind == "foreign":
            return ["ATTR foreign"]
        if self.kind == "et-fail":
            return ["ATTR et-fail"]
        if self.kind == "et-notlist":
            return ["ATTR et-notlist"]
        out = [f"ATTR et {len(self.items)}"]
        for i in self.items:
            out += i.proto()
        return out


@dataclass
class Subject:
    sid: str
    attrs: List[EAttr]
    variants: List[Variant]
    kind: str = "enum"
    vis: str = "pub"
    ename: str = "E"
    derives: str = "Clone, Copy"
    family: str = ""
    note: str = ""
    body_text: str = ""  # for struct/union: the body

    # ---- semantic helpers (the generator's own knowledge; used for op generation) ----
    @property
    def repr(self) -> Optional[str]:
        for a in self.attrs:
            if a.kind == "repr":
                return a.name
        return None

    def discs(self) -> List[Tuple[int, str, str]]:
        """(discriminant, ident, name) in declaration order by the language rule."""
        out = []
        nxt = 0
        for v in self.variants:
            if v.disc.kind == "none":
                d = nxt
            elif v.disc.kind == "lit":
                d = v.disc.mag
            elif v.disc.kind in ("neg", "negattr"):
                d = -v.disc.mag
            else:
                return []
            out.append((d, v.ident, v.name))
            nxt = d + 1
        return out

    def sorted_discs(self):
        return sorted(self.discs(), key=lambda t: t[0])

    def features(self):
        """feature name -> dict(param -> value) for well-formed et attributes"""
        out = {}
        for a in self.attrs:
            if a.kind == "et":
                for it in a.items:
                    if it.kind in ("path", "list"):
                        out[it.name] = {p.name: p.value for p in it.params if p.kind in ("flag", "str")}
        return out

    # ---- renderings ----
    def rust_decl(self) -> str:
        lines = [f"#[derive({self.derives}{', ' if self.derives else ''}EnumTools)]"]
        for a in self.attrs:
            lines.append(a.rust())
        if self.kind != "enum":
            lines.append(f"{self.vis} {self.kind} {self.ename} {self.body_text}")
            return "\n".join(lines)
        lines.append(f"{self.vis} enum {self.ename} {{".strip())
        for v in self.variants:
            for a in v.attrs:
                lines.append("    " + a.rust())
            lines.append(f"    {v.ident}{v.fields_text}{v.disc.rust()},")
        lines.append("}")
        return "\n".join(lines)

    def proto_decl(self, ptr_bits=64) -> List[str]:
        out = [f"DECL {self.sid} {self.kind} {ptr_bits}"]
        for a in self.attrs:
            out += a.proto()
        for v in self.variants:
            out.append(f"VAR {hexname(v.ident)} {v.fields} {v.disc.proto()} {len(v.attrs)}")
            for a in v.attrs:
                out.append(a.proto())
        out.append("END")
        return out


# ---- (de)serialisation for replay files ----
def to_json(s: Subject) -> dict:
    from dataclasses import asdict
    return asdict(s)


def from_json(d: dict) -> Subject:
    def va(x):
        return VAttr(**x)

    def var(x):
        return Variant(x["ident"], Disc(**x["disc"]), [va(a) for a in x["attrs"]], x["fields"], x["fields_text"])

    def item(x):
        return Item(x["kind"], x["name"], [Param(**p) for p in x["params"]], x["text"])

    def ea(x):
        return EAttr(x["kind"], x["name"], [item(i) for i in x["items"]], x["text"])

    return Subject(d["sid"], [ea(a) for a in d["attrs"]], [var(v) for v in d["variants"]], d["kind"], d["vis"],
                   d["ename"], d["derives"], d["family"], d["note"], d["body_text"])
