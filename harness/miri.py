"""Thorough tier of C02: a reduced corpus run under Miri (`cargo +nightly miri run`, offline).
Miri is a detector for the correspondence (it sees invalid enum values, uninitialised reads and
failed unchecked assumptions even when the program would not crash); it is not a proof."""
import os
import subprocess
import time
from concurrent.futures import ThreadPoolExecutor

import stages


def build_corpus(seed, tier, per_family=None, max_variants=40, ops_per_kind=(14, 8)):
    import corpus as C
    base = C.Corpus(seed, "quick")
    base.fam_regressions()
    base.fam_small_scope()
    base.fam_general()
    if per_family and ("B" in per_family or "N" in per_family):
        base.fam_names()
        base.fam_big()
    out = C.Corpus(seed, tier)
    per_family = per_family or {"R": 12, "X": 40, "G": 12}
    seen = {}
    for s in base.subjects:
        if len(s.variants) > max_variants:
            continue
        k = seen.get(s.family, 0)
        if k >= per_family.get(s.family, 0):
            continue
        seen[s.family] = k + 1
        ops = base.ops[s.sid]
        # keep every kind of operation, at most ~10 of each
        kept, cnt = [], {}
        for l in ops:
            kind = l.split(" ")[2]
            if kind == "tables":
                continue
            if cnt.get(kind, 0) < (ops_per_kind[0] if kind in ("tf", "tt") else ops_per_kind[1]):
                cnt[kind] = cnt.get(kind, 0) + 1
                kept.append(l)
        out.subjects.append(s)
        out.ops[s.sid] = kept
    return out


def run_bin_miri(crate, target, k, ops_path):
    env = dict(os.environ, MIRIFLAGS="-Zmiri-disable-isolation", CARGO_NET_OFFLINE="true", CARGO_TARGET_DIR=target)
    p = subprocess.run(["cargo", "+nightly", "miri", "run", "--offline", "--bin", f"b{k}", "--", ops_path], cwd=crate, env=env,
                       capture_output=True, text=True, timeout=3000)
    return p.returncode, p.stdout.splitlines(), p.stderr[-3000:]


def stage(seed, tier):
    def compute():
        import behav
        import rustgen
        stages.lean_stage(seed, tier)
        c = build_corpus(seed, tier)
        crate = os.path.join(stages.WORK, "harness", "miri")
        target = os.path.join(stages.WORK, "target-miri")
        os.makedirs(crate, exist_ok=True)
        nb = 8
        bins = behav.partition(c.subjects, c.ops, nb)
        rustgen.write_crate(crate, bins)
        paths = behav.write_ops(crate, bins, c.ops)
        t0 = time.time()
        # build once (sequentially) so that the parallel runs do not fight over the target dir lock
        first = run_bin_miri(crate, target, 0, paths[0])
        with ThreadPoolExecutor(max_workers=8) as ex:
            rest = list(ex.map(lambda k: run_bin_miri(crate, target, k, paths[k]), range(1, len(bins))))
        results = [first] + rest
        model = [behav.run_model(p) for p in paths]
        by_sid = {s.sid: s for s in c.subjects}
        impl = [(lines, []) for (_, lines, _) in results]
        r = behav.compare(bins, c.ops, impl, model, by_sid)
        ub = []
        for k, (rc, lines, err) in enumerate(results):
            if rc != 0:
                last = lines[-1] if lines else "(nothing printed)"
                ub.append({"bin": k, "rc": rc, "after": last, "miri": err[-1500:],
                           "undefined_behaviour": "Undefined Behavior" in err})
        r["miri_failures"] = ub
        r["n_subjects"] = len(c.subjects)
        r["t_total_s"] = round(time.time() - t0, 1)
        r["transcripts"] = {}
        r["model_tables"] = {}
        return r
    return stages.cached("miri", seed, tier, compute, lockname="cargo")


def evaluate(ctx, out):
    r = stage(ctx.seed, ctx.tier)
    cov = out.evidence["coverage"]
    cov["miri_subjects"] = r["n_subjects"]
    cov["miri_operations"] = r["n_ops"]
    cov["miri_failures"] = len(r["miri_failures"])
    cov["miri_wall_s"] = r["t_total_s"]
    cov["evaluations"] = cov.get("evaluations", 0) + r["n_ops"]
    import props
    for f in r["miri_failures"][:2]:
        out.violations.append({"property": "C02", "kind": "miri-reports-undefined-behaviour" if f["undefined_behaviour"] else "miri-run-failed",
                               "last_operation_completed": f["after"], "miri_output": f["miri"], "witness_key": "miri"})
    for m in props.pick_minimal(r["mismatches"])[:2]:
        out.violations.append(props.behav_violation(ctx, m, r, "differs-under-miri"))
