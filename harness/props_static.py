"""Properties decided through accept/reject probes, expansions and the regenerated modules."""
import json
import os

import stages


def probe_violation(ctx, p, kind):
    return {"property": ctx.pid, "kind": kind, "probe_class": p["cls"], "witness_key": p["cls"].split(":")[0],
            "expected": p["expect"], "implementation": p["impl"], "model": p.get("model_detail"),
            "rustc_error": p.get("error", "")[:1200], "source": p["source"], "subject": p.get("subject")}


def eval_probes(ctx, out, problems, props=None, extra_rule=""):
    pr = stages.probe_stage(ctx.seed, ctx.tier)
    mine = [p for p in pr["probes"] if p["prop"] in (props or [ctx.pid])]
    cov = out.evidence["coverage"]
    cov["evaluations"] = cov.get("evaluations", 0) + len(mine)
    cov["traces_validated_against_impl"] = cov.get("traces_validated_against_impl", 0) + len(mine)
    classes = {}
    for p in mine:
        k = p["cls"].split(":")[0]
        classes[k] = classes.get(k, 0) + 1
    cov["probe_classes"] = classes
    cov["distinct_nontrivial"] = cov.get("distinct_nontrivial", 0) + len({(p["cls"], p["source"]) for p in mine})
    cov["expected_accept"] = sum(1 for p in mine if p["expect"] == "accept")
    cov["expected_reject"] = sum(1 for p in mine if p["expect"] == "reject")
    cov["rule"] = ("single-file probes compiled by rustc 1.95 against the freshly built derive (rustc --emit=metadata --extern enum_tools=<.so>); "
                   "each probe is one legal declaration/configuration or a one-change mutant of one, class by class; expected verdict from the "
                   "property, predicted verdict from the Lean model (`expand`), observed verdict from rustc; distinct = distinct (class, source)" + extra_rule)
    bad = [p for p in mine if p["impl"] != p["expect"]]
    mdiff = [p for p in mine if p.get("model") and p["model"] != p["impl"] and p["impl"] == p["expect"]]
    cov["implementation_vs_expected_failures"] = len(bad)
    cov["model_vs_implementation_disagreements"] = len(mdiff)
    seen = set()
    for p in sorted(bad, key=lambda p: len(p["source"])):
        k = p["cls"].split(":")[0]
        if k in seen:
            continue
        seen.add(k)
        out.violations.append(probe_violation(ctx, p, "verdict-differs-from-property"))
    if not bad:
        for p in sorted(mdiff, key=lambda p: len(p["source"]))[:1]:
            v = probe_violation(ctx, p, "model-differs-from-implementation")
            v["no_failing_input"] = True
            v["what_no_longer_checks"] = "accept/reject correspondence between lean/EnumToolsModel/Macro.lean (`expand`) and the derive"
            out.violations.append(v)
    cov["samples"] = [{"class": p["cls"], "expect": p["expect"], "implementation": p["impl"], "model": p.get("model"),
                       "source": p["source"][:700]} for p in mine[:1] + mine[len(mine) // 2: len(mine) // 2 + 1] + mine[-1:]]
    return mine, bad


def eval_compile_fail_of_behav(ctx, out, only_family=None):
    """every behavioural subject is in the documented domain with a documented configuration"""
    b = stages.behav_stage(ctx.seed, ctx.tier)
    if only_family:
        b = dict(b, compile_fail=[m for m in b["compile_fail"] if m.get("sid", "").startswith(only_family)])
    cov = out.evidence["coverage"]
    cov["behavioural_subjects_compiled"] = b["n_subjects"] - len(b["compile_fail"])
    cov["behavioural_subjects_failed_to_compile"] = len(b["compile_fail"])
    cov["evaluations"] = cov.get("evaluations", 0) + b["n_subjects"]
    for m in sorted(b["compile_fail"], key=lambda m: len(m["decl"]))[:2]:
        out.violations.append({"property": ctx.pid, "kind": "in-domain-declaration-does-not-compile", "declaration": m["decl"],
                               "rustc_error": m["error"], "model": m["model"], "note": m["note"],
                               "witness_key": m["note"].split(" cfg=")[0]})


def evaluate(ctx, out, problems):
    import props
    pid = ctx.pid
    cov = out.evidence["coverage"]
    if pid in ("C10", "C11"):
        eval_probes(ctx, out, problems)
        eval_compile_fail_of_behav(ctx, out)
    elif pid in ("C12", "C13", "C14", "C15", "C19"):
        eval_probes(ctx, out, problems)
        if pid == "C15":
            # the corpus family with requested names / visibilities / struct names (ASCII and not): a declaration of it that does not
            # compile has not got its items under the requested names
            eval_compile_fail_of_behav(ctx, out, only_family="V")
    elif pid == "C16":
        eval_probes(ctx, out, problems)
        import hostile
        hostile.evaluate(ctx, out)
    elif pid == "C17":
        import determinism
        determinism.evaluate(ctx, out)
    else:
        raise RuntimeError("unknown property " + pid)
    out.searched = "all probes / expansions of this property: observed == what the property demands"
