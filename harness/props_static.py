"""placeholder until the probe-based properties are implemented"""
def evaluate(ctx, out, problems):
    raise RuntimeError("property not implemented yet")
