"""Behavioural correspondence stage: build the harness crate against /repo, run every subject's
operation script on the real derive and on the Lean model, compare line by line."""
import json
import os
import re
import subprocess
import sys
import time
from concurrent.futures import ThreadPoolExecutor

from subject import Subject
import rustgen

VERIF = os.path.dirname(os.path.dirname(os.path.abspath(__file__)))
WORK = os.path.join(VERIF, "work")
ETMODEL = os.path.join(VERIF, "lean", ".lake", "build", "bin", "etmodel")
ETTRANS = os.path.join(VERIF, "lean", ".lake", "build", "bin", "ettrans")
NBINS = 16

OP_PROPERTY = {
    "tf": "C01", "tt": "C01", "into": "C01", "Into": "C01",
    "next": "C05", "nb": "C05", "min": "C05", "max": "C05",
    "as": "C03", "disp": "C03", "dbg": "C03", "istr": "C03",
    "fs": "C04", "ft": "C04",
    "iter": "C06", "range": "C07", "names": "C08", "tables": "STRUCT",
}


def cargo_env(target_dir):
    env = dict(os.environ)
    env["CARGO_NET_OFFLINE"] = "true"
    env["CARGO_TARGET_DIR"] = target_dir
    env.setdefault("CARGO_TERM_COLOR", "never")
    return env


def partition(subjects, ops, nbins):
    """balance by a compile/run cost estimate"""
    cost = lambda s: 40 + len(s.variants) * 2 + len(ops[s.sid]) // 20
    order = sorted(subjects, key=cost, reverse=True)
    bins = [[] for _ in range(nbins)]
    loads = [0] * nbins
    for s in order:
        k = loads.index(min(loads))
        bins[k].append(s)
        loads[k] += cost(s)
    return [b for b in bins if b]


def write_ops(crate_dir, bins, ops):
    od = os.path.join(crate_dir, "ops")
    os.makedirs(od, exist_ok=True)
    paths = []
    for k, subs in enumerate(bins):
        p = os.path.join(od, f"b{k}.txt")
        with open(p, "w") as f:
            for s in subs:
                f.write("\n".join(s.proto_decl()) + "\n")
                f.write("\n".join(ops[s.sid]) + "\n")
        paths.append(p)
    return paths


def build(crate_dir, target_dir, profile="dev", log=None):
    """cargo build; returns (ok, failing {bin -> [line numbers]}, raw stderr)"""
    cmd = ["cargo", "build", "--offline", "--bins", "--message-format=json", "--keep-going", "-j", "16"]
    if profile == "release":
        cmd.append("--release")
    p = subprocess.run(cmd, cwd=crate_dir, env=cargo_env(target_dir), capture_output=True, text=True)
    failing = {}
    for line in p.stdout.splitlines():
        try:
            m = json.loads(line)
        except Exception:
            continue
        if m.get("reason") == "compiler-message" and m["message"].get("level") == "error":
            tgt = m.get("target", {}).get("name", "")
            msg = m["message"]
            lines = [sp["line_start"] for sp in msg.get("spans", []) if sp.get("file_name", "").endswith(f"{tgt}.rs")]
            # macro-expansion errors carry the span of the derive input
            def walk(sp):
                out = []
                e = sp.get("expansion")
                while e:
                    sp2 = e.get("span")
                    if sp2 and sp2.get("file_name", "").endswith(f"{tgt}.rs"):
                        out.append(sp2["line_start"])
                    e = sp2.get("expansion") if sp2 else None
                return out
            for sp in msg.get("spans", []):
                lines += walk(sp)
            failing.setdefault(tgt, []).append((lines, msg.get("rendered") or msg.get("message")))
    if log:
        with open(log, "w") as f:
            f.write(p.stdout[-200000:] + "\n---- stderr\n" + p.stderr[-200000:])
    return p.returncode == 0, failing, p.stderr


def subject_line_ranges(crate_dir, k, subs):
    """line ranges of each subject's module in src/bin/bK.rs"""
    text = open(os.path.join(crate_dir, "src", "bin", f"b{k}.rs")).read().split("\n")
    starts = {}
    for i, l in enumerate(text, 1):
        m = re.match(r"pub mod m_(\w+) \{", l)
        if m:
            starts[m.group(1)] = i
    order = sorted(starts.items(), key=lambda kv: kv[1])
    ranges = {}
    for j, (sid, st) in enumerate(order):
        en = order[j + 1][1] - 1 if j + 1 < len(order) else len(text)
        ranges[sid] = (st, en)
    return ranges


def run_bin(exe, ops_path, timeout=600):
    """run a harness binary; on abnormal exit resume after the operation that died"""
    out_lines = []
    resume = None
    aborted = []
    for _ in range(300):
        cmd = [exe, ops_path] + (["--resume-after", resume[0], resume[1]] if resume else [])
        p = subprocess.run(cmd, capture_output=True, text=True, timeout=timeout, errors="replace")
        lines = p.stdout.splitlines()
        out_lines += lines
        if p.returncode == 0:
            break
        # find the op that died: the one after the last printed line
        last = None
        for l in reversed(out_lines):
            t = l.split(" ", 2)
            if len(t) >= 2:
                last = (t[0], t[1])
                break
        nxt = next_op_after(ops_path, last)
        if nxt is None:
            break
        out_lines.append(f"{nxt[0]} {nxt[1]} ABORT(rc={p.returncode})")
        aborted.append(nxt)
        resume = nxt
    return out_lines, aborted


def next_op_after(ops_path, last):
    cur = None
    seen = last is None
    for l in open(ops_path):
        t = l.split()
        if not t:
            continue
        if t[0] == "DECL":
            cur = t[1]
        elif t[0] == "OP":
            if seen:
                return (cur, t[1])
            if (cur, t[1]) == last:
                seen = True
    return None


def run_model(ops_path, exe=None):
    p = subprocess.run([exe or ETMODEL], stdin=open(ops_path), capture_output=True, text=True)
    if p.returncode != 0:
        raise RuntimeError(os.path.basename(exe or ETMODEL) + " failed: " + p.stderr[-2000:])
    return p.stdout.splitlines()


def translated_column(lines):
    """{(sid, opid): T value} from the output of ettrans"""
    out = {}
    for l in lines:
        i = l.rfind(" T=")
        if i < 0:
            continue
        t = l.split(" ", 2)
        out[(t[0], t[1])] = l[i + 3:]
    return out


def split_ms(rest):
    """'M=... S=...' -> (m, s)"""
    i = rest.rfind(" S=")
    return rest[2:i], rest[i + 3:]


class DeriveDoesNotBuild(RuntimeError):
    """the derive crate itself does not compile when it is built as a dependency of a user crate (its own workspace may still build:
    features of shared dependencies are unified differently there)"""


def run_stage(corpus, tier, profile="dev", tag=None, log=print, translated=True):
    """returns a result dict (JSON-serialisable)"""
    t0 = time.time()
    tag = tag or tier
    crate_dir = os.path.join(WORK, "harness", tag)
    target_dir = os.path.join(WORK, "target")
    os.makedirs(crate_dir, exist_ok=True)
    subjects = list(corpus.subjects)
    ops = corpus.ops
    compile_fail = {}
    bins = partition(subjects, ops, NBINS)
    for attempt in range(6):
        rustgen.write_crate(crate_dir, bins)
        ok, failing, stderr = build(crate_dir, target_dir, profile, log=os.path.join(crate_dir, f"build{attempt}.log"))
        if ok:
            break
        if not failing:
            raise RuntimeError("harness build failed without per-subject errors:\n" + stderr[-4000:])
        removed = 0
        for tgt, errs in failing.items():
            if not tgt.startswith("b"):
                if (os.environ.get("VERIF_REPO", "/repo").rstrip("/") + "/src/") in errs[0][1]:
                    raise DeriveDoesNotBuild(errs[0][1])
                raise RuntimeError(f"harness lib failed to build: {errs[0][1]}")
            k = int(tgt[1:])
            ranges = subject_line_ranges(crate_dir, k, bins[k])
            for lines, rendered in errs:
                for sid, (a, b) in ranges.items():
                    if any(a <= ln <= b for ln in lines):
                        if sid not in compile_fail:
                            compile_fail[sid] = rendered
                            removed += 1
            bins[k] = [s for s in bins[k] if s.sid not in compile_fail]
        if removed == 0:
            raise RuntimeError("harness build failed; could not attribute errors:\n" + json.dumps(failing)[:4000])
        bins = [b for b in bins if b]
        log(f"[behav] {removed} subject(s) failed to compile; rebuilding without them")
    else:
        raise RuntimeError("harness build did not converge")
    t_build = time.time() - t0
    ops_paths = write_ops(crate_dir, bins, ops)
    prof_dir = "release" if profile == "release" else "debug"
    with ThreadPoolExecutor(max_workers=16) as ex:
        impl_f = [ex.submit(run_bin, os.path.join(target_dir, prof_dir, f"b{k}"), ops_paths[k]) for k in range(len(bins))]
        model_f = [ex.submit(run_model, ops_paths[k]) for k in range(len(bins))]
        use_t = translated and os.path.exists(ETTRANS)
        trans_f = [ex.submit(run_model, ops_paths[k], ETTRANS) for k in range(len(bins))] if use_t else []
        impl = [f.result() for f in impl_f]
        model = [f.result() for f in model_f]
        trans = [translated_column(f.result()) for f in trans_f] if use_t else None
    # model verdicts for subjects that failed to compile
    cf_subjects = [s for s in subjects if s.sid in compile_fail]
    model_cf = {}
    if cf_subjects:
        p = os.path.join(crate_dir, "ops", "compile_fail.txt")
        with open(p, "w") as f:
            for s in cf_subjects:
                f.write("\n".join(s.proto_decl()) + "\n")
        for l in run_model(p):
            t = l.split(" ", 2)
            if len(t) >= 3 and t[1] == "DECL":
                model_cf[t[0]] = t[2]
    by_sid = {s.sid: s for s in subjects}
    res = compare(bins, ops, impl, model, by_sid, trans)
    res["compile_fail"] = [{"sid": sid, "error": (err or "")[:1500], "model": model_cf.get(sid, "?"),
                            "decl": by_sid[sid].rust_decl(), "note": by_sid[sid].note} for sid, err in compile_fail.items()]
    res["n_subjects"] = len(subjects)
    res["n_bins"] = len(bins)
    res["t_build_s"] = round(t_build, 1)
    res["t_total_s"] = round(time.time() - t0, 1)
    res["profile"] = profile
    res["groups"] = corpus.groups
    res["families"] = {}
    for s in subjects:
        res["families"][s.family] = res["families"].get(s.family, 0) + 1
    res["repr_dist"] = {}
    for s in subjects:
        res["repr_dist"][s.repr] = res["repr_dist"].get(s.repr, 0) + 1
    res["size_dist"] = {}
    for s in subjects:
        n = len(s.variants)
        b = "1" if n == 1 else "2-3" if n <= 3 else "4-10" if n <= 10 else "11-100" if n <= 100 else "101-1000" if n <= 1000 else ">1000"
        res["size_dist"][b] = res["size_dist"].get(b, 0) + 1
    return res


def compare(bins, ops, impl, model, by_sid, trans=None):
    per_prop = {}
    translated_defects = []   # impl == spec but the translated template (Generated/Templates.lean) gives something else
    n_translated = 0
    mismatches = []       # impl != spec  (property violations)
    model_defects = []    # impl == spec but model != spec
    transcripts = {}      # sid -> {optext -> impl result}   (for C09 / C18 grouping)
    model_tables = {}     # sid -> tables line
    aborted = []
    n_ops = 0
    for k, subs in enumerate(bins):
        impl_lines, ab = impl[k]
        aborted += ab
        impl_map = {}
        for l in impl_lines:
            t = l.split(" ", 2)
            if len(t) == 3:
                impl_map[(t[0], t[1])] = t[2]
            elif len(t) == 2:
                impl_map[(t[0], t[1])] = ""
        model_map = {}
        decl_verdict = {}
        for l in model[k]:
            t = l.split(" ", 2)
            if len(t) < 3:
                continue
            if t[1] == "DECL":
                decl_verdict[t[0]] = t[2]
            else:
                model_map[(t[0], t[1])] = t[2]
        for s in subs:
            tr = transcripts.setdefault(s.sid, {})
            if not decl_verdict.get(s.sid, "").startswith("accept"):
                model_defects.append({"sid": s.sid, "op": "DECL", "impl": "compiled", "model": decl_verdict.get(s.sid),
                                      "spec": "accept", "decl": s.rust_decl(), "note": s.note})
            for line in ops[s.sid]:
                t = line.split(" ")
                opid, kind = t[1], t[2]
                prop = OP_PROPERTY.get(kind, "?")
                optext = " ".join(t[2:])
                m, sp = split_ms(model_map.get((s.sid, opid), "M=MISSING S=MISSING"))
                if kind == "tables":
                    model_tables[s.sid] = m
                    continue
                n_ops += 1
                im = impl_map.get((s.sid, opid), "MISSING")
                st = per_prop.setdefault(prop, {"ops": 0, "kinds": {}, "distinct": set()})
                st["ops"] += 1
                st["kinds"][kind] = st["kinds"].get(kind, 0) + 1
                st["distinct"].add((s.sid, optext))
                tr[optext] = im
                if im != sp:
                    mismatches.append({"property": prop, "sid": s.sid, "op": optext, "impl": im, "spec": sp, "model": m,
                                       "decl": s.rust_decl(), "note": s.note, "family": s.family})
                elif m != sp:
                    model_defects.append({"sid": s.sid, "op": optext, "impl": im, "model": m, "spec": sp,
                                          "decl": s.rust_decl(), "note": s.note})
                if trans is not None:
                    tv = trans[k].get((s.sid, opid))
                    if tv is not None:
                        n_translated += 1
                        if im == sp and tv != im:
                            translated_defects.append({"sid": s.sid, "op": optext, "impl": im, "model": tv, "spec": sp,
                                                       "decl": s.rust_decl(), "note": s.note})
    for p in per_prop.values():
        p["distinct"] = len(p["distinct"])
    bad_sids = []
    for m in mismatches + model_defects + translated_defects:
        if m["sid"] not in bad_sids:
            bad_sids.append(m["sid"])
    from subject import to_json
    bad_subjects = {sid: to_json(by_sid[sid]) for sid in bad_sids[:100]}
    for m in mismatches + model_defects + translated_defects:
        m["nvariants"] = len(by_sid[m["sid"]].variants)
        if len(m.get("decl", "")) > 3000:
            m["decl"] = m["decl"][:3000] + "\n…"
    return {"per_prop": per_prop, "mismatches": mismatches[:5000], "n_mismatches": len(mismatches),
            "model_defects": model_defects[:2000], "translated_defects": translated_defects[:2000],
            "n_translated_ops": n_translated, "bad_subjects": bad_subjects,
            "transcripts": transcripts, "model_tables": model_tables, "aborted": [list(a) for a in aborted], "n_ops": n_ops}


if __name__ == "__main__":
    import corpus as C
    tier = sys.argv[1] if len(sys.argv) > 1 else "quick"
    seed = int(os.environ.get("VERIF_SEED", "1"))
    c = C.Corpus(seed, tier).build()
    print("subjects", len(c.subjects), "ops", sum(len(v) for v in c.ops.values()))
    r = run_stage(c, tier)
    print(json.dumps({k: v for k, v in r.items() if k not in ("transcripts", "model_tables", "groups")}, indent=1, default=str)[:6000])
