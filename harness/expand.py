"""Expansion stage: dump the real expansion of a sample of corpus subjects with
`rustc -Zunpretty=expanded` in K fresh processes.

Used for (a) C17: the K dumps must be byte-identical (every process has fresh hash seeds);
(b) the structural correspondence: tables, helper items, names, visibilities and the iterator
mode found in the expansion must be the ones the Lean model (`expand` + `Tables`) predicts.
"""
import hashlib
import os
import re
import subprocess
from concurrent.futures import ThreadPoolExecutor

import corpus as C
from subject import REPRS, repr_lo, repr_hi

# one identifier: letters, digits, `_`, and what else may continue an identifier (combining marks, connector punctuation)
IDC = r"[\w\u0300-\u036F\u0900-\u097F\u203F\u2040]+"

HEADER = "#![allow(dead_code, unused, non_camel_case_types, non_snake_case, non_upper_case_globals, unreachable_patterns)]\n"


def select_subjects(corp, tier):
    """a sample rich in what could depend on hash order: many variants, wide values, renames"""
    picks = []
    per_family = {"S": 20, "V": 40, "R": 60, "G": 60 if tier == "thorough" else 24, "N": 18, "B": 6, "A": 40 if tier == "thorough" else 12,
                  "X": 60 if tier == "thorough" else 16, "M": 20 if tier == "thorough" else 8,
                  "P": 179 if tier == "thorough" else 70, "I": 40, "Q": 60 if tier == "thorough" else 24}
    seen = {}
    for s in corp.subjects:
        if len(s.variants) > 700:
            continue
        k = seen.get(s.family, 0)
        if k < per_family.get(s.family, 0):
            picks.append(s)
            seen[s.family] = k + 1
    return picks


def write_source(path, subjects):
    """every declaration appears twice (m_<sid> and, at a different position of the same process, d_<sid>)"""
    with open(path, "w") as f:
        f.write(HEADER)
        for pre, subs in (("m_", subjects), ("d_", list(reversed(subjects)))):
            for s in subs:
                f.write(f"pub mod {pre}{s.sid} {{\n    use enum_tools::EnumTools;\n    ")
                f.write("\n    ".join(s.rust_decl().split("\n")))
                f.write("\n}\n")


# per-process state other than the hash seeds: what the compiler process finds in its environment.  Cargo sets variables of this
# kind for build scripts and wrappers; a derive that reads one of them expands the same declaration differently there.
PROCESS_ENVS = [
    {},
    {"CARGO_CFG_TARGET_POINTER_WIDTH": "64", "CARGO_CFG_TARGET_ENDIAN": "little", "TARGET": "x86_64-unknown-linux-gnu", "PROFILE": "debug"},
    {"CARGO_CFG_TARGET_POINTER_WIDTH": "16", "CARGO_CFG_TARGET_ENDIAN": "big", "CARGO_CFG_TARGET_ARCH": "avr", "TARGET": "avr-none",
     "HOST": "other", "PROFILE": "release", "OPT_LEVEL": "3", "DEBUG": "false", "CARGO_PKG_NAME": "other", "CARGO_PKG_VERSION": "9.9.9",
     "CARGO_CRATE_NAME": "other", "CARGO_MANIFEST_DIR": "/nonexistent", "OUT_DIR": "/nonexistent", "LANG": "de_DE.UTF-8", "LC_ALL": "C",
     "TZ": "Asia/Tokyo", "RUST_BACKTRACE": "1", "CARGO_CFG_DEBUG_ASSERTIONS": "", "CARGO_FEATURE_STD": "1", "NUM_JOBS": "1"},
    {"CARGO_CFG_TARGET_POINTER_WIDTH": "32", "CARGO_CFG_TARGET_ARCH": "wasm32", "TARGET": "wasm32-unknown-unknown", "CARGO_ENCODED_RUSTFLAGS": "",
     "CARGO_PRIMARY_PACKAGE": "1", "USER": "nobody", "TMPDIR": "/var/tmp", "SOURCE_DATE_EPOCH": "1"},
]


def expand_once(args):
    src, so, idx = args
    env = dict(os.environ, RUSTC_BOOTSTRAP="1")
    env.update(PROCESS_ENVS[idx % len(PROCESS_ENVS)])
    p = subprocess.run(["rustc", "--edition", "2021", "--crate-type", "lib", "--crate-name", "expn", "-Zunpretty=expanded",
                        "--extern", f"enum_tools={so}", "-Awarnings", src], capture_output=True, text=True, env=env)
    return p.returncode, p.stdout, p.stderr[-3000:]


def split_modules(text):
    """{sid: module text}"""
    out = {}
    cur = None
    buf = []
    for line in text.split("\n"):
        m = re.match(r"pub mod ([md])_(\w+) \{", line)
        if m:
            if cur:
                out[cur] = "\n".join(buf)
            cur = m.group(2) if m.group(1) == "m" else "dup:" + m.group(2)
            buf = []
        elif cur is not None:
            buf.append(line)
    if cur:
        out[cur] = "\n".join(buf)
    return {k: v.rstrip() for k, v in out.items()}


def run(corp, tier, work, k_runs, exclude=()):
    import probes
    so = probes.find_enum_tools_so(work)
    d = os.path.join(work, "expand", tier)
    os.makedirs(d, exist_ok=True)
    subs = [s for s in select_subjects(corp, tier) if s.sid not in exclude]
    src = os.path.join(d, "expn.rs")
    dropped = []
    for attempt in range(8):
        write_source(src, subs)
        rc0, text0, err0 = expand_once((src, so, 0))
        if rc0 == 0:
            break
        # drop the subjects whose declarations the errors point into, and retry
        lines = [int(x) for x in re.findall(r"expn\.rs:(\d+):", err0)]
        text = open(src).read().split("\n")
        bad = set()
        for ln in lines:
            j = ln - 1
            while j >= 0 and not re.match(r"pub mod [md]_(\w+) \{", text[j]):
                j -= 1
            if j >= 0:
                bad.add(re.match(r"pub mod [md]_(\w+) \{", text[j]).group(1))
        if not bad:
            raise RuntimeError("expansion failed: " + err0)
        dropped += sorted(bad)
        subs = [s for s in subs if s.sid not in bad]
    else:
        raise RuntimeError("expansion failed repeatedly: " + err0)
    with ThreadPoolExecutor(max_workers=16) as ex:
        res = [(rc0, text0, err0)] + list(ex.map(expand_once, [(src, so, i) for i in range(1, k_runs)]))
    for i, (rc, _, err) in enumerate(res):
        if rc != 0:
            raise RuntimeError(f"expansion run {i} failed although run 0 succeeded (the machinery's environment, not the derive): " + err[-800:])
    hashes = [hashlib.sha256(t.encode()).hexdigest()[:16] for _, t, _ in res]
    diffs = []
    mods0 = split_modules(text0)
    # the same declaration expanded twice inside one process (different hash seeds, different position)
    for sid in [k for k in mods0 if not k.startswith("dup:")]:
        a, b = mods0[sid].split("\n"), mods0.get("dup:" + sid, "").split("\n")
        if a != b:
            first = next((j for j in range(min(len(a), len(b))) if a[j] != b[j]), min(len(a), len(b)))
            diffs.append({"sid": sid, "run": "same process, second copy", "line_a": a[first] if first < len(a) else "",
                          "line_b": b[first] if first < len(b) else ""})
    for i, (rc, t, _) in enumerate(res[1:], 1):
        if t != text0:
            mi = split_modules(t)
            for sid in mods0:
                if sid.startswith("dup:"):
                    continue
                if mi.get(sid) != mods0[sid]:
                    a, b = mods0[sid].split("\n"), (mi.get(sid) or "").split("\n")
                    first = next((j for j in range(min(len(a), len(b))) if a[j] != b[j]), min(len(a), len(b)))
                    diffs.append({"sid": sid, "run": i, "line_a": a[first] if first < len(a) else "", "line_b": b[first] if first < len(b) else ""})
                    break
    open(os.path.join(d, "expanded.rs"), "w").write(text0)
    return {"k_runs": k_runs, "hashes": hashes, "diffs": diffs, "n_subjects": len(subs), "bytes": len(text0),
            "modules": {k: v for k, v in mods0.items() if not k.startswith("dup:")}, "sids": [s.sid for s in subs], "dropped_not_compiling": dropped}


# ------------------------------------------------------------------ structure extraction

def rust_unescape(lit):
    """contents of a Rust string literal (without quotes) -> str"""
    out = []
    i = 0
    while i < len(lit):
        c = lit[i]
        if c != "\\":
            out.append(c); i += 1; continue
        n = lit[i + 1]
        if n == "n": out.append("\n"); i += 2
        elif n == "t": out.append("\t"); i += 2
        elif n == "r": out.append("\r"); i += 2
        elif n == "0": out.append("\0"); i += 2
        elif n == "\\": out.append("\\"); i += 2
        elif n == '"': out.append('"'); i += 2
        elif n == "'": out.append("'"); i += 2
        elif n == "x": out.append(chr(int(lit[i + 2:i + 4], 16))); i += 4
        elif n == "u":
            j = lit.index("}", i)
            out.append(chr(int(lit[i + 3:j], 16))); i = j + 1
        else:
            out.append(n); i += 2
    return "".join(out)


STR_RE = r'"((?:[^"\\]|\\.)*)"'


def wrap(r, x):
    s, b = REPRS[r]
    m = 1 << b
    x %= m
    if s and x >= m // 2:
        x -= m
    return x


def int_lit(tok, r):
    """'-10i8' / '(-10i8)' / '228i8' -> value as rustc evaluates it"""
    tok = tok.strip().strip("()").strip()
    neg = tok.startswith("-")
    t = tok.lstrip("-").strip()
    t = re.sub(r"(i|u)(8|16|32|64|128|size)$", "", t)
    v = wrap(r, int(t))
    return wrap(r, -v) if neg else v


def extract(mod_text, subj):
    """structure of one expansion"""
    r = subj.repr
    E = subj.ename
    out = {"items": {}, "tables": {}}
    flat = re.sub(r"\s+", " ", mod_text)
    m = re.search(r"const __NAME: \[&'static str; (\d+)(?:usize)?\] = \[(.*?)\];", flat)
    if m:
        out["tables"]["name"] = [rust_unescape(x) for x in re.findall(STR_RE, m.group(2))]
    m = re.search(r"const __ENUM: \[" + E + r"; (\d+)(?:usize)?\] = \[(.*?)\];", flat)
    if m:
        out["tables"]["enum"] = re.findall(E + r"::((?:r#)?\w+)", m.group(2))
    m = re.search(r"const __RANGES: \[\(::core::ops::RangeInclusive<\w+>, (\w+|\(\))\); (\d+)(?:usize)?\] = \[(.*?)\];", flat)
    if m:
        ents = []
        body = m.group(3)
        for em in re.finditer(r"\((-?\s*\w+)\s*\.\.=\s*(-?\s*\w+),\s*(\(\)|\(?-?\s*\w+\)?\.wrapping_sub\((\w+)\))\)", body):
            b, e = int_lit(em.group(1), r), int_lit(em.group(2), r)
            if em.group(3) == "()":
                ents.append((b, e, None))
            else:
                recv = em.group(3).split(".wrapping_sub")[0]
                # evaluate the receiver exactly as rustc parses it: `-5i8.wrapping_sub(o)` is -(5.wrapping_sub(o))
                o = int_lit(em.group(4), r)
                if recv.strip().startswith("("):
                    val = wrap(r, int_lit(recv, r) - o)
                else:
                    neg = recv.strip().startswith("-")
                    mag = int_lit(recv.strip().lstrip("-"), r)
                    val = wrap(r, mag - o)
                    val = wrap(r, -val) if neg else val
                ents.append((b, e, val))
        out["tables"]["ranges"] = ents
        out["tables"]["ranges_n"] = int(m.group(2))
    # constants, functions and structs with their visibility (doc attributes removed first)
    nodoc = re.sub(r'#\[doc\s*=\s*r?' + STR_RE + r'\]', "", flat)
    nodoc = re.sub(r"#\[inline\]|#\[automatically_derived\]|#\[doc\(hidden\)\]", "", nodoc)
    for im in re.finditer(r"(?<![\w:])((?:pub(?:\([^)]*\))?\s+)?)(const fn|fn|const|struct)\s+(" + IDC + r")", nodoc):
        vis, kind, name = im.group(1).strip(), im.group(2), im.group(3)
        out["items"].setdefault(name, []).append({"vis": vis, "kind": kind})
    mm = re.search(r"const (" + IDC + r"): " + E + r" = " + E + r"::((?:r#)?\w+); (?:#\[doc[^\]]*\] )*(?:///[^\n]*)?", flat)
    consts = re.findall(r"((?:pub(?:\([^)]*\))? )?)const (" + IDC + r"): " + E + r" = " + E + r"::((?:r#)?\w+);", flat)
    out["enum_consts"] = [{"vis": v.strip(), "name": n, "variant": var} for v, n, var in consts]
    # iterator mode from the struct's field type
    im = re.search(r"struct (" + IDC + r") \{ inner: ::core::iter::Map<", flat)
    if im: out["iter_mode"] = "range"
    elif re.search(r"struct " + IDC + r" \{ fwd: ", flat): out["iter_mode"] = "next_and_back"
    elif re.search(r"struct " + IDC + r" \{ inner: ::core::array::IntoIter<", flat): out["iter_mode"] = "table_inline"
    elif re.search(r"struct " + IDC + r" \{ inner: ::core::iter::Copied<::core::slice::Iter<'static, " + E + ">>", flat): out["iter_mode"] = "table"
    else: out["iter_mode"] = None
    # string modes
    out["as_str_mode"] = None
    am = re.search(r"fn (" + IDC + r")\(self\) -> &'static str \{ (.{0,60})", flat)
    if am:
        out["as_str_mode"] = "match" if am.group(2).lstrip().startswith("match self") else "table"
    return out


# ------------------------------------------------------------------ comparison with the model's prediction

FLAG_FEATURE = {"asStr": "as_str", "fromStrFn": "from_str", "intoFn": "into", "iter": "iter", "maxC": "MAX", "minC": "MIN",
                "names": "names", "nextBack": "next_back", "next": "next", "range": "range", "tryFromFn": "try_from"}


def parse_model_tables(line):
    d = {}
    for key in ("ranges", "vals", "names", "min", "max", "ubits", "modes", "flags", "items"):
        m = re.search(r"(?:^| )" + key + r"=(.*?)(?= (?:ranges|vals|names|min|max|ubits|modes|flags|items)=|$)", line)
        d[key] = m.group(1) if m else ""
    out = {}
    out["gapless"] = d["ranges"] == "gapless"
    out["ranges"] = [] if out["gapless"] else [tuple(int(x) for x in re.match(r"(-?\d+)\.\.(-?\d+)@(-?\d+)", e).groups()) for e in d["ranges"].split(";") if e]
    out["vals"] = [int(x) for x in re.findall(r"-?\d+", d["vals"])]
    out["names"] = [bytes.fromhex(x[1:]).decode("utf-8") for x in re.findall(r"x[0-9a-f]*", d["names"])]
    out["min"], out["max"] = int(d["min"]), int(d["max"])
    out["modes"] = d["modes"].split(",")
    out["flags"] = set(d["flags"].split(",")) if d["flags"] else set()
    out["items"] = {}
    for it in d["items"].split(";"):
        if it:
            f, name, vis, sn = it.split(":")
            out["items"][f] = {"name": name, "vis": vis, "struct": None if sn == "-" else sn}
    return out


def vis_text(v, enum_vis):
    return {"enum": enum_vis, "inherited": "", "pub(crate)": "pub(crate)", "pub": "pub"}[v]


def compare_structure(subj, ext, model):
    """list of {what, expected(model), found(expansion), props}"""
    diffs = []

    feats = subj.features()

    def d(what, exp, found, props, feat=None, field=None):
        diffs.append({"what": what, "model": exp, "expansion": found, "props": props})
        # when the declaration itself asks for this name / visibility (or leaves it to the default) and the model predicts exactly that,
        # the expansion differs from the request, whatever the model says
        p = feats.get(feat) if feat else None
        if p is not None and field:
            if field == "vis":
                asked = p["vis"] if "vis" in p else subj.vis
            elif field == "name":
                asked = p.get("name", feat)
            else:
                asked = p.get("struct_name") or (subj.ename + ("Iter" if feat == "iter" else "Names"))
            if str(asked) == str(exp):
                diffs[-1]["differs_from_request"] = {"feature": feat, field: asked}
    fl = model["flags"]
    disc_of = {ident: dd for dd, ident, _ in subj.discs()}
    t = ext["tables"]
    # name table
    if ("tableName" in fl) != ("name" in t):
        d("__NAME presence", "tableName" in fl, "name" in t, ["C10"])
    elif "name" in t and t["name"] != model["names"]:
        d("__NAME contents", model["names"], t["name"], ["C03", "C04", "C08"])
    if ("tableEnum" in fl) != ("enum" in t):
        d("__ENUM presence", "tableEnum" in fl, "enum" in t, ["C10"])
    elif "enum" in t and [disc_of.get(i) for i in t["enum"]] != model["vals"]:
        d("__ENUM contents", model["vals"], [disc_of.get(i) for i in t["enum"]], ["C06", "C07", "C04"])
    want_ranges = ("tableRange" in fl) and not model["gapless"]
    if want_ranges != ("ranges" in t):
        d("__RANGES presence", want_ranges, "ranges" in t, ["C10"])
    elif "ranges" in t:
        exp = [(b, e, o if "tableRangeOfs" in fl else None) for b, e, o in model["ranges"]]
        if [tuple(x) for x in t["ranges"]] != exp:
            d("__RANGES contents", exp, t["ranges"], ["C01", "C05", "C03", "C07"])
        if t.get("ranges_n") != len(exp):
            d("__RANGES length", len(exp), t.get("ranges_n"), ["C01", "C05"])
    # MIN / MAX
    consts = {c["name"]: c for c in ext["enum_consts"]}
    for flag, val in (("minC", model["min"]), ("maxC", model["max"])):
        it = model["items"].get(flag)
        if flag in fl:
            c = consts.get(it["name"])
            if c is None:
                d(f"{flag} const {it['name']} missing", it["name"], sorted(consts), ["C10", "C15"], FLAG_FEATURE[flag], "name")
            else:
                if disc_of.get(c["variant"]) != val:
                    d(f"{flag} variant", val, disc_of.get(c["variant"]), ["C05"])
                if c["vis"] != vis_text(it["vis"], subj.vis):
                    d(f"{flag} visibility", vis_text(it["vis"], subj.vis), c["vis"], ["C15"], FLAG_FEATURE[flag], "vis")
        elif it and it["name"] in consts:
            d(f"{flag} const present although not enabled", None, it["name"], ["C15"])
    # functions
    for flag, feat in FLAG_FEATURE.items():
        if flag in ("minC", "maxC"):
            continue
        it = model["items"].get(flag)
        found = ext["items"].get(it["name"], []) if it else []
        fns = [x for x in found if x["kind"] in ("fn", "const fn")]
        if flag in fl:
            want = vis_text(it["vis"], subj.vis)
            if not fns:
                d(f"fn {it['name']} ({feat}) missing", it["name"], sorted(ext["items"]), ["C10", "C15"], feat, "name")
            elif not any(x["vis"] == want for x in fns):
                d(f"fn {it['name']} ({feat}) visibility", want, [x["vis"] for x in fns], ["C15"], feat, "vis")
    # iterator struct + mode
    if "iter" in fl:
        if ext["iter_mode"] != model["modes"][3]:
            d("iter mode", model["modes"][3], ext["iter_mode"], ["C09"])
        it = model["items"]["iter"]
        sn = it["struct"] or (subj.ename + "Iter")
        st = [x for x in ext["items"].get(sn, []) if x["kind"] == "struct"]
        if not st:
            d(f"iterator struct {sn} missing", sn, sorted(k for k, v in ext["items"].items() if any(x["kind"] == "struct" for x in v)), ["C15"], "iter", "struct")
        elif st[0]["vis"] != vis_text(it["vis"], subj.vis):
            d(f"iterator struct {sn} visibility", vis_text(it["vis"], subj.vis), st[0]["vis"], ["C15"], "iter", "vis")
    if "names" in fl:
        it = model["items"]["names"]
        sn = it["struct"] or (subj.ename + "Names")
        st = [x for x in ext["items"].get(sn, []) if x["kind"] == "struct"]
        if not st:
            d(f"names struct {sn} missing", sn, None, ["C15"], "names", "struct")
        elif st[0]["vis"] != vis_text(it["vis"], subj.vis):
            d(f"names struct {sn} visibility", vis_text(it["vis"], subj.vis), st[0]["vis"], ["C15"], "names", "vis")
    if "asStr" in fl and ext["as_str_mode"] is not None and ext["as_str_mode"] != model["modes"][0]:
        d("as_str mode", model["modes"][0], ext["as_str_mode"], ["C09"])
    # public surface: everything visible must have been asked for under that name
    allowed = set()
    for flag in FLAG_FEATURE:
        it = model["items"].get(flag)
        if it and flag in fl:
            allowed.add(it["name"])
            if it.get("struct"):
                allowed.add(it["struct"])
    allowed.update([subj.ename + "Iter", subj.ename + "Names", subj.ename])
    for name, lst in ext["items"].items():
        for x in lst:
            if x["vis"] != "" and name not in allowed:
                d(f"unexpected visible item {name}", None, x, ["C15"])
    return diffs
