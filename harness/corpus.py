"""Seeded corpus of declarations, configurations and operation scripts for the behavioural
correspondence (model <-> real derive).  Every random choice derives from one PRNG."""
import random
from typing import List, Optional, Tuple

from subject import (Subject, EAttr, Item, Param, Variant, VAttr, Disc, REPRS, repr_lo, repr_hi, hexname)

ALL_FEATURES = ["as_str", "from_str", "into", "MAX", "MIN", "next", "next_back", "try_from",
                "Debug", "Display", "FromStr", "Into", "IntoStr", "TryFrom", "iter", "names", "range"]
BIG = 18446744073709551615


# ------------------------------------------------------------------ declarations

def spell(rng: random.Random, mag: int, r: str, fancy: bool) -> str:
    if not fancy:
        return str(mag)
    if fancy == "hex":
        return rng.choice([hex(mag), "0x" + "%X" % mag, "0o%o" % mag, "0b" + bin(mag)[2:], "0x" + "_".join("%X" % mag)])
    k = rng.randrange(7)
    if k == 0:
        return hex(mag)
    if k == 1:
        return "0o%o" % mag
    if k == 2:
        return "0b" + bin(mag)[2:]
    if k == 3:
        s = str(mag)
        return s[0] + "_" + s[1:] if len(s) > 1 else s + "_"
    if k == 4:
        return f"{mag}{r}"
    if k == 5:
        return "0x" + "_".join("%X" % mag)
    return str(mag)


def mk_variants(rng, entries, r, implicit_ok=True, fancy=False, implicit_p=0.5) -> List[Variant]:
    """entries: list of (disc, ident, rename|None) in declaration order"""
    out = []
    nxt = 0
    FOREIGN = ["/// a doc comment", "#[allow(dead_code)]", "#[doc = \"x\"]", "#[allow(non_camel_case_types)]"]
    for (d, ident, ren) in entries:
        attrs = []
        if ren is not None:
            attrs.append(VAttr("rename", ren))
        # foreign attributes before and/or after the rename (and on variants without one)
        if rng.random() < 0.2:
            for _ in range(rng.choice([1, 1, 2])):
                a = VAttr("foreign", text=rng.choice(FOREIGN))
                attrs.insert(rng.choice([0, len(attrs)]), a)
        if implicit_ok and d == nxt and rng.random() < implicit_p:
            disc = Disc("none")
        elif d < 0:
            disc = Disc("neg", -d, spell(rng, -d, r, fancy))
        else:
            disc = Disc("lit", d, spell(rng, d, r, fancy))
        out.append(Variant(ident, disc, attrs))
        nxt = d + 1
    return out


def cfg_attrs(feats: List[Tuple[str, dict]], split: int = 1) -> List[EAttr]:
    """feats: [(feature, {param: value})]; split over `split` attributes"""
    items = []
    for name, params in feats:
        if params:
            items.append(Item("list", name, [Param("str", k, v) if v is not None else Param("flag", k) for k, v in params.items()]))
        else:
            items.append(Item("path", name))
    if split <= 1:
        return [EAttr("et", items=items)]
    chunks = [items[i::split] for i in range(split)]
    return [EAttr("et", items=c) for c in chunks if c]


def config(kind: str, gapless: bool, rng: Optional[random.Random] = None) -> List[Tuple[str, dict]]:
    base = ["into", "MAX", "MIN", "next", "next_back", "try_from", "Debug", "Display", "Into", "IntoStr", "TryFrom", "names"]
    f = [(x, {}) for x in base]
    if kind == "match":
        f += [("as_str", {"mode": "match"}), ("from_str", {"mode": "match"}), ("FromStr", {"mode": "match"}),
              ("iter", {"mode": "next_and_back"}), ("range", {})]
    elif kind == "table":
        f += [("as_str", {"mode": "table"}), ("from_str", {"mode": "table"}), ("FromStr", {"mode": "table"}),
              ("iter", {"mode": "table"}), ("range", {})]
    elif kind == "auto":
        f += [("as_str", {}), ("from_str", {}), ("FromStr", {}), ("iter", {}), ("range", {})]
    elif kind == "alt":
        f += [("as_str", {"mode": "table"}), ("from_str", {"mode": "match"}), ("FromStr", {"mode": "table"})]
        if gapless:
            f += [("iter", {"mode": "range"}), ("range", {})]
        else:
            f += [("iter", {"mode": "table_inline"})]
    elif kind == "inline":
        f += [("as_str", {"mode": "match"}), ("from_str", {"mode": "table"}), ("FromStr", {"mode": "match"}),
              ("iter", {"mode": "table_inline"})]
    elif kind == "subset":
        # all-auto random subset: steers what `auto` resolves to
        pick = [x for x in ALL_FEATURES if rng.random() < 0.5]
        if "range" in pick and "iter" not in pick:
            pick.append("iter")
        if not pick:
            pick = ["iter"]
        f = [(x, {}) for x in pick]
    else:
        raise ValueError(kind)
    return f


ENUM_FOREIGN = ["#[allow(dead_code)]", "/// a doc comment", "#[must_use]", "#[non_exhaustive]", "#[doc = \"name-value\"]",
                "#[cfg_attr(all(), allow(unused))]", "#[doc(hidden)]", "#[doc(alias = \"other\")]"]


def mk_subject(sid, r, entries, feats, rng, split=1, fancy=False, family="", note="", vis="pub",
               implicit_ok=True, foreign=False, implicit_p=0.5, ename="E") -> Subject:
    attrs = []
    if foreign:
        # foreign attributes of every meta shape (path, list, name-value, doc comment, tool path) around the derive's own
        attrs.append(EAttr("foreign", text="#[allow(dead_code)]"))
        attrs.append(EAttr("foreign", text="/// a doc comment"))
        for t in rng.sample(ENUM_FOREIGN[2:], 2):
            attrs.append(EAttr("foreign", text=t))
    c = cfg_attrs(feats, split)
    # repr somewhere between the enum_tools attributes
    pos = rng.randrange(len(c) + 1)
    attrs += c[:pos] + [EAttr("repr", r)] + c[pos:]
    return Subject(sid, attrs, mk_variants(rng, entries, r, implicit_ok, fancy, implicit_p), family=family, note=note, vis=vis, ename=ename)


def idents(n, prefix="V"):
    return [f"{prefix}{i}" for i in range(n)]


def runs_to_vals(runs):
    out = []
    for b, e in runs:
        out += list(range(b, e + 1))
    return out


def random_runs(rng, r, nruns, maxlen, touch_lo=False, touch_hi=False, span=None):
    """nruns disjoint non-adjacent runs inside the repr (and i64)"""
    lo = max(repr_lo(r), -(1 << 63))
    hi = min(repr_hi(r), (1 << 63) - 1)
    if span is not None:
        c = rng.choice([0, lo + span, hi - span, (lo + hi) // 2]) if not (touch_lo or touch_hi) else 0
        wlo, whi = max(lo, c - span), min(hi, c + span)
    else:
        wlo, whi = lo, hi
    for _ in range(200):
        runs = []
        ok = True
        starts = sorted(rng.randint(wlo, whi) for _ in range(nruns))
        for i, s in enumerate(starts):
            ln = rng.randint(1, maxlen)
            e = s + ln - 1
            if e > hi:
                e = hi
            runs.append([s, e])
        if touch_lo:
            ln = runs[0][1] - runs[0][0]
            runs[0] = [lo, lo + ln]
        if touch_hi:
            ln = runs[-1][1] - runs[-1][0]
            runs[-1] = [hi - ln, hi]
        for i in range(len(runs)):
            if runs[i][0] > runs[i][1]:
                ok = False
            if i > 0 and runs[i][0] <= runs[i - 1][1] + 1:
                ok = False
        if ok:
            return [tuple(x) for x in runs]
    # fallback: spaced singletons
    return [(wlo + 3 * i, wlo + 3 * i) for i in range(nruns)]


ODD_NAMES = ["", " ", "a b", 'q"uote', "back\\slash", "{brace}", "{}", "{0}", "ünï", "日本", "A", "a", "tab\there",
             "new\nline", "'", "\\n", "r#x", "null\0byte", "🦀", "Self", "None", "x" * 40]


def entries_for(rng, vals, rename_p=0.0, dup_names=False, shuffle=True):
    ids = idents(len(vals))
    ents = []
    for i, d in enumerate(vals):
        ren = None
        if rng.random() < rename_p:
            ren = rng.choice(ODD_NAMES)
        ents.append((d, ids[i], ren))
    if dup_names and len(ents) >= 2:
        # several variants share a name; one rename equals another variant's identifier
        a, b = rng.sample(range(len(ents)), 2)
        ents[a] = (ents[a][0], ents[a][1], "dup")
        ents[b] = (ents[b][0], ents[b][1], "dup")
        if len(ents) >= 3:
            c = rng.choice([i for i in range(len(ents)) if i not in (a, b)])
            ents[c] = (ents[c][0], ents[c][1], ents[a][1])
    if shuffle:
        rng.shuffle(ents)
    return ents


# ------------------------------------------------------------------ operations

def boundary_values(sd, r, rng, extra=6):
    lo, hi = repr_lo(r), repr_hi(r)
    vals = [d for d, _, _ in sd]
    s = {lo, hi, lo + 1, hi - 1, 0, 1, -1, vals[0] - 1, vals[-1] + 1}
    prev = None
    for d in vals:
        if prev is None or d != prev + 1:
            s.update([d - 1, d, d + 1])
            if prev is not None:
                s.update([prev - 1, prev, prev + 1])
        prev = d
    s.update([vals[-1] - 1, vals[-1]])
    # truncation aliases: values congruent to a discriminant modulo a narrower width
    for d in (vals[0], vals[-1], vals[len(vals) // 2]):
        for w in (8, 16, 32, 64):
            s.update([d + (1 << w), d - (1 << w), d + (1 << (w - 1)), d ^ (1 << w) if d >= 0 else d - (1 << w)])
    for _ in range(extra):
        s.add(rng.randint(lo, hi))
        s.add(rng.choice(vals) + rng.randint(-3, 3))
    return sorted(v for v in s if lo <= v <= hi)


def iter_scripts(n, rng, count, splits_upto=5, ord_items=False):
    """operation scripts for an iterator with n items"""
    fins = ["fold", "rfold", "last", "count", "collect", "rev"] + (["min", "max"] if ord_items else [])
    out = []
    if n <= splits_upto:
        for k in range(n + 2):
            for m in range(n + 2 - k):
                out.append(["n"] * k + ["b"] * m + ["l", "h", ";", rng.choice(fins)])
    # fusedness: run past the end from either side, then keep asking
    out.append(["n"] * (min(n, 40) + 1) + ["n", "b", "n", "l", "h"])
    out.append(["b"] * (min(n, 40) + 1) + ["b", "n", "b", "l"])
    out.append([f"t{n}", "n", "b", "l"])
    out.append([f"u{n}", "b", "n", "h"])
    for fin in fins:
        out.append([";", fin])
    # arguments of nth / nth_back that only differ from small ones above 2^8, 2^16, 2^32: a narrowed counter shows
    for w in (8, 16, 32):
        k = (1 << w) + rng.choice([0, 1, 2])
        out.append([f"t{k}", "n", "l"] if rng.random() < 0.5 else [f"u{k}", "b", "l"])
    for _ in range(count):
        rem = n
        ops = []
        for _ in range(rng.randint(0, 12)):
            c = rng.random()
            if c < 0.25:
                ops.append("n"); rem = max(0, rem - 1)
            elif c < 0.5:
                ops.append("b"); rem = max(0, rem - 1)
            elif c < 0.7:
                k = rng.choice([0, 1, max(0, rem - 1), rem, rem + 1, BIG, rng.randint(0, rem + 1)])
                ops.append(f"t{k}"); rem = max(0, rem - k - 1)
            elif c < 0.9:
                k = rng.choice([0, 1, max(0, rem - 1), rem, rem + 1, BIG, rng.randint(0, rem + 1)])
                ops.append(f"u{k}"); rem = max(0, rem - k - 1)
            elif c < 0.95:
                ops.append("l")
            else:
                ops.append("h")
        if rng.random() < 0.8:
            ops += [";", rng.choice(fins)]
        else:
            ops += ["n", "b", "n"]
        out.append(ops)
    return out


def edits(name: str, rng, limit=8):
    out = set()
    alphabet = "aZ _0é"
    if name:
        for i in range(len(name)):
            out.add(name[:i] + name[i + 1:])
            out.add(name[:i] + rng.choice(alphabet) + name[i + 1:])
            out.add(name[:i] + name[i].swapcase() + name[i + 1:])
    for i in range(len(name) + 1):
        out.add(name[:i] + rng.choice(alphabet) + name[i:])
    out.update([" " + name, name + " ", name + "\n", name.upper(), name.lower(), name + name])
    out.discard(name)
    out = sorted(out)
    rng.shuffle(out)
    return out[:limit]


class OpGen:
    def __init__(self, s: Subject, rng, tier):
        self.s, self.rng, self.tier = s, rng, tier
        self.n = 0
        self.lines: List[str] = []

    def op(self, *toks):
        self.n += 1
        self.lines.append("OP %d %s" % (self.n, " ".join(str(t) for t in toks)))

    def generate_tiny(self):
        """a few operations at chosen ranks of an enum with tens of thousands of variants: first, last, middle and around 2^15.
        No consuming iterator operation (the compiled model answers one of those in time linear in the enum, per item)."""
        s = self.s
        feats = s.features()
        vals = [d for d, _, _ in s.sorted_discs()]
        n = len(vals)
        ranks = sorted(k for k in {0, 1, 2, n // 2 - 1, n // 2, 32766, 32767, 32768, 32769, 32770, n - 2, n - 1} if 0 <= k < n)
        sel = [vals[k] for k in ranks]
        self.op("tables")
        lo, hi = repr_lo(s.repr), repr_hi(s.repr)
        for k in ("tf", "tt"):
            if {"tf": "try_from", "tt": "TryFrom"}[k] in feats:
                for v in sorted({x for v in sel for x in (v - 1, v, v + 1) if lo <= x <= hi}):
                    self.op(k, v)
        for k, f in (("into", "into"), ("Into", "Into"), ("next", "next"), ("nb", "next_back"), ("as", "as_str"),
                     ("disp", "Display"), ("dbg", "Debug"), ("istr", "IntoStr")):
            if f in feats:
                for v in sel:
                    self.op(k, v)
        if "MIN" in feats:
            self.op("min")
        if "MAX" in feats:
            self.op("max")
        if "iter" in feats:
            self.op("iter", "l", "h", "n", "b", "l")
        if "range" in feats:
            for a, b in ((0, n - 1), (n - 1, 0), (32766, min(n - 1, 32770)), (n // 2, n - 1), (1, 32768)):
                if a < n and b < n:
                    self.op("range", vals[a], vals[b], "l", "h", "n", "b", "l")
        return self.lines

    def generate(self, exhaustive_values=False, iter_count=None, pairs_limit=None, str_limit=None, tiny=False):
        if tiny:
            return self.generate_tiny()
        s, rng = self.s, self.rng
        r = s.repr
        feats = s.features()
        sd = s.sorted_discs()
        vals = [d for d, _, _ in sd]
        names = [nm for _, _, nm in sd]
        thorough = self.tier == "thorough"
        iter_count = iter_count if iter_count is not None else (30 if thorough else 8)
        self.op("tables")
        # try_from / TryFrom
        bits = REPRS[r][1]
        if bits == 8 or (exhaustive_values and bits == 16):
            tvals = list(range(repr_lo(r), repr_hi(r) + 1))
        else:
            tvals = boundary_values(sd, r, rng, 20 if thorough else 6)
        for k in ("tf", "tt"):
            if {"tf": "try_from", "tt": "TryFrom"}[k] in feats:
                for v in tvals:
                    self.op(k, v)
        bnd = boundary_in(vals)
        if len(bnd) > 400:
            # tens of thousands of runs: a sample of the run ends, always with the outermost ones and the middle of the value order
            bnd = sorted(set(rng.sample(bnd, 300) + bnd[:4] + bnd[-4:] + bnd[len(bnd) // 2 - 2: len(bnd) // 2 + 2]))
        vsel = vals if len(vals) <= (2000 if thorough else 300) else sorted(set(rng.sample(vals, 200) + bnd))
        for k, f in (("into", "into"), ("Into", "Into"), ("next", "next"), ("nb", "next_back"), ("as", "as_str"),
                     ("disp", "Display"), ("dbg", "Debug"), ("istr", "IntoStr")):
            if f in feats:
                for v in vsel:
                    self.op(k, v)
        if "MIN" in feats:
            self.op("min")
        if "MAX" in feats:
            self.op("max")
        # from_str / FromStr
        strs = []
        seen = set()
        lim = str_limit if str_limit is not None else (12 if thorough else 5)
        nsel = names if len(names) <= 300 else rng.sample(names, 200)
        for nm in nsel:
            for x in [nm] + (edits(nm, rng, lim) if len(names) <= 60 else []):
                if x not in seen:
                    seen.add(x); strs.append(x)
        for _, ident, nm in sd[:300]:
            if ident != nm and ident not in seen:
                seen.add(ident); strs.append(ident)
        for x in ["", " ", "V", "v0", "dup", "\0"]:
            if x not in seen:
                seen.add(x); strs.append(x)
        for k, f in (("fs", "from_str"), ("ft", "FromStr")):
            if f in feats:
                for x in strs:
                    self.op(k, hexname(x))
        # iterators
        ord_enum = "Ord" in self.s.derives
        if "iter" in feats:
            for sc in iter_scripts(len(vals), rng, iter_count, ord_items=ord_enum):
                self.op("iter", *sc)
        if "names" in feats:
            for sc in iter_scripts(len(vals), rng, max(2, iter_count // 2), splits_upto=3, ord_items=True):
                self.op("names", *sc)
        if "range" in feats:
            plim = pairs_limit if pairs_limit is not None else (9 if thorough else 6)
            if len(vals) <= plim:
                pairs = [(a, b) for a in vals for b in vals]
            else:
                bs = boundary_in(vals)
                if len(bs) > 400:
                    bs = sorted(set(rng.sample(bs, 40) + bs[:2] + bs[-2:]))
                pairs = {(vals[0], vals[-1]), (vals[-1], vals[0]), (vals[0], vals[0]), (vals[-1], vals[-1])}
                for a in bs:
                    for b in rng.sample(bs, min(len(bs), 4)):
                        pairs.add((a, b))
                for _ in range(30 if thorough else 10):
                    pairs.add((rng.choice(vals), rng.choice(vals)))
                pairs = sorted(pairs)
            for (a, b) in pairs:
                cnt = len([v for v in vals if a <= v <= b])
                scs = [[";", "collect"], ["l", "h", ";", "rev"]] + ([[";", "min"], ["n", ";", "max"]] if ord_enum and cnt <= 6 else [])
                scs += iter_scripts(cnt, rng, 1 if not thorough else 3, splits_upto=0)[-(1 if not thorough else 3):]
                if cnt <= 3:
                    scs += iter_scripts(cnt, rng, 0, splits_upto=3)[:6]
                for sc in scs:
                    self.op("range", a, b, *sc)
        return self.lines


def boundary_in(vals):
    out = {vals[0], vals[-1]}
    prev = None
    for d in vals:
        if prev is not None and d != prev + 1:
            out.update([prev, d])
        prev = d
    if len(vals) > 2:
        out.add(vals[1]); out.add(vals[-2])
    return sorted(out)


# ------------------------------------------------------------------ families

class Corpus:
    def __init__(self, seed: int, tier: str):
        self.rng = random.Random(seed)
        self.rng_salt = seed
        self.tier = tier
        self.subjects: List[Subject] = []
        self.ops = {}          # sid -> list of OP lines
        self.groups = {}       # group key -> [sid]  (same declaration, different config / repr / order)
        self._k = 0

    def sid(self, fam):
        self._k += 1
        return f"{fam}{self._k}"

    def add(self, s: Subject, group=None, **opkw):
        # about a third of the enums also derive the comparison traits, so that `min()` / `max()` can be called on their iterators
        import zlib
        if s.kind == "enum" and zlib.crc32(s.sid.encode()) % 3 == 0 and "Ord" not in s.derives:
            s.derives += ", PartialEq, Eq, PartialOrd, Ord"
        self.subjects.append(s)
        self.ops[s.sid] = OpGen(s, self.rng, self.tier).generate(**opkw)
        if group is not None:
            self.groups.setdefault(group, []).append(s.sid)

    def add_decl(self, fam, r, vals, kinds, rename_p=0.0, dup_names=False, fancy=False, note="", foreign=False,
                 implicit_p=0.5, shuffle=True, ids=None, ename="E", **opkw):
        rng = self.rng
        gapless = all(vals[i] + 1 == vals[i + 1] for i in range(len(vals) - 1))
        ents = entries_for(rng, vals, rename_p, dup_names, shuffle=shuffle)
        if ids is not None:
            ents = [(d, ids[i], ren) for i, (d, _, ren) in enumerate(ents)]
        gkey = f"{fam}:{self._k}:{r}"
        for kind in kinds:
            if kind == "alt" and False:
                continue
            feats = config(kind, gapless, rng)
            split = rng.choice([1, 1, 2, 3])
            s = mk_subject(self.sid(fam), r, ents, feats, rng, split=split, fancy=fancy, family=fam,
                           note=f"{note} cfg={kind}", foreign=foreign, implicit_p=implicit_p, ename=ename)
            self.add(s, group=gkey, **opkw)

    # --- regression witnesses of recorded defects and past failures
    def fam_regressions(self):
        # D1: negative start in a later run; D3: first run at type MIN; table modes
        # degenerate sizes: code paths that special-case "nothing before / nothing after"
        self.add_decl("R", "u8", [7], ["match", "table", "auto"], note="single variant")
        self.add_decl("R", "i8", [-128], ["table", "match"], note="single variant at type MIN")
        self.add_decl("R", "u8", [255], ["table", "auto"], note="single variant at type MAX")
        self.add_decl("R", "i16", [0, 1], ["match", "table"], note="two variants gapless")
        self.add_decl("R", "u8", [0, 200], ["match", "table"], note="two variants two runs")
        self.add_decl("R", "i8", [-10, -5, -4, 3], ["table", "match"], note="D1 negative later run")
        self.add_decl("R", "i8", [-128, -127, -5, 100], ["table", "match"], note="D3 first run at type MIN")
        self.add_decl("R", "i64", [-(1 << 63), -5, -4, (1 << 63) - 1], ["table", "match"], note="i64 limits")
        self.add_decl("R", "i8", [0, 1, 2, 3], ["table", "match"], note="D2 gapless table range a>b")
        self.add_decl("R", "i8", [0, 1, 2, 9], ["table", "match"], note="D2 holes table range a>b")
        self.add_decl("R", "i16", [-300, -299, -2, -1, 0, 5], ["table", "auto"], note="negative runs i16")
        # discriminants further apart than 2^63 / 2^31 / 2^15: any comparison by subtraction or narrowing goes wrong
        rng = self.rng
        for r in ("i64", "i128", "isize"):
            wide = sorted({rng.randint(-(1 << 63), (1 << 63) - 1) for _ in range(14)} | {-(1 << 63) + 1, (1 << 63) - 2, -1, 0})
            self.add_decl("R", r, wide, ["table", "match"], note="wide spread over i64")
        # the same spans under all-auto configurations (what `auto` picks depends on sizes; the heuristics must not overflow)
        self.add_decl("R", "i64", [-(1 << 63), 0, (1 << 63) - 1], ["auto", "subset"], note="i64 extremes, auto")
        self.add_decl("R", "i128", [-(1 << 62), 0, 1 << 62], ["auto", "subset"], note="span 2^63 in i128, auto")
        self.add_decl("R", "isize", [-(1 << 63), (1 << 63) - 1], ["auto", "subset"], note="two variants at the isize limits, auto")
        self.add_decl("R", "i64", [-2, (1 << 63) - 1], ["auto", "table"], note="neighbours 2^63 apart")
        # discriminants congruent modulo a narrower width: a sort key narrowed by a cast ties them
        self.add_decl("R", "i64", [k * (1 << 32) + 0x10 for k in range(-3, 4)], ["table", "match"], note="congruent mod 2^32")
        self.add_decl("R", "i32", [k * (1 << 16) + 7 for k in range(-4, 5)], ["table", "auto"], note="congruent mod 2^16")
        self.add_decl("R", "i16", [k * (1 << 8) + 3 for k in range(-5, 6)], ["match", "table"], note="congruent mod 2^8")
        self.add_decl("R", "u64", sorted({rng.randint(0, (1 << 63) - 1) for _ in range(14)} | {0, (1 << 63) - 1}), ["auto", "table"],
                      note="wide spread u64")
        self.add_decl("R", "i32", sorted({rng.randint(-(1 << 31), (1 << 31) - 1) for _ in range(14)} | {-(1 << 31), (1 << 31) - 1}),
                      ["table", "match"], note="wide spread i32")

    # --- exhaustive small scope: every non-empty subset of a window at the ends of i8/u8 and around 0
    def fam_small_scope(self):
        w = 6 if self.tier == "thorough" else 4
        places = [("i8", -128), ("i8", 127 - w + 1), ("i8", -(w // 2)), ("u8", 0), ("u8", 255 - w + 1)]
        for r, base in places:
            for mask in range(1, 1 << w):
                vals = [base + i for i in range(w) if mask >> i & 1]
                self.add_decl("X", r, vals, ["table", "match"], note=f"window {r}@{base} mask={mask}",
                              iter_count=2, str_limit=1, pairs_limit=4)

    # --- random enums over all reprs
    def fam_general(self):
        rng = self.rng
        per = 5 if self.tier == "thorough" else 2
        kinds_cycle = [["table", "match"], ["auto", "alt"], ["match", "inline"], ["table", "auto"]]
        i = 0
        for r in REPRS:
            for j in range(per):
                nruns = rng.choice([1, 1, 2, 3, 5, 8])
                maxlen = rng.choice([1, 2, 4, 10])
                touch_lo = rng.random() < 0.3
                touch_hi = rng.random() < 0.3
                span = rng.choice([None, 40, 300]) if REPRS[r][1] > 8 else None
                runs = random_runs(rng, r, nruns, maxlen, touch_lo, touch_hi, span)
                vals = runs_to_vals(runs)
                self.add_decl("G", r, vals, kinds_cycle[i % len(kinds_cycle)], rename_p=rng.choice([0, 0, 0.3]),
                              fancy=(j % 2 == 1), foreign=(j % 2 == 0),
                              note=f"runs={len(runs)} lo={touch_lo} hi={touch_hi}")
                i += 1

    # --- names: odd renames, duplicates
    def fam_names(self):
        rng = self.rng
        for r, vals in (("u8", list(range(0, len(ODD_NAMES)))), ("i16", [-7, -6, -5, 0, 1, 9, 10, 11, 400]),
                        ("u32", [5, 6, 7, 8])):
            ents_kinds = ["table", "match", "auto"]
            self.add_decl("N", r, vals, ents_kinds, rename_p=0.9, note="odd renames", str_limit=6)
            self.add_decl("N", r, vals, ents_kinds, rename_p=0.3, dup_names=True, note="duplicate names", str_limit=6)

    # --- big enums: index arithmetic through the unsigned companion
    def fam_big(self):
        rng = self.rng
        self.add_decl("B", "u8", list(range(0, 256)), ["table", "auto"], note="u8 full", iter_count=3, str_limit=0)
        self.add_decl("B", "i8", [v for v in range(-128, 128) if v != 3], ["table", "match"], note="i8 255 one hole",
                      iter_count=3, str_limit=0)
        self.add_decl("B", "i8", list(range(-128, 128)), ["table", "alt", "match"], note="i8 full gapless", iter_count=3, str_limit=0)
        self.add_decl("B", "i8", list(range(-100, 50)), ["match", "table"], note="i8 150 gapless negative min", iter_count=3, str_limit=0)
        self.add_decl("B", "i16", list(range(-32768, -32768 + 300)), ["match", "table"], note="i16 300 gapless at type MIN", iter_count=3, str_limit=0)
        self.add_decl("B", "i16", list(range(-200, 100)) + list(range(1000, 1100)), ["table", "match"],
                      note="i16 400 variants 2 runs", iter_count=3, str_limit=0)
        self.add_decl("B", "u16", list(range(65000, 65536)), ["table", "auto"], note="u16 top 536", iter_count=3, str_limit=0)
        if self.tier == "thorough":
            # (rustc needs ~45 min for a 65k-variant enum with every feature derived; these sizes keep the tier in minutes)
            self.add_decl("B", "i32", list(range(-4000, -1000)) + list(range(5, 1500)), ["table"], note="i32 4.5k variants 2 runs",
                          iter_count=2, str_limit=0)
            self.add_decl("B", "u16", list(range(30000, 36000)), ["table"], note="u16 6000 variants across 0x8000", iter_count=1, str_limit=0)
            # more than 2^15 variants / runs: positions, run counts and lengths beyond i16::MAX.  Features chosen so that rustc stays
            # in seconds (no `[E; N]` table, no 33000-arm match); a handful of operations at chosen ranks only -- the compiled model's
            # association lists answer a consuming iterator operation on such an enum in minutes, a full script set in about an hour
            light = [("into", {}), ("as_str", {"mode": "table"}), ("Display", {}), ("MIN", {}), ("MAX", {}), ("next", {}), ("next_back", {}),
                     ("try_from", {}), ("iter", {"mode": "next_and_back"}), ("range", {})]
            for r, vals, note in (("i16", list(range(-16500, 16500)), "i16 33000 gapless"),
                                  ("u32", [2 * k for k in range(33000)], "u32 33000 runs of one"),
                                  ("i32", [3 * k - 50000 for k in range(16000)] + list(range(100000, 117000)), "i32 16000 runs then a run of 17000")):
                ents = [(d, f"V{i}", None) for i, d in enumerate(vals)]
                sub = mk_subject(self.sid("B"), r, ents, light, rng, family="B", note=note + " cfg=light", implicit_ok=False)
                self.add(sub, tiny=True)

    # --- metamorphic: same value->name map under every admissible repr and several orders (C18)
    def fam_metamorphic(self):
        rng = self.rng
        sets = [[0, 1, 2, 50, 51, 100], [-3, -2, 5, 6, 7, 20, 127], [7], [1, 2, 3, 4, 5]]
        if self.tier == "thorough":
            sets += [[-100, -99, 0, 1, 100], [0, 255], [-128, 0, 127]]
        for vi, vals in enumerate(sets):
            names = {d: (None if rng.random() < 0.6 else f"n{d}".replace("-", "m")) for d in vals}
            gkey = f"M:{vi}"
            for r in REPRS:
                if not (repr_lo(r) <= vals[0] and vals[-1] <= repr_hi(r)):
                    continue
                nperm = 3 if self.tier == "thorough" else 2
                for p in range(nperm):
                    ents = [(d, f"V{i}", names[d]) for i, d in enumerate(vals)]
                    if p > 0:
                        rng.shuffle(ents)
                    gapless = all(vals[i] + 1 == vals[i + 1] for i in range(len(vals) - 1))
                    kind = ["table", "match", "auto"][(p + len(r)) % 3]
                    s = mk_subject(self.sid("M"), r, ents, config(kind, gapless, rng), rng, family="M",
                                   note=f"set{vi} {r} perm{p} cfg={kind}", implicit_ok=False)
                    self.add(s, group=gkey, iter_count=4, str_limit=2)

    # --- auto steering: random feature subsets, all modes auto
    def fam_auto(self):
        rng = self.rng
        n = 40 if self.tier == "thorough" else 12
        for i in range(n):
            r = rng.choice(list(REPRS))
            small = rng.random() < 0.6
            nruns = rng.choice([1, 2, 2, 3])
            runs = random_runs(rng, r, nruns, 2 if small else 6, span=30 if REPRS[r][1] > 8 else None)
            vals = runs_to_vals(runs)
            self.add_decl("A", r, vals, ["subset", "subset"], note="auto subset", iter_count=4, str_limit=2)

    # --- custom names / visibilities / struct names: glue calls the items under the requested names,
    #     the structural correspondence checks the emitted visibilities
    def fam_named(self):
        rng = self.rng
        n = 24 if self.tier == "thorough" else 8
        nameable = ["as_str", "from_str", "into", "MAX", "MIN", "next", "next_back", "try_from", "iter", "names", "range"]
        for i in range(n):
            r = rng.choice(["i8", "u8", "i16", "u32", "i64", "usize"])
            runs = random_runs(rng, r, rng.choice([1, 2, 3]), 3, span=40 if REPRS[r][1] > 8 else None)
            vals = runs_to_vals(runs)
            gapless = len(runs) == 1
            kind = rng.choice(["match", "table", "auto"])
            feats = []
            for f, params in config(kind, gapless, rng):
                params = dict(params)
                if f in nameable:
                    if rng.random() < 0.6:
                        params["name"] = ("K_" + f.upper()) if f in ("MIN", "MAX") else f"my_{f}_{i}"
                        if i % 4 == 1:
                            # identifiers need not be ASCII
                            params["name"] = ("GRÖSSTE_" + f.upper()) if f in ("MIN", "MAX") else f"mein_{f}_ä{i}"
                        elif i % 4 == 3:
                            # nor letters and digits only: combining marks (Devanagari virama) and connector punctuation continue an identifier
                            params["name"] = ("क्रम_" + f.upper()) if f in ("MIN", "MAX") else f"क्रम‿{f}_{i}"
                    if rng.random() < 0.6:
                        params["vis"] = rng.choice(["", "pub(crate)", "pub"])
                    if f in ("iter", "names") and rng.random() < 0.6:
                        params["struct_name"] = (f"My{f.capitalize()}{i}" if i % 4 not in (1, 3) else
                                                 f"Zähler{f.capitalize()}{i}" if i % 4 == 1 else f"क्रम{f.capitalize()}{i}")
                feats.append((f, params))
            ents = entries_for(rng, vals, rename_p=0.2)
            evis = ["pub", "pub(crate)", "pub", ""][i % 4] if i >= 4 else rng.choice(["pub", "pub(crate)", "pub"])
            if evis == "":
                # a private enum: functions, constants and the names struct may still be asked to be wider; an iterator struct
                # wider than its item type is rustc's E0446
                feats = [(f, {k: v for k, v in params.items() if not (f == "iter" and k == "vis")}) for f, params in feats]
                if not any(f == "names" and params.get("vis") for f, params in feats):
                    feats = [(f, dict(params, vis="pub(crate)") if f == "names" else params) for f, params in feats]
            elif evis != "pub":
                # an item more visible than its enum is rustc's E0446, not the derive's business
                feats = [(f, {k: ("pub(crate)" if k == "vis" and v == "pub" else v) for k, v in params.items()}) for f, params in feats]
            s = mk_subject(self.sid("V"), r, ents, feats, rng, split=rng.choice([1, 2]), family="V",
                           note=f"custom names/vis cfg={kind}", vis=evis)
            self.add(s, iter_count=3, str_limit=2)

    # --- sorted(value) / sorted(name) on declarations that are sorted: everything must still work
    def fam_sorted(self):
        rng = self.rng
        n = 12 if self.tier == "thorough" else 5
        for i in range(n):
            r = rng.choice(["i8", "u16", "i32", "i64", "u8"])
            runs = random_runs(rng, r, rng.choice([1, 2, 4]), 4, span=60 if REPRS[r][1] > 8 else None)
            vals = runs_to_vals(runs)
            gapless = len(runs) == 1
            kind = ["table", "match", "auto"][i % 3]
            which = [["value"], ["name"], ["name", "value"]][i % 3]
            ids = sorted(f"V{j:03d}" for j in range(len(vals)))
            ents = [(d, ids[j], None) for j, d in enumerate(vals)]       # ascending by value and by name
            feats = config(kind, gapless, rng) + [("sorted", {w: None for w in which})]
            s = mk_subject(self.sid("S"), r, ents, feats, rng, split=rng.choice([1, 2]), family="S", note=f"sorted({','.join(which)}) cfg={kind}")
            self.add(s, iter_count=3, str_limit=1)
        # sorted(name) alone says nothing about the discriminants, sorted(value) alone nothing about the names
        for i in range(2 * n):
            r = rng.choice(["i8", "u16", "i32", "i64", "u8"])
            runs = random_runs(rng, r, rng.choice([1, 2, 3]), 4, span=60 if REPRS[r][1] > 8 else None)
            vals = runs_to_vals(runs)
            if len(vals) < 3:
                continue
            gapless = len(runs) == 1
            kind = ["table", "match", "auto"][i % 3]
            if i % 2 == 0:
                # names ascending in declaration order, discriminants shuffled
                perm = vals[:]
                while perm == vals:
                    rng.shuffle(perm)
                ids = sorted(f"N{j:03d}" for j in range(len(vals)))
                ents = [(perm[j], ids[j], None) for j in range(len(vals))]
                which = ["name"]
            else:
                # discriminants ascending, names (renames) shuffled
                ids = [f"W{j:03d}" for j in range(len(vals))]
                rn = [f"r{j:03d}" for j in range(len(vals))]
                rng.shuffle(rn)
                ents = [(vals[j], ids[j], rn[j]) for j in range(len(vals))]
                which = ["value"]
            feats = config(kind, gapless, rng) + [("sorted", {w: None for w in which})]
            s = mk_subject(self.sid("S"), r, ents, feats, rng, split=rng.choice([1, 2]), family="S", implicit_ok=False,
                           note=f"sorted({which[0]}) only, other order free cfg={kind}")
            self.add(s, iter_count=3, str_limit=1)


    # --- sizes, spans and positions at powers of two: where a count, a span or an index stops fitting a narrower type
    def fam_pow2(self):
        rng = self.rng
        small = dict(iter_count=2, str_limit=0)
        # exactly 2^8 variants (and one less / one more) in reprs wider than 8 bits, and in the 8-bit reprs with every iterator mode
        self.add_decl("P", "u16", list(range(100, 356)), ["table", "match"], note="256 gapless in u16", **small)
        self.add_decl("P", "i16", list(range(-128, 128)), ["match", "auto"], note="256 gapless in i16", **small)
        self.add_decl("P", "i32", list(range(-256, 0)), ["table", "alt"], note="256 gapless in i32", **small)
        self.add_decl("P", "u16", list(range(0, 255)), ["table", "match"], note="255 gapless in u16", **small)
        self.add_decl("P", "u16", list(range(1, 258)), ["match", "table"], note="257 gapless in u16", **small)
        self.add_decl("P", "u8", list(range(0, 256)), ["match", "alt"], note="u8 full, explicit modes", **small)
        # with holes, a run of 129+ before later runs (signed 8-bit: position and run length pass 127)
        self.add_decl("P", "i8", list(range(-100, 51)) + list(range(52, 71)), ["table", "match", "auto"], note="i8 run of 151 then 19", **small)
        self.add_decl("P", "i8", list(range(-128, 2)) + list(range(10, 80)), ["table", "auto"], note="i8 run of 130 then 70", **small)
        self.add_decl("P", "u8", list(range(0, 130)) + list(range(140, 210)), ["table", "match"], note="u8 run of 130 then 70", **small)
        # with holes, MAX - MIN exactly 2^k (and 2^k +- 1), last run of two
        for r, k in (("u8", 5), ("u8", 6), ("i8", 6), ("u16", 6), ("i64", 6), ("u8", 7), ("u16", 8), ("i32", 16), ("u64", 6)):
            for d in (-1, 0, 1):
                span = (1 << k) + d
                base = rng.choice([0, repr_lo(r), rng.randint(repr_lo(r) // 2 if repr_lo(r) < 0 else 0, 50)])
                if base + span > repr_hi(r):
                    base = repr_hi(r) - span
                vals = sorted({base, base + 1, base + span // 2, base + span - 1, base + span})
                self.add_decl("P", r, vals, [["table", "match"], ["match", "auto"], ["auto", "table"]][d + 1],
                              note=f"span 2^{k}{d:+d} with holes", iter_count=2, str_limit=1)
        # MAX - MIN congruent to (count - 1) modulo 2^w: a span narrowed to w bits says "gapless"
        for r, w in (("i64", 32), ("u64", 32), ("i128", 32), ("isize", 32), ("usize", 32), ("i32", 16), ("u32", 16), ("i64", 16),
                     ("i16", 8), ("u16", 8), ("i64", 8), ("u128", 32)):
            for kk in (1, 3):
                b = rng.choice([0, 7, -1, -5]) if repr_lo(r) < 0 else rng.choice([0, 7])
                vals = [b, b + 1, b + kk * (1 << w) + 2]
                if vals[-1] > min(repr_hi(r), (1 << 63) - 1):
                    continue
                self.add_decl("P", r, vals, ["table", "match"] if kk == 1 else ["auto", "subset"],
                              note=f"span = count-1 mod 2^{w}", iter_count=2, str_limit=1)
            if repr_lo(r) < 0:
                self.add_decl("P", r, [-1, 1 << w], ["auto", "match"], note=f"two variants, span 2^{w}+1", iter_count=2, str_limit=1)
        # usize / isize around 2^32, 2^31 and 2^16: the derive can only guess the pointer width
        for r, vals in (("usize", [(1 << 32) - 3, (1 << 32) - 2, (1 << 32) - 1]),
                        ("usize", [(1 << 32) - 2, (1 << 32) - 1, 1 << 32, (1 << 32) + 1]),
                        ("usize", [5, (1 << 32) - 2, (1 << 32) - 1, 1 << 32]),
                        ("usize", [65534, 65535, 65536]),
                        ("isize", [(1 << 31) - 3, (1 << 31) - 2, (1 << 31) - 1]),
                        ("isize", [(1 << 31) - 2, (1 << 31) - 1, 1 << 31, (1 << 31) + 1]),
                        ("isize", [-(1 << 31), -(1 << 31) + 1, -(1 << 31) + 2]),
                        ("isize", [-(1 << 31) - 2, -(1 << 31) - 1, -(1 << 31), 7]),
                        ("isize", [-(1 << 63), -(1 << 63) + 1]), ("usize", [(1 << 63) - 2, (1 << 63) - 1]),
                        ("usize", [3, 9]), ("isize", [-1, 5]), ("usize", [1, 2, 9]), ("isize", [-7, 0, 1, 30])):
            self.add_decl("P", r, vals, ["table", "match", "auto"], note="pointer-width guesses", shuffle=False, implicit_p=1.0,
                          iter_count=2, str_limit=1)
        # the same neighbourhoods written in hexadecimal / octal / binary, every discriminant explicit: a literal at or above 2^31 is a
        # plain positive number in a 64-bit isize, whatever width the derive guesses
        for r, vals in (("isize", [(1 << 31) - 1, 1 << 31, (1 << 32) - 1, 1 << 32]), ("isize", [0x7FFF, 0x8000, 0xFFFF, 0x10000]),
                        ("usize", [(1 << 31) - 1, 1 << 31, (1 << 32) - 1, 1 << 32]), ("i64", [(1 << 31), (1 << 32) - 1, (1 << 62), (1 << 63) - 1]),
                        ("i16", [0x7F, 0x80, 0xFF, 0x100, 0x7FFF]), ("i32", [0x7FFF, 0x8000, 0xFFFF, 0x7FFF_FFFF]), ("i128", [(1 << 62), (1 << 63) - 1])):
            self.add_decl("P", r, vals, ["table", "match"], note="non-decimal literals near sign bits", shuffle=False, implicit_p=0.0,
                          fancy="hex", iter_count=2, str_limit=1)
        # the same limits for the fixed-width reprs: implicit discriminants right up to the type's own MAX
        for r in ("u8", "i8", "u16", "i16", "u32", "i32", "i64"):
            hi = repr_hi(r)
            self.add_decl("P", r, [hi - 2, hi - 1, hi], ["match", "auto"], note="implicit up to the type MAX", shuffle=False,
                          implicit_p=1.0, iter_count=2, str_limit=1)

    # --- identifiers: variants and enums named like things the generated code mentions
    VARIANT_IDENTS = ["Error", "Err", "Item", "IntoIter", "Output", "Some", "None", "Ok", "Option", "Result", "Iterator", "Self_",
                      "r#type", "r#match", "r#fn", "Zähler", "B", "F", "T", "I", "R", "Default", "From", "Into", "TryFrom", "FromStr",
                      "Debug", "Display", "Copy", "Clone", "Sized", "Target", "Owned", "Iter", "Names", "IntoIterator", "Range",
                      "DoubleEndedIterator", "ExactSizeIterator", "FusedIterator", "Formatter", "Rev", "Ordering"]
    ENUM_NAMES = ["B", "F", "T", "I", "R", "Item", "Error", "Iter", "Names", "Acc", "Fold"]

    def fam_idents(self):
        rng = self.rng
        ids = list(self.VARIANT_IDENTS)
        k = 0
        while ids:
            n = min(len(ids), rng.choice([3, 4, 5, 7]))
            chunk, ids = ids[:n], ids[n:]
            r = ["u8", "i16", "i64", "usize"][k % 4]
            base = rng.choice([0, -3, 9]) if repr_lo(r) < 0 else rng.choice([0, 9])
            vals = list(range(base, base + n)) if k % 2 == 0 else [base + 2 * i + (i // 2) for i in range(n)]
            self.add_decl("I", r, vals, [["table", "auto"], ["match", "auto"], ["auto", "alt"]][k % 3], ids=chunk,
                          rename_p=0.15, note="variant identifiers", iter_count=2, str_limit=2)
            k += 1
        for j, en in enumerate(self.ENUM_NAMES):
            r = ["u8", "i8", "u16"][j % 3]
            vals = [1, 2, 3] if j % 2 == 0 else [1, 2, 9, 10, 30]
            self.add_decl("I", r, vals, [["auto", "table"], ["match", "alt"], ["auto", "inline"]][j % 3], ename=en,
                          note=f"enum named {en}", iter_count=2, str_limit=1)

    # --- every single feature and every pair of features on its own, all modes auto (what one feature needs from another)
    def fam_pairs(self):
        rng = self.rng
        fs = ALL_FEATURES
        k = 0
        for i in range(len(fs)):
            for j in range(i, len(fs)):
                pick = [fs[i]] if i == j else [fs[i], fs[j]]
                if "range" in pick and "iter" not in pick:
                    pick.append("iter")
                if self.tier != "thorough" and i != j and (i * 31 + j * 17 + self.rng_salt) % 2:
                    continue
                gapless = k % 2 == 0
                r = ["u8", "i8", "i32"][k % 3]
                vals = [4, 5, 6] if gapless else [1, 2, 7, 20, 21]
                feats = [(x, {}) for x in pick]
                if k % 4 == 3:
                    feats.reverse()
                ents = entries_for(rng, vals, rename_p=0.2)
                s = mk_subject(self.sid("Q"), r, ents, feats, rng, split=1 + (k % 2) * (len(feats) > 1), family="Q",
                               note=f"only {'+'.join(pick)}")
                self.add(s, iter_count=1, str_limit=1)
                k += 1

    def build(self):
        self.fam_sorted()
        self.fam_named()
        self.fam_regressions()
        self.fam_small_scope()
        self.fam_general()
        self.fam_names()
        self.fam_big()
        self.fam_metamorphic()
        self.fam_auto()
        self.fam_pow2()
        self.fam_idents()
        self.fam_pairs()
        return self
