"""Thorough tier: the semantics `lean/EnumToolsModel/Rust.lean` gives to Rust's integer casts, wrapping and checked
arithmetic, `RangeInclusive::contains`, indexing and slicing is compared with rustc's on a grid of boundary values for all
twelve repr types.  A difference is an error of the machinery (exit 2), never a statement about /repo."""
import os
import subprocess

import stages

TYPES = {"u8": (False, 8), "i8": (True, 8), "u16": (False, 16), "i16": (True, 16), "u32": (False, 32), "i32": (True, 32),
         "u64": (False, 64), "i64": (True, 64), "u128": (False, 128), "i128": (True, 128), "usize": (False, 64), "isize": (True, 64)}


def bounds(t):
    s, b = TYPES[t]
    return (-(1 << (b - 1)), (1 << (b - 1)) - 1) if s else (0, (1 << b) - 1)


def samples(t):
    lo, hi = bounds(t)
    vs = {lo, lo + 1, lo + 2, hi, hi - 1, hi - 2, 0, 1, 2, (lo + hi) // 2, 127, 128, 255, 256, 32767, 32768, 65535, 65536}
    if lo < 0:
        vs |= {-1, -2, -128, -129, -32768, -32769}
    return sorted(v for v in vs if lo <= v <= hi)


RUST = r'''
use std::panic::catch_unwind;
macro_rules! with_ty { ($name:expr, $m:ident, $($a:expr),*) => { match $name {
    "u8" => $m!(u8, $($a),*), "i8" => $m!(i8, $($a),*), "u16" => $m!(u16, $($a),*), "i16" => $m!(i16, $($a),*),
    "u32" => $m!(u32, $($a),*), "i32" => $m!(i32, $($a),*), "u64" => $m!(u64, $($a),*), "i64" => $m!(i64, $($a),*),
    "u128" => $m!(u128, $($a),*), "i128" => $m!(i128, $($a),*), "usize" => $m!(usize, $($a),*), "isize" => $m!(isize, $($a),*),
    _ => "?".to_string() } } }
macro_rules! cast_to { ($to:ty, $x:expr) => { ($x as $to).to_string() } }
macro_rules! cast_from { ($from:ty, $to:expr, $x:expr) => { { let v: $from = $x.parse().unwrap(); with_ty!($to, cast_to, v) } } }
macro_rules! arith { ($t:ty, $op:expr, $x:expr, $y:expr) => { { let a: $t = $x.parse().unwrap(); let b: $t = $y.parse().unwrap();
    match $op { "wadd" => a.wrapping_add(b).to_string(), "wsub" => a.wrapping_sub(b).to_string(),
        "add" => { let r = catch_unwind(move || a + b); match r { Ok(v) => v.to_string(), Err(_) => "PANIC".to_string() } }
        "sub" => { let r = catch_unwind(move || a - b); match r { Ok(v) => v.to_string(), Err(_) => "PANIC".to_string() } }
        _ => "?".to_string() } } } }
macro_rules! contains { ($t:ty, $lo:expr, $hi:expr, $x:expr) => { { let lo: $t = $lo.parse().unwrap(); let hi: $t = $hi.parse().unwrap(); let x: $t = $x.parse().unwrap();
    (lo..=hi).contains(&x).to_string() } } }
fn opt(o: Option<String>) -> String { match o { Some(s) => format!("S{}", s), None => "N".to_string() } }
fn run_iter<I: Iterator<Item = usize> + DoubleEndedIterator + ExactSizeIterator>(mut it: I, toks: &[&str]) -> String {
    let show = |x: usize| x.to_string();
    let mut out: Vec<String> = Vec::new();
    let mut i = 0;
    while i < toks.len() && toks[i] != ";" {
        let t = toks[i];
        let r = match t.as_bytes()[0] {
            b'n' => opt(it.next().map(show)),
            b'b' => opt(it.next_back().map(show)),
            b'l' => format!("L{}", it.len()),
            b'h' => { let (lo, hi) = it.size_hint(); match hi { Some(h) => format!("H{},{}", lo, h), None => format!("H{},-", lo) } }
            b't' => opt(it.nth(t[1..].parse::<usize>().unwrap()).map(show)),
            b'u' => opt(it.nth_back(t[1..].parse::<usize>().unwrap()).map(show)),
            _ => "?".to_string(),
        };
        out.push(r);
        i += 1;
    }
    if i + 1 < toks.len() {
        let list = |v: Vec<usize>| format!("[{}]", v.into_iter().map(show).collect::<Vec<_>>().join(","));
        let r = match toks[i + 1] {
            "fold" => list(it.fold(Vec::new(), |mut a, x| { a.push(x); a })),
            "rfold" => list(it.rfold(Vec::new(), |mut a, x| { a.push(x); a })),
            "last" => opt(it.last().map(show)),
            "count" => format!("C{}", it.count()),
            "collect" => list(it.collect::<Vec<_>>()),
            "rev" => list(it.rev().collect::<Vec<_>>()),
            "min" => opt(it.min().map(show)),
            "max" => opt(it.max().map(show)),
            _ => "?".to_string(),
        };
        out.push(r);
    }
    out.join(" ")
}
fn main() {
    std::panic::set_hook(Box::new(|_| {}));
    let text = std::fs::read_to_string(std::env::args().nth(1).unwrap()).unwrap();
    for line in text.lines() {
        let t: Vec<&str> = line.split_whitespace().collect();
        if t.len() < 3 || t[0] != "PRIM" { continue; }
        let r = match t[2] {
            "cast" => with_ty!(t[3], cast_from, t[4], t[5]),
            "wadd" | "wsub" | "add" | "sub" => with_ty!(t[3], arith, t[2], t[4], t[5]),
            "contains" => with_ty!(t[3], contains, t[4], t[5], t[6]),
            "slice" => { let n: usize = t[3].parse().unwrap(); let lo: usize = t[4].parse().unwrap(); let hi: usize = t[5].parse().unwrap();
                let v: Vec<usize> = (0..n).collect();
                match catch_unwind(move || v[lo..hi].to_vec()) { Ok(s) => format!("{:?}", s), Err(_) => "PANIC".to_string() } }
            "iter" => { let n: usize = t[3].parse().unwrap();
                // the three kinds of std iterator the generated structs wrap
                let a = run_iter((0..n).collect::<Vec<usize>>().into_iter(), &t[4..]);
                let v: Vec<usize> = (0..n).collect();
                let b = run_iter(v.iter().copied(), &t[4..]);
                let c = if n == 0 { a.clone() } else { run_iter((0u16..=(n as u16 - 1)).map(|x| x as usize), &t[4..]) };
                if a == b && a == c { a } else { format!("STD-ITERATORS-DISAGREE {} | {} | {}", a, b, c) } }
            "index" => { let n: usize = t[3].parse().unwrap(); let i: usize = t[4].parse().unwrap(); let v: Vec<usize> = (0..n).collect();
                match catch_unwind(move || v[i]) { Ok(s) => s.to_string(), Err(_) => "PANIC".to_string() } }
            _ => "?".to_string(),
        };
        println!("{} {}", t[1], r);
    }
}
'''


def gen_ops():
    L = []
    k = 0

    def add(*toks):
        nonlocal k
        k += 1
        L.append(f"PRIM {k} " + " ".join(str(x) for x in toks))
    for f in TYPES:
        for t in TYPES:
            for v in samples(f):
                add("cast", f, t, v)
    for t in TYPES:
        vs = samples(t)
        small = [vs[0], vs[1], vs[-2], vs[-1], 0, 1] + ([-1] if vs[0] < 0 else [])
        for a in vs:
            for b in small:
                for op in ("wadd", "wsub", "add", "sub"):
                    add(op, t, a, b)
        for lo in small:
            for hi in small:
                for x in small:
                    add("contains", t, lo, hi, x)
    for n in (0, 1, 3):
        for lo in range(0, 5):
            for hi in range(0, 5):
                add("slice", n, lo, hi)
        for i in range(0, 5):
            add("index", n, i)
    # the specification's iterator (`Cursor`) against std's own iterators: every script of up to three operations followed by
    # every consuming operation, on lists of 0, 1 and 3 items
    steps = ["n", "b", "l", "t0", "t1", "t4", "u0", "u1", "u4"]
    fins = ["fold", "rfold", "last", "count", "collect", "rev", "min", "max"]
    import itertools
    for n in (0, 1, 3):
        for k in range(0, 4):
            for sc in itertools.product(steps, repeat=k):
                for fin in (fins if k < 3 else fins[:3]):
                    add("iter", n, *sc, ";", fin)
    return L


def stage(seed, tier):
    def compute():
        import behav
        lean = stages.lean_stage(seed, tier)
        d = os.path.join(stages.WORK, "primitives")
        os.makedirs(d, exist_ok=True)
        ops = gen_ops()
        # the model wants signedness and width, rustc the type name
        lean_lines = []
        for l in ops:
            t = l.split()
            if t[2] == "cast":
                (fs, fb), (ts, tb) = TYPES[t[3]], TYPES[t[4]]
                lean_lines.append(f"PRIM {t[1]} cast {int(ts)} {tb} {t[5]}")
            elif t[2] in ("wadd", "wsub", "add", "sub"):
                s, b = TYPES[t[3]]
                lean_lines.append(f"PRIM {t[1]} {t[2]} {int(s)} {b} {t[4]} {t[5]}")
            elif t[2] == "contains":
                lean_lines.append(f"PRIM {t[1]} contains {t[4]} {t[5]} {t[6]}")
            else:
                lean_lines.append(l)
        open(os.path.join(d, "ops_rust.txt"), "w").write("\n".join(ops) + "\n")
        open(os.path.join(d, "ops_lean.txt"), "w").write("\n".join(lean_lines) + "\n")
        open(os.path.join(d, "prim.rs"), "w").write(RUST)
        p = subprocess.run(["rustc", "--edition", "2021", "-C", "debug-assertions=on", "-C", "overflow-checks=on", "-A", "warnings", "-o",
                            os.path.join(d, "prim"), os.path.join(d, "prim.rs")], capture_output=True, text=True)
        if p.returncode != 0:
            raise RuntimeError("primitives harness does not compile: " + p.stderr[-2000:])
        r = subprocess.run([os.path.join(d, "prim"), os.path.join(d, "ops_rust.txt")], capture_output=True, text=True)
        rust = dict(l.split(" ", 1) for l in r.stdout.splitlines() if " " in l)
        m = subprocess.run([behav.ETTRANS], stdin=open(os.path.join(d, "ops_lean.txt")), capture_output=True, text=True)
        model = dict(l.split(" ", 1) for l in m.stdout.splitlines() if " " in l)
        diffs = []
        for l in ops:
            k = l.split()[1]
            if rust.get(k) != model.get(k):
                diffs.append({"op": l, "rustc": rust.get(k), "model": model.get(k)})
        return {"n_ops": len(ops), "differences": diffs[:20], "n_differences": len(diffs)}
    return stages.cached("primitives", seed, tier, compute, lockname="cargo")


def evaluate(ctx, out):
    r = stage(ctx.seed, ctx.tier)
    cov = out.evidence["coverage"]
    cov["rust_primitive_semantics_compared"] = r["n_ops"]
    cov["rust_primitive_semantics_differences"] = r["n_differences"]
    if r["n_differences"]:
        raise RuntimeError("lean/EnumToolsModel/Rust.lean disagrees with rustc on primitive operations: " + str(r["differences"][:3]))
