"""Accept/reject correspondence: single-file probes compiled by the real rustc against the real
derive, each with (a) the verdict the property demands and (b) the verdict the Lean model predicts.

Families are built class by class so that both directions of every "iff" are exercised:
legal declarations/configurations and one-change mutants of them.
"""
import itertools
import json
import os
import random
import re
import subprocess
from concurrent.futures import ThreadPoolExecutor
from dataclasses import dataclass, field
from typing import List, Optional

from subject import Subject, EAttr, Item, Param, Variant, VAttr, Disc, REPRS, repr_lo, repr_hi, hexname, rust_str
import corpus as C

HEADER = "#![allow(dead_code, unused, non_camel_case_types, non_snake_case, non_upper_case_globals, unreachable_patterns)]\n"


@dataclass
class Probe:
    pid: str                 # probe id
    prop: str                # property it serves
    cls: str                 # class of case (one-change kind)
    expect: str              # accept | reject  (what the property demands)
    subject: Optional[Subject]
    extra: str = ""          # extra source after the declaration
    prelude: str = "use enum_tools::EnumTools;\n"
    wrap_mod: Optional[str] = None   # put the declaration into `mod <name> { … }`
    note: str = ""
    model_applies: bool = True       # the model predicts the derive's verdict for this subject
    source_override: Optional[str] = None
    crate_attrs: str = ""
    reject_must_mention: str = ""    # a rejection only counts as the expected one when rustc's message matches this
    edition: str = "2021"    # edition of the user crate (the derive's own tokens carry the macro crate's edition)

    def source(self):
        if self.source_override is not None:
            return self.source_override
        decl = self.subject.rust_decl()
        if self.wrap_mod:
            body = f"pub mod {self.wrap_mod} {{\n    {self.prelude}" + "\n    ".join(decl.split("\n")) + "\n}\n"
        else:
            body = self.prelude + decl + "\n"
        return self.crate_attrs + HEADER + body + self.extra


# ------------------------------------------------------------------ helpers

def simple_enum(sid, r="i8", vals=(0, 1, 2, 3), feats=None, derives="Clone, Copy", vis="pub", explicit=True, renames=None):
    vs = []
    for i, d in enumerate(vals):
        attrs = []
        if renames and renames.get(i) is not None:
            attrs.append(VAttr("rename", renames[i]))
        disc = Disc("none") if not explicit else (Disc("neg", -d) if d < 0 else Disc("lit", d))
        vs.append(Variant(f"V{i}", disc, attrs))
    attrs = [EAttr("repr", r)]
    if feats is not None:
        attrs = C.cfg_attrs(feats) + attrs
    return Subject(sid, attrs, vs, vis=vis, derives=derives)


GAPLESS = (0, 1, 2, 3)
HOLES = (0, 1, 2, 9)
HOLES_NEG = (-7, -6, 0, 5, 6, 100)

MODE_OPTS = {
    "as_str": [None, "auto", "match", "table"],
    "from_str": [None, "auto", "match", "table"],
    "FromStr": [None, "auto", "match", "table"],
    "iter": [None, "auto", "range", "next_and_back", "table", "table_inline"],
}
NAMEABLE = ["as_str", "from_str", "into", "MAX", "MIN", "next", "next_back", "try_from", "iter", "names", "range"]


def legal(feats, gapless):
    d = dict(feats)
    if "range" in d:
        if "iter" not in d:
            return False
        if d["iter"].get("mode") == "table_inline":
            return False
    if "iter" in d and d["iter"].get("mode") == "range" and not gapless:
        return False
    return True


def random_legal_config(rng, gapless, with_params=False):
    for _ in range(100):
        feats = []
        for f in C.ALL_FEATURES:
            if rng.random() < 0.45:
                params = {}
                if f in MODE_OPTS:
                    m = rng.choice(MODE_OPTS[f])
                    if m is not None:
                        params["mode"] = m
                if with_params and f in NAMEABLE:
                    if rng.random() < 0.4:
                        params["name"] = f"x_{f.lower()}"
                    if rng.random() < 0.4:
                        params["vis"] = rng.choice(["", "pub(crate)", "pub"])
                    if f in ("iter", "names") and rng.random() < 0.4:
                        params["struct_name"] = f"S{f.capitalize()}"
                feats.append((f, params))
        if legal(feats, gapless) and feats:
            rng.shuffle(feats)
            return feats
    return [("into", {})]


# ------------------------------------------------------------------ families

def documented_modes():
    """{feature key: [documented mode values]} from the Docs.lean regenerated on this run"""
    import stages
    out = {}
    try:
        txt = open(os.path.join(stages.LEAN_DIR, "EnumToolsModel", "Generated", "Docs.lean")).read()
    except OSError:
        return out
    for m in re.finditer(r'key := "([^"]+)".*?modes := \[([^\]]*)\]', txt):
        ms = re.findall(r'"([^"]+)"', m.group(2))
        if ms:
            out[m.group(1)] = ms
    return out


class ProbeSet:
    def __init__(self, seed, tier):
        self.rng = random.Random(seed * 7919 + 13)
        self.tier = tier
        self.probes: List[Probe] = []
        self._k = 0

    def add(self, prop, cls, expect, subject, **kw):
        self._k += 1
        pid = f"p{self._k}"
        if subject is not None:
            subject.sid = pid
        self.probes.append(Probe(pid, prop, cls, expect, subject, **kw))
        # "never compiles" must not rest on a feature's generated code tripping over the declaration: the same
        # out-of-domain declaration with no feature at all, and with features that never name a variant
        if (prop == "C12" and expect == "reject" and subject is not None and "source_override" not in kw
                and not cls.endswith((":nofeat", ":light"))):
            import copy
            for tag, feats in (("nofeat", None), ("light", [("try_from", {}), ("TryFrom", {}), ("iter", {}), ("names", {}), ("next", {}), ("next_back", {})])):
                t = copy.deepcopy(subject)
                ets = [a for a in t.attrs if a.kind == "et"]
                if not ets:
                    continue
                rest = [a for a in t.attrs if a.kind != "et"]
                t.attrs = rest + (C.cfg_attrs(feats) if feats else [])
                self.add(prop, f"{cls}:{tag}", expect, t, **kw)

    # ---- C10: documented combinations compile, nothing but Copy required
    def fam_c10(self):
        rng = self.rng
        shapes = [("gapless", "i8", GAPLESS), ("holes", "i8", HOLES), ("holes-neg", "i16", HOLES_NEG), ("single", "u8", (7,))]
        for sname, r, vals in shapes:
            gap = sname in ("gapless", "single")
            # every feature alone, every documented mode
            for f in C.ALL_FEATURES:
                opts = MODE_OPTS.get(f, [None])
                for m in opts:
                    feats = [(f, {"mode": m} if m else {})]
                    if f == "range":
                        feats.append(("iter", {}))
                    if not legal(feats, gap):
                        continue
                    self.add("C10", f"single:{f}:{m}:{sname}", "accept", simple_enum("", r, vals, feats))
            # `iter` left on auto together with `range`, under every combination of the three string features being absent, in
            # match mode, in table mode or on auto: what `auto` becomes, and which tables the second enable pass must still add,
            # depends on exactly this
            if sname in ("gapless", "holes"):
                for a in (None, "match", "table", "auto"):
                    for b in (None, "match", "table", "auto"):
                        for c3 in (None, "match", "table", "auto"):
                            feats = [("iter", {}), ("range", {})]
                            for fn, md in (("as_str", a), ("from_str", b), ("FromStr", c3)):
                                if md is not None:
                                    feats.append((fn, {"mode": md} if md != "auto" else {}))
                            self.add("C10", f"iter-auto-range:{a}:{b}:{c3}:{sname}", "accept", simple_enum("", r, vals, feats))
            # every mode value the documentation (src/lib.rs, as regenerated into Docs.lean on this run) lists for a feature and that
            # the generator above does not already use: e.g. "match" of iter -- see known findings
            for f, modes in sorted(documented_modes().items()):
                for m in modes:
                    if m in (MODE_OPTS.get(f) or []) or m == "auto":
                        continue
                    feats = [(f, {"mode": m})] + ([("iter", {})] if f == "range" else [])
                    self.add("C10", f"{f}-mode-{m}:{sname}", "accept", simple_enum("", r, vals, feats))
            # struct_name, name, vis
            self.add("C10", f"struct_name:{sname}", "accept",
                     simple_enum("", r, vals, [("iter", {"struct_name": "MyIt"}), ("names", {"struct_name": "MyNames", "name": "all_names", "vis": "pub(crate)"})]))
        # all pairs of features (random documented modes), both shapes
        pairs = list(itertools.combinations(C.ALL_FEATURES, 2))
        if self.tier != "thorough":
            rng.shuffle(pairs)
            pairs = pairs[:60]
        for (a, b) in pairs:
            for sname, r, vals in shapes[:2]:
                gap = sname == "gapless"
                for _ in range(5):
                    feats = []
                    for f in (a, b):
                        m = rng.choice(MODE_OPTS.get(f, [None]))
                        feats.append((f, {"mode": m} if m else {}))
                    if "range" in (a, b) and "iter" not in (a, b):
                        feats.append(("iter", {}))
                    if legal(feats, gap):
                        self.add("C10", f"pair:{a}+{b}:{sname}", "accept", simple_enum("", r, vals, feats))
                        break
        # random legal subsets with parameters, single attribute vs split
        n = 400 if self.tier == "thorough" else 60
        for i in range(n):
            sname, r, vals = rng.choice(shapes[:3])
            gap = sname == "gapless"
            feats = random_legal_config(rng, gap, with_params=(i % 2 == 0))
            s = simple_enum("", r, vals, feats)
            s.attrs = C.cfg_attrs(feats, rng.choice([1, 2, 3, 4])) + [EAttr("repr", r)]
            rng.shuffle(s.attrs)
            self.add("C10", f"subset:{sname}", "accept", s)
        # an enum that is only Copy (Clone written by hand), and no other derives
        s = simple_enum("", "u16", HOLES, C.config("auto", False), derives="Copy")
        self.add("C10", "only-copy", "accept", s, extra="impl ::core::clone::Clone for E { fn clone(&self) -> Self { *self } }\n")

    # ---- C11: the documented domain is accepted
    def fam_c11(self):
        rng = self.rng
        feats = C.config("auto", True)
        for r in REPRS:
            lo, hi = max(repr_lo(r), -(1 << 63)), min(repr_hi(r), (1 << 63) - 1)
            # type limits, explicit
            self.add("C11", f"limits:{r}", "accept", simple_enum("", r, sorted({lo, lo + 1, 0 if lo <= 0 <= hi else lo + 2, hi - 1, hi}), C.config("table", False)))
            # implicit after explicit, mixed order
            s = Subject("", C.cfg_attrs(C.config("match", False)) + [EAttr("repr", r)],
                        [Variant("A", Disc("lit", 5)), Variant("B"), Variant("C"), Variant("D", Disc("lit", 1)), Variant("E"),
                         Variant("F", Disc("lit", 100, "1_0_0")), Variant("G")])
            self.add("C11", f"implicit-after-explicit:{r}", "accept", s)
            if REPRS[r][0]:
                s = Subject("", C.cfg_attrs(C.config("table", False)) + [EAttr("repr", r)],
                            [Variant("A", Disc("neg", 5)), Variant("B"), Variant("C", Disc("neg", 100, "0x64")), Variant("D"),
                             Variant("E", Disc("lit", 3, f"3{r}"))])
                self.add("C11", f"negative-implicit:{r}", "accept", s)
        # literal spellings
        for text, mag in (("0x1F", 31), ("0o17", 15), ("0b1010", 10), ("1_000", 1000), ("100u16", 100), ("0xFF_u16", 255), ("0_0", 0)):
            s = Subject("", C.cfg_attrs(feats) + [EAttr("repr", "u16")], [Variant("A", Disc("lit", mag, text)), Variant("B")])
            self.add("C11", f"spelling:{text}", "accept", s)
        # i64 limits on 64/128-bit reprs
        for r in ("i64", "i128", "isize"):
            s = Subject("", C.cfg_attrs(C.config("table", False)) + [EAttr("repr", r)],
                        [Variant("A", Disc("neg", 1 << 63)), Variant("B"), Variant("C", Disc("lit", (1 << 63) - 1))])
            self.add("C11", f"i64-limits:{r}", "accept", s)
        # implicit discriminants reaching the i64 limits
        for r in ("i64", "i128", "isize", "u64", "u128", "usize"):
            s = Subject("", C.cfg_attrs(C.config("match", False)) + [EAttr("repr", r)],
                        [Variant("A", Disc("lit", 5)), Variant("B", Disc("lit", (1 << 63) - 2)), Variant("C")])
            self.add("C11", f"implicit-reaches-i64-max:{r}", "accept", s)
        for r in ("i64", "i128", "isize"):
            s = Subject("", C.cfg_attrs(C.config("table", False)) + [EAttr("repr", r)],
                        [Variant("A", Disc("neg", 1 << 63)), Variant("B"), Variant("C"), Variant("D", Disc("lit", 7))])
            self.add("C11", f"implicit-from-i64-min:{r}", "accept", s)
        # the documented maximum number of variants (light feature set: compile time)
        self.add("C11", "n65534", "accept", simple_enum("", "u16", tuple(range(65534)), [("into", {}), ("MIN", {}), ("MAX", {})], explicit=False))
        # foreign attributes and doc comments everywhere
        s = simple_enum("", "u8", (1, 2, 3), feats)
        s.attrs = [EAttr("foreign", text="/// doc"), EAttr("foreign", text="#[allow(dead_code)]"), EAttr("foreign", text="#[doc(hidden)]")] + s.attrs
        # every meta shape: path-only, name-value, tool path, cfg_attr; before and after the derive's own attributes
        s.attrs = [EAttr("foreign", text="#[must_use]"), EAttr("foreign", text="#[doc = \"nv\"]")] + s.attrs + [
            EAttr("foreign", text="#[non_exhaustive]"), EAttr("foreign", text="#[rustfmt::skip]"), EAttr("foreign", text="#[cfg_attr(all(), allow(unused))]")]
        s.variants[0].attrs = [VAttr("foreign", text="/// first"), VAttr("foreign", text="#[allow(dead_code)]")]
        s.variants[2].attrs = [VAttr("foreign", text="#[doc = \"x\"]"), VAttr("rename", "three")]
        self.add("C11", "foreign-attrs", "accept", s)
        # variants named like the associated items, traits and types the generated code mentions (`Self::Error`, `Self::Item`, ..):
        # any identifier is a legal variant name
        for ident in C.Corpus.VARIANT_IDENTS:
            for sname, r, vals in (("gapless", "i8", GAPLESS), ("holes", "i16", HOLES_NEG)):
                for kind in ("auto", "table"):
                    s = simple_enum("", r, vals, C.config(kind, sname == "gapless"))
                    s.variants[1].ident = ident
                    self.add("C11", f"variant-named:{ident}:{sname}:{kind}", "accept", s)
        # single variant; 300 variants; (thorough) the 65534 limit
        self.add("C11", "single", "accept", simple_enum("", "i128", (-5,), feats))
        self.add("C11", "n300", "accept", simple_enum("", "u16", tuple(range(300)), C.config("auto", True), explicit=False))
        if self.tier == "thorough":
            self.add("C11", "n65534-more-features", "accept", simple_enum("", "u16", tuple(range(65534)), [("into", {}), ("try_from", {}), ("iter", {})], explicit=False))

    # ---- C12: outside the domain never compiles
    def fam_c12(self):
        feats = [("into", {}), ("try_from", {}), ("iter", {}), ("as_str", {})]
        base = lambda: simple_enum("", "i16", (0, 1, 2), feats)
        # struct / union
        s = base(); s.kind = "struct"; s.body_text = "{ a: u8 }"; s.variants = []
        self.add("C12", "struct", "reject", s)
        s = base(); s.kind = "struct"; s.body_text = ";"; s.variants = []
        self.add("C12", "unit-struct", "reject", s)
        s = base(); s.kind = "union"; s.body_text = "{ a: u8, b: i8 }"; s.variants = []
        self.add("C12", "union", "reject", s)
        # no variants
        s = base(); s.variants = []
        self.add("C12", "no-variants", "reject", s)
        # variants with fields
        for ft, kind in (("(u8)", "t"), ("{ x: u8 }", "n"), ("()", "t"), ("{}", "n")):
            s = base(); s.variants[1].fields = kind; s.variants[1].fields_text = ft; s.variants[1].disc = Disc("none"); s.variants[2].disc = Disc("none"); s.variants[0].disc = Disc("none")
            self.add("C12", f"field:{ft}", "reject", s)
        # non-literal discriminants (all valid Rust)
        forms = [("const-path", "K", "other"), ("arith", "1 + 1", "other"), ("cast", "1 as i16", "other"), ("paren", "(1)", "other"),
                 ("double-neg", "--1", "negneg"), ("neg-paren", "-(1)", "negother"), ("not", "!0", "other"), ("byte", "b'a' as i16", "other"),
                 ("char-cast", "'a' as i16", "other"), ("block", "{ 1 }", "other"), ("const-fn", "f()", "other"),
                 ("neg-const", "-K", "negother"), ("assoc", "i16::MAX", "other"), ("if", "if true { 1 } else { 2 }", "other"),
                 ("byte-lit", "b'a'", "other"), ("neg-neg-paren", "-(-1)", "negother")]
        for name, text, kind in forms:
            r = "u8" if name == "byte-lit" else "i16"
            s = simple_enum("", r, (0, 1, 2), feats)
            s.variants = [Variant("A", Disc(kind, 1, text if kind != "negneg" else "1")), Variant("B")]
            self.add("C12", f"disc:{name}", "reject", s, extra="const K: i16 = 7;\nconst fn f() -> i16 { 3 }\n")
        # the same on a later variant only, so that earlier literals cannot mask it
        s = base(); s.variants = [Variant("A", Disc("lit", 0)), Variant("B", Disc("lit", 1)), Variant("C", Disc("other", 0, "1 + 1"))]
        self.add("C12", "disc:arith-last", "reject", s)
        # values outside i64
        s = simple_enum("", "u64", (0,), feats); s.variants = [Variant("A", Disc("lit", 1 << 63)), Variant("B")]
        self.add("C12", "above-i64:u64", "reject", s)
        s = simple_enum("", "u128", (0,), feats); s.variants = [Variant("A", Disc("lit", (1 << 64) + 5))]
        self.add("C12", "above-i64:u128", "reject", s)
        s = simple_enum("", "i128", (0,), feats); s.variants = [Variant("A", Disc("neg", (1 << 63) + 1)), Variant("B", Disc("lit", 0))]
        self.add("C12", "below-i64:i128", "reject", s)
        s = simple_enum("", "u64", (0,), feats); s.variants = [Variant("A", Disc("lit", (1 << 63) - 1)), Variant("B")]
        self.add("C12", "implicit-overflows-i64", "reject", s)
        # repr forms
        for name, attrs in (("missing", []), ("duplicate", [EAttr("repr", "u8"), EAttr("repr", "u8")]),
                            ("C", [EAttr("repr", "C")]), ("C-u8", [EAttr("repr-other", text="#[repr(C, u8)]")]),
                            ("two-different", [EAttr("repr", "u8"), EAttr("repr", "u16")]),
                            ("Rust", [EAttr("repr", "Rust")]), ("transparent", [EAttr("repr", "transparent")]),
                            ("align-only", [EAttr("repr-other", text="#[repr(align(4))]")]),
                            ("bool", [EAttr("repr", "bool")]), ("f32", [EAttr("repr", "f32")])):
            s = simple_enum("", "u8", (0, 1, 2), feats, explicit=False)
            s.attrs = C.cfg_attrs(feats) + attrs
            self.add("C12", f"repr:{name}", "reject", s)
        for name, attrs in (("u8+align", [EAttr("repr", "u8"), EAttr("repr-other", text="#[repr(align(2))]")]),
                            ("align+i16", [EAttr("repr-other", text="#[repr(align(4))]"), EAttr("repr", "i16")]),
                            ("u8-align-one-attr", [EAttr("repr-other", text="#[repr(u8, align(2))]")]),
                            ("empty", [EAttr("repr-other", text="#[repr()]")])):
            s = simple_enum("", "u8", (0, 1, 2), feats, explicit=False)
            s.attrs = C.cfg_attrs(feats) + attrs
            self.add("C12", f"repr:{name}", "reject", s)
            # again with features whose output contains no transmute (so that only the derive can reject)
            light = [("into", {}), ("as_str", {"mode": "match"}), ("MIN", {}), ("names", {})]
            s = simple_enum("", "u8", (0, 1, 2), light, explicit=False)
            s.attrs = C.cfg_attrs(light) + attrs
            self.add("C12", f"repr-light:{name}", "reject", s)
        self.add("C12", "n65535", "reject", simple_enum("", "u32", tuple(range(65535)), [("into", {})], explicit=False))
        if self.tier == "thorough":
            self.add("C12", "n65536", "reject", simple_enum("", "u32", tuple(range(65536)), [("into", {})], explicit=False))
            self.add("C12", "n70000", "reject", simple_enum("", "u32", tuple(range(70000)), [("into", {})], explicit=False))

    # ---- C13: invalid configuration is rejected
    def fam_c13(self):
        shapes = [("gapless", "i8", GAPLESS), ("holes", "i8", HOLES)]
        for sname, r, vals in shapes:
            gap = sname == "gapless"

            def mk(items, extra_attrs=None):
                s = simple_enum("", r, vals)
                s.attrs = [EAttr("et", items=items)] + (extra_attrs or []) + [EAttr("repr", r)]
                return s
            P, I = Param, Item
            cases = [
                ("unknown-feature", [I("path", "bogus")]),
                ("unknown-feature-among-legal", [I("path", "into"), I("path", "Intoo"), I("path", "iter")]),
                ("unknown-feature-list", [I("list", "bogus", [P("str", "name", "x")])]),
                ("feature-wrong-case", [I("path", "debug")]),
                ("unknown-param", [I("list", "as_str", [P("str", "nmae", "x")])]),
                ("unknown-param-flag", [I("list", "iter", [P("flag", "fast")])]),
                ("param-on-trait-feature", [I("list", "Debug", [P("str", "name", "x")])]),
                ("mode-on-modeless", [I("list", "into", [P("str", "mode", "auto")])]),
                ("struct_name-on-fn", [I("list", "next", [P("str", "struct_name", "X")])]),
                ("repeat-feature", [I("path", "into"), I("path", "into")]),
                ("repeat-feature-list", [I("list", "iter", [P("str", "mode", "table")]), I("path", "iter")]),
                ("repeat-param", [I("list", "as_str", [P("str", "name", "a"), P("str", "name", "b")])]),
                ("repeat-param-same", [I("list", "iter", [P("str", "mode", "auto"), P("str", "mode", "auto")])]),
                ("bad-mode", [I("list", "as_str", [P("str", "mode", "fast")])]),
                ("bad-mode-case", [I("list", "from_str", [P("str", "mode", "Table")])]),
                ("bad-mode-FromStr", [I("list", "FromStr", [P("str", "mode", "range")])]),
                ("bad-mode-iter", [I("list", "iter", [P("str", "mode", "inline")])]),
                ("bad-mode-empty", [I("list", "iter", [P("str", "mode", "")])]),
                ("bad-vis-super", [I("list", "into", [P("str", "vis", "pub(super)")])]),
                ("bad-vis-in", [I("list", "MIN", [P("str", "vis", "pub(in crate)")])]),
                ("bad-vis-case", [I("list", "MAX", [P("str", "vis", "PUB")])]),
                ("bad-vis-space", [I("list", "next", [P("str", "vis", "pub ")])]),
                ("bad-vis-leading-space", [I("list", "as_str", [P("str", "vis", " pub")])]),
                ("bad-vis-inner-space", [I("list", "try_from", [P("str", "vis", "pub (crate)")])]),
                ("bad-vis-newline", [I("list", "iter", [P("str", "vis", "pub\n")])]),
                ("bad-vis-blank", [I("list", "names", [P("str", "vis", " ")])]),
                ("bad-vis-self", [I("list", "into", [P("str", "vis", "pub(self)")])]),
                ("bad-vis-in-path", [I("list", "MAX", [P("str", "vis", "pub(in crate::x)")])]),
                ("bad-vis-private", [I("list", "next", [P("str", "vis", "private")])]),
                ("name-not-string", [I("list", "into", [P("nonstr", "name", text="name = 5")])]),
                ("name-flag", [I("list", "into", [P("flag", "name")])]),
                ("mode-flag", [I("list", "iter", [P("flag", "mode")])]),
                ("mode-int", [I("list", "as_str", [P("nonstr", "mode", text="mode = 1")])]),
                ("vis-flag", [I("list", "into", [P("flag", "vis")])]),
                ("vis-bool", [I("list", "into", [P("nonstr", "vis", text="vis = true")])]),
                ("struct_name-flag", [I("list", "names", [P("flag", "struct_name")])]),
                ("sorted-name-value", [I("list", "sorted", [P("str", "name", "x")])]),
                ("sorted-unknown", [I("list", "sorted", [P("flag", "names")])]),
                ("range-without-iter", [I("path", "range")]),
                ("range-without-iter-others", [I("path", "range"), I("path", "names"), I("path", "next"), I("path", "next_back")]),
                ("range-table_inline", [I("path", "range"), I("list", "iter", [P("str", "mode", "table_inline")])]),
                ("nested-list", [I("list", "as_str", [P("other", text="mode(\"x\")")])]),
                ("param-value-not-literal", [I("list", "as_str", [P("other", text="name = foo")])]),
                ("path-colons", [I("path", "::a::b", text="a::b")]),
                ("path-leading-colons", [I("path", "::into", text="::into")]),
                ("param-path-colons", [I("list", "into", [P("flag", "::x", text="a::b")])]),
                ("name-value-top", [I("other", text="as_str = \"x\"")]),
                ("literal-top", [I("listfail", "x", text="\"into\"")]),
            ]
            if not gap:
                cases.append(("iter-range-holes", [I("list", "iter", [P("str", "mode", "range")])]))
                cases.append(("iter-range-holes-with-range", [I("list", "iter", [P("str", "mode", "range")]), I("path", "range")]))
                # hole patterns of every kind: one missing integer, a hole next to the ends, many runs, negative, at the type limits
                for hv in ((0, 1, 3), (0, 2), (-2, 0, 1), (125, 127), (-128, -126), (0, 1, 2, 4, 5, 6), (-128, 127), (1, 3, 5, 7, 9), (0, 1, 2, 3, 5)):
                    s = simple_enum("", "i8", hv)
                    s.attrs = [EAttr("et", items=[I("list", "iter", [P("str", "mode", "range")])]), EAttr("repr", "i8")]
                    self.add("C13", f"iter-range-holes-shape:{'_'.join(map(str, hv))}", "reject", s)
                # holes whose total size is congruent to 0 modulo 2^8 / 2^16 / 2^32 / 2^64, or that span more than i64 holds:
                # a gap test done in a narrower or wrapping type would miss them
                for r, hv in (("i16", (0, 257)), ("u16", (0, 1, 258)), ("u32", (0, 65537)), ("i32", (-32768, 32769)), ("u64", (0, 1, 65538)),
                              ("i64", (-1, 0, 131073)), ("i64", (0, (1 << 32) + 1)), ("i64", (-(1 << 63), 1)), ("i64", (-(1 << 63), (1 << 63) - 1)),
                              ("i128", (-2, (1 << 63) - 1)), ("u32", (0, 65536)), ("u64", (5, (1 << 32) + 6))):
                    s = simple_enum("", r, hv)
                    s.attrs = [EAttr("et", items=[I("list", "iter", [P("str", "mode", "range")])]), EAttr("repr", r)]
                    self.add("C13", f"iter-range-holes-wide:{r}:{'_'.join(map(str, hv))}", "reject", s)
            for name, items in cases:
                s = mk(items)
                if name == "literal-top":
                    s.attrs[0] = EAttr("et-fail", text="#[enum_tools(\"into\")]")
                self.add("C13", f"{name}:{sname}", "reject", s)
            # the same feature in two attributes; a parameter conflict across attributes
            s = mk([I("path", "into")], [EAttr("et", items=[I("path", "iter"), I("path", "into")])])
            self.add("C13", f"repeat-feature-across-attrs:{sname}", "reject", s)
            s = mk([I("list", "iter", [P("str", "mode", "table")])], [EAttr("et", items=[I("path", "names"), I("list", "iter", [P("str", "mode", "next_and_back")])])])
            self.add("C13", f"repeat-feature-across-attrs-modes:{sname}", "reject", s)
            s = mk([I("path", "range")], [EAttr("et", items=[I("list", "iter", [P("str", "mode", "table_inline")])])])
            self.add("C13", f"range-table_inline-across-attrs:{sname}", "reject", s)
            # enum-level attribute that is not a list
            s = mk([I("path", "into")], [EAttr("et-notlist", text="#[enum_tools]")])
            self.add("C13", f"attr-not-list:{sname}", "reject", s)
            s = mk([I("path", "into")], [EAttr("et-notlist", text="#[enum_tools = \"into\"]")])
            self.add("C13", f"attr-name-value:{sname}", "reject", s)
            # variant-level attributes
            vcases = [
                ("v-flag", VAttr("bademit", text="#[enum_tools(rename)]")),
                ("v-int", VAttr("bademit", text="#[enum_tools(rename = 5)]")),
                ("v-other-key", VAttr("bademit", text="#[enum_tools(name = \"x\")]")),
                ("v-not-list", VAttr("bademit", text="#[enum_tools]")),
                ("v-name-value", VAttr("bademit", text="#[enum_tools = \"x\"]")),
                ("v-list", VAttr("bademit", text="#[enum_tools(rename(\"x\"))]")),
                ("v-two", VAttr("badabort", text="#[enum_tools(rename = \"a\", rename = \"b\")]")),
                ("v-empty", VAttr("badabort", text="#[enum_tools()]")),
                ("v-rename-and-other", VAttr("badabort", text="#[enum_tools(rename = \"a\", into)]")),
                ("v-feature", VAttr("bademit", text="#[enum_tools(into)]")),
                ("v-bool", VAttr("bademit", text="#[enum_tools(rename = true)]")),
                ("v-bytestr", VAttr("bademit", text="#[enum_tools(rename = b\"x\")]")),
            ]
            for name, va in vcases:
                s = mk([I("path", "as_str"), I("path", "names")])
                s.variants[1].attrs = [va]
                self.add("C13", f"{name}:{sname}", "reject", s)
            # controls: the legal neighbours must compile
            for name, items in (("ctl-into", [I("path", "into")]),
                                ("ctl-modes", [I("list", "as_str", [P("str", "mode", "table")]), I("list", "iter", [P("str", "mode", "table")]), I("path", "range")]),
                                ("ctl-vis", [I("list", "into", [P("str", "vis", "pub(crate)"), P("str", "name", "to_prim")])]),
                                ("ctl-sorted", [I("list", "sorted", [P("flag", "name"), P("flag", "value")])])):
                self.add("C13", f"{name}:{sname}", "accept", mk(items))
            s = mk([I("path", "as_str")]); s.variants[1].attrs = [VAttr("rename", "x y")]
            self.add("C13", f"ctl-rename:{sname}", "accept", s)

    # ---- C14: sorted(name) / sorted(value)
    def fam_c14(self):
        rng = self.rng

        def is_strict(xs):
            return all(a < b for a, b in zip(xs, xs[1:]))

        def emit(ents, r, implicit_mask, cls):
            """ents: [(disc, ident, rename)] in declaration order"""
            vs = []
            nxt = 0
            for j, (d, ident, ren) in enumerate(ents):
                attrs = [VAttr("rename", ren)] if ren is not None else []
                if implicit_mask[j] and d == nxt:
                    disc = Disc("none")
                else:
                    disc = Disc("neg", -d) if d < 0 else Disc("lit", d)
                vs.append(Variant(ident, disc, attrs))
                nxt = d + 1
            names = [(ren if ren is not None else ident).encode() for _, ident, ren in ents]
            vals = [d for d, _, _ in ents]
            for sn, sv in ((True, False), (False, True), (True, True), (False, False)):
                params = ([Param("flag", "name")] if sn else []) + ([Param("flag", "value")] if sv else [])
                items = [Item("path", "into"), Item("path", "iter")]
                if sn or sv:
                    items.append(Item("list", "sorted", params))
                ok = (not sn or is_strict(names)) and (not sv or is_strict(vals))
                s = Subject("", [EAttr("et", items=items), EAttr("repr", r)], [Variant(v.ident, v.disc, list(v.attrs)) for v in vs])
                self.add("C14", f"{cls}:name={int(sn)},value={int(sv)}", "accept" if ok else "reject", s)

        # all permutations of small enums
        base = [(-1, "B", None), (0, "A", None), (1, "C", None), (5, "D", None)]
        nmax = 4 if self.tier == "thorough" else 3
        for n in range(1, nmax + 1):
            for perm in itertools.permutations(base[:n]):
                emit(list(perm), "i8", [False] * n, f"perm{n}")
        # names vs identifiers: renames decide, byte-wise (upper < lower, prefixes, non-ASCII)
        cases = [
            [(0, "A", "b"), (1, "B", "a")], [(0, "B", "a"), (1, "A", "b")], [(0, "A", None), (1, "B", "A")],
            [(0, "A", "a"), (1, "B", "B")], [(0, "B", "B"), (1, "A", "a")], [(0, "Id", None), (1, "IO", None), (2, "Ip", None)],
            [(0, "IO", None), (1, "Id", None), (2, "Io", None)], [(0, "A", "ab"), (1, "B", "abc")], [(0, "A", "abc"), (1, "B", "ab")],
            [(0, "A", "z"), (1, "B", "é")], [(0, "A", ""), (1, "B", "a")], [(0, "A", "a"), (1, "B", "")],
            [(0, "A", None), (1, "B", None), (2, "C", "B")], [(0, "A", "x"), (1, "B", "x")],
        ]
        for ents in cases:
            emit(ents, "u8", [False] * len(ents), "names")
        # implicit after explicit; equal/descending steps; the value -1 (the loop's initial `last`)
        vcases = [
            [(5, "A", None), (6, "B", None), (7, "C", None)], [(5, "A", None), (6, "B", None), (0, "C", None)],
            [(-1, "A", None), (-3, "B", None), (0, "C", None)], [(-3, "A", None), (-2, "B", None), (-1, "C", None), (-100, "D", None), (7, "E", None)],
            [(-2, "A", None), (-1, "B", None), (0, "C", None)], [(0, "A", None), (-1, "B", None)], [(-1, "A", None), (0, "B", None)],
            [(3, "A", None), (4, "B", None), (2, "C", None), (3 + 0, "D", None)][:3],
            [(10, "A", None), (11, "B", None), (12, "C", None), (1, "D", None), (2, "E", None)],
        ]
        for ents in vcases:
            emit(ents, "i8", [True] * len(ents), "values-implicit")
            emit(ents, "i8", [False] * len(ents), "values-explicit")
        # random larger ones
        n = 40 if self.tier == "thorough" else 8
        for i in range(n):
            k = rng.randint(4, 9)
            vals = sorted(rng.sample(range(-50, 60), k))
            ids = sorted(rng.sample([a + b for a in "ABCDEFGH" for b in "abXY"], k))
            ents = [(vals[j], ids[j], None) for j in range(k)]
            mode = i % 4
            if mode == 1:
                a, b = rng.sample(range(k), 2); ents[a], ents[b] = ents[b], ents[a]
            elif mode == 2:   # swap only the values of two neighbours
                a = rng.randrange(k - 1)
                ents[a], ents[a + 1] = (ents[a + 1][0], ents[a][1], None), (ents[a][0], ents[a + 1][1], None)
            elif mode == 3:   # a rename that breaks / keeps name order
                a = rng.randrange(k)
                ents[a] = (ents[a][0], ents[a][1], rng.choice(["", "zzz", "Aa", ents[a][1]]))
            emit(ents, "i16", [rng.random() < 0.5 for _ in range(k)], "random")

    # ---- C15: names / visibility
    def fam_c15(self):
        enum_vis_list = ["", "pub(crate)", "pub(super)", "pub(in crate::outer)", "pub"]
        for ev in enum_vis_list:
            for sname, r, vals in (("gapless", "i8", GAPLESS), ("holes", "i8", HOLES)):
                feats = [("as_str", {"mode": "table"}), ("from_str", {"mode": "table"}), ("iter", {"mode": "next_and_back" if sname == "holes" else "table"}),
                         ("range", {}), ("try_from", {}), ("Debug", {})]
                # helper items pulled in by other features must not be reachable outside the defining module
                helpers = ["__MIN", "__MAX", "__next", "__next_back", "__ENUM", "__NAME", "__RANGES", "__into", "__names"]
                s0 = simple_enum("", r, vals, feats, vis=ev)
                # positive: requested items usable from the sibling module with the enum's visibility
                uses_inside = "pub fn inside() { let _ = E::V0.as_str(); let _ = E::iter().count(); let _ = E::try_from(0); let _ = E::range(E::V0, E::V1); }\n"
                if ev != "":
                    outside = "pub mod other { pub fn f() { let _ = super::inner::E::V0.as_str(); let _ = super::inner::E::iter(); let _: super::inner::EIter = super::inner::E::range(super::inner::E::V0, super::inner::E::V1); } }\n"
                else:
                    outside = ""
                src = self._c15_source(s0, uses_inside, outside)
                self.add("C15", f"default-vis-usable:{ev or 'private'}:{sname}", "accept", s0, source_override=src)
                for hname in helpers:
                    if ev in ("", ):
                        break
                    out = f"pub mod other {{ pub fn f() {{ let _ = super::inner::E::{hname}; }} }}\n"
                    s = simple_enum("", r, vals, feats, vis=ev)
                    self.add("C15", f"helper-private:{hname}:{ev}:{sname}", "reject", s, source_override=self._c15_source(s, "", out),
                             model_applies=False)
        # requested names / vis / struct_name honoured, and used by dependants under that name
        for vis_param, outside_ok in (("", False), ("pub(crate)", True), ("pub", True)):
            feats = [("as_str", {"name": "label", "vis": vis_param}), ("Debug", {}), ("Display", {}), ("IntoStr", {}),
                     ("iter", {"name": "all", "struct_name": "Walker", "vis": vis_param, "mode": "next_and_back"}),
                     ("next", {"name": "succ", "vis": vis_param}), ("next_back", {"name": "pred", "vis": vis_param}),
                     ("range", {"name": "between", "vis": vis_param}), ("names", {"name": "labels", "struct_name": "Labels", "vis": vis_param}),
                     ("MIN", {"name": "FIRST", "vis": vis_param}), ("MAX", {"name": "LAST", "vis": vis_param}),
                     ("into", {"name": "to_prim", "vis": vis_param}), ("try_from", {"name": "from_prim", "vis": vis_param}),
                     ("from_str", {"name": "parse_label", "vis": vis_param})]
            use = ("let _: &'static str = X::V0.label(); let _: Walker = X::all(); let _ = X::V0.succ(); let _ = X::V1.pred(); "
                   "let _: Walker = X::between(X::FIRST, X::LAST); let _: Labels = X::labels(); let _ = X::V0.to_prim(); let _ = X::from_prim(1); "
                   "let _ = X::parse_label(\"V0\"); let _ = format!(\"{:?}{}\", X::V0, X::V1);")
            for sname, r, vals in (("gapless", "i8", GAPLESS), ("holes", "i8", HOLES)):
                s = simple_enum("", r, vals, feats, vis="pub")
                inside = "pub fn inside() { use self::E as X; " + use + " }\n"
                outside = "pub mod other { pub fn f() { use super::inner::{E as X, Walker, Labels}; " + use + " } }\n"
                self.add("C15", f"custom-names-inside:{vis_param or 'private'}:{sname}", "accept", s, source_override=self._c15_source(s, inside, ""))
                s2 = simple_enum("", r, vals, feats, vis="pub")
                self.add("C15", f"custom-names-outside:{vis_param or 'private'}:{sname}", "accept" if outside_ok else "reject", s2,
                         source_override=self._c15_source(s2, "", outside), model_applies=False)
                # the default names must NOT exist when a custom name was given
                for old in ("as_str()", "succ_missing()"):
                    pass
                s3 = simple_enum("", r, vals, feats, vis="pub")
                self.add("C15", f"default-name-absent:{vis_param or 'private'}:{sname}", "reject", s3,
                         source_override=self._c15_source(s3, "pub fn inside() { let _ = E::V0.as_str(); }\n", ""), model_applies=False)
                s4 = simple_enum("", r, vals, feats, vis="pub")
                self.add("C15", f"default-struct-absent:{vis_param or 'private'}:{sname}", "reject", s4,
                         source_override=self._c15_source(s4, "pub fn inside() { let _: EIter = E::all(); }\n", ""), model_applies=False)
        # vis = "" on a pub enum hides the item outside the module
        for f, call in (("into", "E::V0.into()"), ("MIN", "E::MIN"), ("iter", "E::iter()"), ("names", "E::names()")):
            s = simple_enum("", "u8", GAPLESS, [(f, {"vis": ""})], vis="pub")
            self.add("C15", f"vis-empty-hides:{f}", "reject", s,
                     source_override=self._c15_source(s, "", f"pub mod other {{ pub fn f() {{ let _ = super::inner::{call}; }} }}\n"), model_applies=False)
            s = simple_enum("", "u8", GAPLESS, [(f, {"vis": ""})], vis="pub")
            self.add("C15", f"vis-empty-inside-ok:{f}", "accept", s, source_override=self._c15_source(s, f"pub fn inside() {{ let _ = {call}; }}\n", ""))
        # the iterator structs take the requested visibility too (every iterator mode)
        for mode, vals in (("range", GAPLESS), ("table", GAPLESS), ("next_and_back", HOLES), ("table_inline", HOLES), ("auto", GAPLESS), ("auto", HOLES)):
            for f, sname_ in (("iter", "EIter"), ("names", "ENames")):
                params = {"vis": ""}
                if f == "iter":
                    params["mode"] = mode
                elif mode not in ("range", "next_and_back"):
                    continue
                s = simple_enum("", "i8", vals, [(f, params)], vis="pub")
                self.add("C15", f"vis-empty-hides-struct:{f}:{mode}", "reject", s,
                         source_override=self._c15_source(s, "", f"pub mod other {{ pub fn f(_: &super::inner::{sname_}) {{}} }}\n"), model_applies=False)
                s = simple_enum("", "i8", vals, [(f, dict(params, vis="pub(crate)"))], vis="pub")
                self.add("C15", f"vis-crate-struct-from-root:{f}:{mode}", "accept", s,
                         source_override=self._c15_source(s, "", "") + f"pub(crate) fn root_user(_: &outer::inner::{sname_}) {{ let _ = outer::inner::E::{f}(); }}\n")
        # vis = "pub(crate)" reaches the crate root from a doubly nested module
        for f, call in (("into", "E::V0.into()"), ("MIN", "E::MIN"), ("next", "E::V0.next()"), ("try_from", "E::try_from(0)"), ("as_str", "E::V0.as_str()")):
            s = simple_enum("", "u8", GAPLESS, [(f, {"vis": "pub(crate)"})], vis="pub")
            self.add("C15", f"vis-crate-from-root:{f}", "accept", s,
                     source_override=self._c15_source(s, "", "") + f"pub(crate) fn root_user() {{ let _ = outer::inner::{call}; }}\n")
        # vis = "pub" on a method of a private enum is accepted (the item is as reachable as the enum)
        s = simple_enum("", "u8", GAPLESS, [("into", {"vis": "pub"}), ("next", {"vis": "pub(crate)"})], vis="")
        self.add("C15", "pub-on-private-enum", "accept", s, source_override=self._c15_source(s, "pub fn inside() { let _ = E::V0.into(); let _ = E::V0.next(); }\n", ""))

    def _c15_source(self, s, inside, outside):
        decl = "\n        ".join(s.rust_decl().split("\n"))
        return (HEADER + "pub mod outer {\n    pub mod inner {\n        use enum_tools::EnumTools;\n        " + decl + "\n        " + inside +
                "    }\n    " + outside.replace("super::inner", "super::inner") + "}\n")

    # ---- C19: documented signatures
    def fam_c19(self):
        shapes = [("gapless", "i8", GAPLESS), ("holes", "i8", HOLES), ("holes-neg", "i64", HOLES_NEG)]
        shapes += [(f"gapless-{r}", r, GAPLESS) for r in ("u8", "u16", "i16", "u32", "i32", "u64", "i64", "u128", "i128", "usize", "isize")]
        for sname, r, vals in shapes:
            gap = sname.startswith("gapless")
            if sname.startswith("gapless-") and False:
                continue
            imodes = ["auto", "next_and_back", "table", "table_inline"] + (["range"] if gap else [])
            for sm in (("auto", "match", "table") if "-" not in sname or sname == "holes-neg" else ("auto",)):
                for im in imodes:
                    feats = [("as_str", {"mode": sm}), ("from_str", {"mode": sm}), ("FromStr", {"mode": sm}), ("iter", {"mode": im}),
                             ("names", {}), ("into", {}), ("MAX", {}), ("MIN", {}), ("next", {}), ("next_back", {}), ("try_from", {}),
                             ("Debug", {}), ("Display", {}), ("Into", {}), ("IntoStr", {}), ("TryFrom", {})]
                    if im != "table_inline":
                        feats.append(("range", {}))
                    s = simple_enum("", r, vals, feats)
                    extra = f"""
const C_INTO: {r} = E::V0.into();
const C_ARR: [u8; (E::V1.into() as i128 - E::V0.into() as i128) as usize] = [0; (E::V1.into() as i128 - E::V0.into() as i128) as usize];
const C_MIN: E = E::MIN;
const C_MAX: E = E::MAX;
fn sigs() {{
    let _: fn(E) -> {r} = E::into;
    let _: fn(E) -> ::core::option::Option<E> = E::next;
    let _: fn(E) -> ::core::option::Option<E> = E::next_back;
    let _: fn({r}) -> ::core::option::Option<E> = E::try_from;
    let _: fn(&str) -> ::core::option::Option<E> = E::from_str;
    let _: fn(E) -> &'static str = E::as_str;
    let _: fn() -> EIter = E::iter;
    let _: fn() -> ENames = E::names;
    {'let _: fn(E, E) -> EIter = E::range;' if im != 'table_inline' else ''}
    let _: ::core::result::Result<E, ()> = <E as ::core::convert::TryFrom<{r}>>::try_from(0);
    let _: ::core::result::Result<E, ()> = <E as ::core::str::FromStr>::from_str("x");
    let _: {r} = <{r} as ::core::convert::From<E>>::from(E::V0);
    let _: &'static str = <&'static str as ::core::convert::From<E>>::from(E::V0);
    fn it<T: ::core::iter::Iterator<Item = I> + ::core::iter::DoubleEndedIterator + ::core::iter::ExactSizeIterator + ::core::iter::FusedIterator, I>() {{}}
    it::<EIter, E>();
    it::<ENames, &'static str>();
    fn fmt<T: ::core::fmt::Debug + ::core::fmt::Display>() {{}}
    fmt::<E>();
}}
"""
                    self.add("C19", f"sigs:{sname}:str={sm}:iter={im}", "accept", s, extra=extra)
                    if sm == "auto" and "-" not in sname:
                        # the same ascriptions in a crate without std: an impl that names `::std` is missing there
                        import copy
                        self.add("C19", f"sigs-no_std:{sname}:iter={im}", "accept", copy.deepcopy(s), extra=extra, crate_attrs="#![no_std]\n",
                                 prelude="use ::enum_tools::EnumTools;\n")


        # const-ness is part of the signature: exactly the functions documented as `const fn` are usable in constants, in every
        # configuration (a `const` that appears only with some mode or only on gapless enums makes the signature depend on them)
        try:
            import stages
            doc_const = set(re.findall(r"///\s*`\$vis const fn (\w+)", open(os.path.join(stages.REPO, "src", "lib.rs")).read()))
        except OSError:
            doc_const = {"into"}
        uses = {"into": ("{r}", "E::V0.into()"), "as_str": ("&str", "E::V0.as_str()"), "next": ("::core::option::Option<E>", "E::V0.next()"),
                "next_back": ("::core::option::Option<E>", "E::V1.next_back()"), "try_from": ("::core::option::Option<E>", "E::try_from(1)"),
                "from_str": ("::core::option::Option<E>", "E::from_str(\"V1\")"), "iter": ("EIter", "E::iter()"), "names": ("ENames", "E::names()"),
                "range": ("EIter", "E::range(E::V0, E::V1)")}
        for sname, r, vals in (("gapless", "i8", GAPLESS), ("holes", "i8", HOLES)):
            gap = sname == "gapless"
            cfgs = []
            for sm in ("auto", "match", "table"):
                cfgs.append((f"str={sm}", [("as_str", {"mode": sm}), ("from_str", {"mode": sm}), ("FromStr", {"mode": sm})], ("as_str", "from_str")))
            for steer in (["as_str"], ["as_str", "from_str"], ["as_str", "FromStr"], ["from_str", "Display"], ["as_str", "from_str", "FromStr", "Debug"]):
                cfgs.append(("only=" + "+".join(steer), [(f, {}) for f in steer], tuple(f for f in steer if f in uses)))
            for kind in ("table", "match"):
                cfgs.append((f"cfg={kind}", C.config(kind, gap), ("into", "next", "next_back", "try_from")))
            for im in ["auto", "next_and_back", "table", "table_inline"] + (["range"] if gap else []):
                fs = [("iter", {"mode": im} if im != "auto" else {}), ("names", {})] + ([("range", {})] if im != "table_inline" else [])
                cfgs.append((f"iter={im}", fs, ("iter", "names") + (("range",) if im != "table_inline" else ())))
            for tag, feats, fns in cfgs:
                for fn in fns:
                    ty, call = uses[fn]
                    sx = simple_enum("", r, vals, feats)
                    self.add("C19", f"constness:{fn}:{tag}:{sname}", "accept" if fn in doc_const else "reject", sx,
                             extra=f"const K: {ty.format(r=r)} = {call};\n", model_applies=False, reject_must_mention="E0015")

        # a requested struct name that is also the name of something the generated constructor bodies import
        # (finding D10: `use ::core::iter::Iterator;` / `Option::Some` inside `iter()`, `range()`, `names()`)
        for sn in ("Iterator", "IntoIterator", "Some", "None", "Ok", "Err", "Option", "Result", "Copy", "From", "DoubleEndedIterator"):
            for sname, r, vals, modes in (("gapless", "u8", GAPLESS, ("range", "table", "next_and_back", "table_inline")),
                                          ("holes", "i8", HOLES, ("table", "next_and_back", "table_inline"))):
                for mode in modes:
                    feats = [("iter", {"struct_name": sn, "mode": mode}), ("names", {"struct_name": "Some" if sn != "Some" else "Iterator"})]
                    if mode != "table_inline":
                        feats.append(("range", {}))
                    self.add("C15", f"struct-name-collision:{sn}:{mode}:{sname}", "accept", simple_enum("", r, vals, feats))

    # ---- C16: no_std / no prelude / shadowing (compile side; the run side is the hostile harness)
    def fam_c16(self):
        for sname, r, vals in (("gapless", "i8", GAPLESS), ("holes", "i16", HOLES_NEG)):
            gap = sname == "gapless"
            for kind in ("match", "table", "auto", "alt"):
                feats = C.config(kind, gap)
                s = simple_enum("", r, vals, feats, derives="::core::clone::Clone, ::core::marker::Copy")
                s.derives = "::core::clone::Clone, ::core::marker::Copy"
                self.add("C16", f"no_std:{sname}:{kind}", "accept", s, crate_attrs="#![no_std]\n", prelude="use ::enum_tools::EnumTools;\n")
                s = simple_enum("", r, vals, feats)
                s.derives = "::core::clone::Clone, ::core::marker::Copy"
                self.add("C16", f"no_implicit_prelude:{sname}:{kind}", "accept", s, crate_attrs="#![no_implicit_prelude]\n", prelude="use ::enum_tools::EnumTools;\n")
                s = simple_enum("", r, vals, feats)
                s.derives = "::core::clone::Clone, ::core::marker::Copy"
                self.add("C16", f"hostile:{sname}:{kind}", "accept", s, prelude=HOSTILE_PRELUDE)
                # user crates of the older editions: there `::core::..` written by the *user* would name an item of the crate
                # root; the derive's tokens must keep resolving it as the library, with and without such an item present
                for ed in ("2015", "2018"):
                    for tag, extra in (("plain", ""), ("root-mod-core", "pub mod core { pub mod marker {} pub mod option {} }\n")):
                        if kind in ("table", "auto"):
                            s = simple_enum("", r, vals, feats)
                            s.derives = "Clone, Copy"
                            self.add("C16", f"edition{ed}:{tag}:{sname}:{kind}", "accept", s, prelude="#[macro_use] extern crate enum_tools;\n",
                                     extra=extra, edition=ed)

    # ---- enum identifiers that collide with names the templates use themselves
    def fam_enum_names(self):
        for name in ("B", "F", "T", "I", "Item", "Option", "Some", "None", "Result", "Ok", "Err", "Iterator", "Self_", "Error", "Iter", "Names", "R", "N"):
            for sname, r, vals in (("gapless", "i8", GAPLESS), ("holes", "i8", HOLES)):
                gap = sname == "gapless"
                for kind in ("table", "match", "auto", "alt"):
                    s = simple_enum("", r, vals, C.config(kind, gap))
                    s.ename = name
                    s.derives = "::core::clone::Clone, ::core::marker::Copy"
                    self.add("C16", f"enum-named:{name}:{sname}:{kind}", "accept", s, prelude="use ::enum_tools::EnumTools;\n")

    def build(self):
        self.fam_enum_names()
        self.fam_c10(); self.fam_c11(); self.fam_c12(); self.fam_c13(); self.fam_c14(); self.fam_c15(); self.fam_c19(); self.fam_c16()
        return self


HOSTILE_ITEMS = ["Option", "Some", "None", "Result", "Ok", "Err", "Iterator", "DoubleEndedIterator", "ExactSizeIterator",
                 "FusedIterator", "IntoIterator", "From", "Into", "TryFrom", "TryInto", "FromStr", "Copy", "Clone", "Sized", "FnMut",
                 "Debug", "Display", "Formatter", "RangeInclusive", "MaybeUninit", "Default", "Vec", "String", "Box", "Send", "Sync",
                 "Eq", "PartialEq", "Ord", "PartialOrd", "AsRef", "ToString", "Drop", "Fn", "FnOnce", "Self_"]

HOSTILE_PRELUDE = ("use ::enum_tools::EnumTools;\n" +
                   "".join(f"pub struct {n};\n" for n in HOSTILE_ITEMS) +
                   "pub mod core { pub mod option { pub struct Option; } pub mod mem { pub fn transmute() {} } pub mod iter {} pub mod convert {} }\n"
                   "pub mod std { pub mod option {} }\n"
                   "pub fn transmute() {}\n"
                   "macro_rules! matches { ($($t:tt)*) => { compile_error!(\"user macro matches! captured\") } }\n"
                   "macro_rules! panic { ($($t:tt)*) => { compile_error!(\"user macro panic! captured\") } }\n"
                   "macro_rules! unreachable { ($($t:tt)*) => { compile_error!(\"user macro unreachable! captured\") } }\n"
                   "macro_rules! assert { ($($t:tt)*) => { compile_error!(\"user macro assert! captured\") } }\n"
                   "macro_rules! write { ($($t:tt)*) => { compile_error!(\"user macro write! captured\") } }\n" +
                   "".join(f"macro_rules! {m} {{ ($($t:tt)*) => {{ compile_error!(\"user macro {m}! captured\") }} }}\n"
                           for m in ("concat", "stringify", "format_args", "format", "vec", "println", "print", "line", "column", "file",
                                     "cfg", "env", "option_env", "include_str", "include", "module_path", "debug_assert", "assert_eq",
                                     "assert_ne", "todo", "unimplemented", "writeln", "concat_idents", "const_format_args", "r#try")))


# ------------------------------------------------------------------ running

def find_enum_tools_so(work, log=None):
    """build (or refresh) the proc-macro against /repo and return the .so path"""
    import behav, rustgen
    crate = os.path.join(work, "harness", "warm")
    os.makedirs(crate, exist_ok=True)
    c = C.Corpus(1, "quick")
    c.add_decl("W", "u8", [0, 1], ["auto"])
    rustgen.write_crate(crate, [c.subjects[:1]])
    cmd = ["cargo", "build", "--offline", "--message-format=json", "--lib"]
    p = subprocess.run(cmd, cwd=crate, env=behav.cargo_env(os.path.join(work, "target")), capture_output=True, text=True)
    so = None
    for line in p.stdout.splitlines():
        try:
            m = json.loads(line)
        except Exception:
            continue
        if m.get("reason") == "compiler-artifact" and m.get("target", {}).get("name") == "enum_tools":
            for f in m.get("filenames", []):
                if f.endswith(".so"):
                    so = f
    if so is None:
        raise RuntimeError("could not build enum-tools proc-macro: " + p.stderr[-3000:])
    return so


def compile_probe(args):
    src_path, so, out_dir, edition = args
    cmd = ["rustc", "--edition", edition, "--crate-type", "lib", "--emit=metadata", "--crate-name", "probe",
           "--extern", f"enum_tools={so}", "--out-dir", out_dir, "--error-format=short", "-Awarnings", src_path]
    p = subprocess.run(cmd, capture_output=True, text=True)
    return p.returncode, (p.stderr or "")[:1500]


def run_probes(ps: ProbeSet, work, etmodel, log=print):
    so = find_enum_tools_so(work)
    d = os.path.join(work, "probes", ps.tier)
    subprocess.run(["rm", "-rf", d]); os.makedirs(d)
    jobs = []
    for p in ps.probes:
        sp = os.path.join(d, p.pid + ".rs")
        open(sp, "w").write(p.source())
        od = os.path.join(d, "out_" + p.pid)
        os.makedirs(od)
        jobs.append((sp, so, od, p.edition))
    # model verdicts: chunks run concurrently with rustc (the association-list model of HashMap is quadratic,
    # so each very large declaration gets its own process)
    withm = [p for p in ps.probes if p.subject is not None and p.model_applies]
    big = [[p] for p in withm if len(p.subject.variants) > 5000]
    small = [p for p in withm if len(p.subject.variants) <= 5000]
    chunks = big + [small[i::8] for i in range(8) if small[i::8]]

    def run_chunk(args):
        k, chunk = args
        proto = os.path.join(d, f"model_in_{k}.txt")
        with open(proto, "w") as f:
            for p in chunk:
                f.write("\n".join(p.subject.proto_decl()) + "\n")
        mp = subprocess.run([etmodel], stdin=open(proto), capture_output=True, text=True)
        return mp.stdout

    with ThreadPoolExecutor(max_workers=16) as ex:
        mf = [ex.submit(run_chunk, (k, c)) for k, c in enumerate(chunks)]
        results = list(ex.map(compile_probe, jobs))
        mouts = [f.result() for f in mf]
    for _, _, od, _ in jobs:
        subprocess.run(["rm", "-rf", od])
    model = {}
    for text in mouts:
        for l in text.splitlines():
            t = l.split(" ", 2)
            if len(t) >= 3 and t[1] == "DECL":
                model[t[0]] = t[2]
    out = []
    from subject import to_json
    for p, (rc, err) in zip(ps.probes, results):
        verdict = "accept" if rc == 0 else "reject"
        if rc != 0 and p.reject_must_mention and not re.search(p.reject_must_mention, err):
            verdict = "reject-for-another-reason"
        m = model.get(p.pid)
        out.append({"pid": p.pid, "prop": p.prop, "cls": p.cls, "expect": p.expect, "impl": verdict,
                    "model": (m.split(" ")[0] if m else None), "model_detail": m, "error": err if rc != 0 else "",
                    "source": p.source() if len(p.source()) < 6000 else p.source()[:6000] + "\n…",
                    "subject": to_json(p.subject) if (p.subject is not None and len(p.subject.variants) < 50) else None})
    return {"probes": out, "so": so}
