"""C16, run side: the same declarations compiled and run inside hostile scopes (shadowed prelude
names and macros; no_implicit_prelude); transcripts must equal the specification's."""
import copy
import os

import stages


def build_corpus(seed, tier):
    import corpus as C
    base = C.Corpus(seed, tier)
    base.fam_regressions()
    base.fam_general()
    base.fam_names()
    out = C.Corpus(seed, tier)
    lim = 120 if tier == "thorough" else 36
    # enums and variants named like the things the generated code mentions come first, so that they are inside the limit
    named = C.Corpus(seed, tier)
    named.fam_idents()
    picked = [s for i, s in enumerate(named.subjects) if i % 2 == 0][:26]
    for s in picked:
        base.ops[s.sid] = named.ops[s.sid]
    lim += len(picked)
    k = 0
    for s in picked + base.subjects:
        if len(s.variants) > 300 or k >= lim:
            continue
        for mode in ("shadow", "noprelude"):
            t = copy.deepcopy(s)
            t.sid = f"H{mode[0]}{s.sid}"
            t.derives = "::core::clone::Clone, ::core::marker::Copy"
            if "Ord" in s.derives:
                t.derives += ", ::core::cmp::PartialEq, ::core::cmp::Eq, ::core::cmp::PartialOrd, ::core::cmp::Ord"
            t.hostile = mode
            t.family = "H" + mode
            out.subjects.append(t)
            out.ops[t.sid] = base.ops[s.sid]
        k += 1
    return out


def stage(seed, tier):
    def compute():
        import behav
        stages.lean_stage(seed, tier)
        c = build_corpus(seed, tier)
        r = behav.run_stage(c, tier, tag="hostile-" + tier, log=stages.log)
        r["transcripts"] = {}
        r["model_tables"] = {}
        return r
    return stages.cached("hostile", seed, tier, compute, lockname="cargo")


def evaluate(ctx, out):
    r = stage(ctx.seed, ctx.tier)
    cov = out.evidence["coverage"]
    cov["hostile_subjects"] = r["n_subjects"]
    cov["hostile_operations"] = r["n_ops"]
    cov["evaluations"] = cov.get("evaluations", 0) + r["n_ops"]
    cov["traces_validated_against_impl"] = cov.get("traces_validated_against_impl", 0) + r["n_ops"]
    cov["distinct_nontrivial"] = cov.get("distinct_nontrivial", 0) + sum(st["distinct"] for st in r["per_prop"].values())
    cov["hostile_compile_failures"] = len(r["compile_fail"])
    cov["hostile_mismatches"] = r.get("n_mismatches", 0)
    cov["rule"] = cov.get("rule", "") + ("; run side: corpus declarations placed in a module that shadows prelude/core names and macros, and in a "
                                       "#[no_implicit_prelude] module, compiled, run on the full operation scripts and compared with the specification")
    for m in sorted(r["compile_fail"], key=lambda m: len(m["decl"]))[:2]:
        out.violations.append({"property": "C16", "kind": "does-not-compile-in-hostile-scope", "declaration": m["decl"],
                               "rustc_error": m["error"], "note": m["note"], "witness_key": "hostile-compile"})
    import props
    for m in props.pick_minimal(r["mismatches"])[:2]:
        out.violations.append(props.behav_violation(ctx, m, r, "behaviour-differs-in-hostile-scope"))
