"""C17: expansions of the same source in K fresh compiler processes must be byte-identical."""
import stages


def expand_stage(seed, tier):
    def compute():
        import corpus as C
        import expand
        b = stages.behav_stage(seed, tier)
        c = C.Corpus(seed, tier).build()
        k = 24 if tier == "thorough" else 6
        r = expand.run(c, tier, stages.WORK, k, exclude={m['sid'] for m in b['compile_fail']})
        by = {s.sid: s for s in c.subjects}
        sdiffs = []
        checked = 0
        for sid in r["sids"]:
            if sid not in b["model_tables"]:
                continue
            ext = expand.extract(r["modules"][sid], by[sid])
            checked += 1
            if not b["model_tables"][sid].startswith("ranges="):
                # the model (with the modules regenerated on this run) does not accept a declaration the derive expands
                sdiffs.append({"what": "the model rejects the declaration, the derive expands it", "model": b["model_tables"][sid][:200],
                               "expansion": "expanded", "props": ["C10", "C11", "C13", "C15"], "sid": sid,
                               "decl": by[sid].rust_decl()[:3000], "note": by[sid].note})
                continue
            mt = expand.parse_model_tables(b["model_tables"][sid])
            for d in expand.compare_structure(by[sid], ext, mt):
                d["sid"] = sid
                d["decl"] = by[sid].rust_decl()[:3000]
                d["note"] = by[sid].note
                sdiffs.append(d)
        sample = r["modules"][r["sids"][0]][:1500] if r["sids"] else ""
        r["modules"] = {}
        r["struct_checked"] = checked
        r["struct_diffs"] = sdiffs[:500]
        r["sample_module"] = sample
        return r
    return stages.cached("expand", seed, tier, compute, lockname="cargo")


def evaluate(ctx, out):
    r = expand_stage(ctx.seed, ctx.tier)
    cov = out.evidence["coverage"]
    cov["evaluations"] = 2 * r["k_runs"] * r["n_subjects"]
    cov["distinct_nontrivial"] = r["n_subjects"]
    cov["fresh_processes"] = r["k_runs"]
    cov["expansion_bytes"] = r["bytes"]
    cov["expansion_hashes"] = sorted(set(r["hashes"]))
    cov["traces_validated_against_impl"] = r["k_runs"]
    cov["rule"] = ("the declarations of %d corpus subjects (many variants, discriminants spread over the whole i64 range, renames, all "
                   "configurations) expanded with `rustc -Zunpretty=expanded` in %d fresh processes (each with fresh RandomState keys, and under four different sets of CARGO_CFG_* / TARGET / PROFILE / locale variables in the environment); "
                   "every declaration is expanded twice per process at different positions; all dumps and both copies must be byte-identical; a subject is non-trivial when it has at least two variants"
                   % (r["n_subjects"], r["k_runs"]))
    cov["samples"] = [{"expansion_excerpt": r.get("sample_module", "")[:900]}]
    for d in r["diffs"][:2]:
        out.violations.append({"property": "C17", "kind": "expansion-differs-between-processes", "subject_id": d["sid"],
                               "line_in_first_run": d["line_a"], "line_in_other_run": d["line_b"], "run": d["run"],
                               "witness_key": "nondeterministic-expansion"})
