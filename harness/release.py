"""Thorough tier of C02: a reduced corpus built with the release profile (optimisations on, overflow checks and
`ub_checks` off).  Generated code that only works because a debug assertion never fires, or arithmetic that relies on
the overflow panic, shows up here as a result that differs from the specification's."""
import stages


def stage(seed, tier):
    def compute():
        import behav
        import miri
        stages.lean_stage(seed, tier)
        c = miri.build_corpus(seed, tier, per_family={"R": 60, "X": 120, "G": 40, "B": 4, "N": 10}, max_variants=300, ops_per_kind=(40, 20))
        r = behav.run_stage(c, tier, profile="release", tag="release-" + tier, log=stages.log, translated=False)
        r["transcripts"] = {}
        r["model_tables"] = {}
        return r
    return stages.cached("release", seed, tier, compute, lockname="cargo")


def evaluate(ctx, out):
    import props
    r = stage(ctx.seed, ctx.tier)
    cov = out.evidence["coverage"]
    cov["release_profile_subjects"] = r["n_subjects"]
    cov["release_profile_operations"] = r["n_ops"]
    cov["release_profile_mismatches"] = r["n_mismatches"]
    cov["release_profile_wall_s"] = r["t_total_s"]
    cov["evaluations"] = cov.get("evaluations", 0) + r["n_ops"]
    for m in props.pick_minimal(r["mismatches"])[:2]:
        out.violations.append(props.behav_violation(ctx, m, r, "differs-in-release-profile"))
