"""Render subjects into a Rust harness crate (path-dep on /repo) and protocol/ops files."""
import os
import shutil
from typing import Dict, List

from subject import Subject, REPRS

HERE = os.path.dirname(os.path.abspath(__file__))

DEFAULT_NAMES = {
    "as_str": "as_str", "from_str": "from_str", "into": "into", "MAX": "MAX", "MIN": "MIN",
    "next": "next", "next_back": "next_back", "try_from": "try_from", "iter": "iter",
    "names": "names", "range": "range",
}


def fn_name(feats: Dict[str, dict], key: str) -> str:
    return feats.get(key, {}).get("name") or DEFAULT_NAMES[key]


def lit(d: int, r: str) -> str:
    return f"{d}{r}"


def glue(s: Subject) -> str:
    """Rust module for one (accepted) subject: the declaration plus the op dispatcher."""
    r = s.repr
    feats = s.features()
    E = s.ename
    sd = s.sorted_discs()
    arms = []
    en = lambda e: f"({e} as {r}).to_string()"
    if "try_from" in feats:
        arms.append(f'"tf" => hc::opt({E}::{fn_name(feats, "try_from")}(t[1].parse::<{r}>().unwrap()).map(|e| e as {r})),')
    if "TryFrom" in feats:
        arms.append(f'"tt" => hc::opt(<{E} as ::core::convert::TryFrom<{r}>>::try_from(t[1].parse::<{r}>().unwrap()).ok().map(|e| e as {r})),')
    if "into" in feats:
        arms.append(f'"into" => {E}::{fn_name(feats, "into")}(ev(t[1])).to_string(),')
    if "Into" in feats:
        arms.append(f'"Into" => <{r} as ::core::convert::From<{E}>>::from(ev(t[1])).to_string(),')
    if "next" in feats:
        arms.append(f'"next" => hc::opt({E}::{fn_name(feats, "next")}(ev(t[1])).map(|e| e as {r})),')
    if "next_back" in feats:
        arms.append(f'"nb" => hc::opt({E}::{fn_name(feats, "next_back")}(ev(t[1])).map(|e| e as {r})),')
    if "MIN" in feats:
        arms.append(f'"min" => ({E}::{fn_name(feats, "MIN")} as {r}).to_string(),')
    if "MAX" in feats:
        arms.append(f'"max" => ({E}::{fn_name(feats, "MAX")} as {r}).to_string(),')
    if "as_str" in feats:
        arms.append(f'"as" => hc::hex({E}::{fn_name(feats, "as_str")}(ev(t[1]))),')
    if "Display" in feats:
        arms.append('"disp" => hc::hex(&format!("{}", ev(t[1]))),')
    if "Debug" in feats:
        arms.append('"dbg" => hc::hex(&format!("{:?}", ev(t[1]))),')
    if "IntoStr" in feats:
        arms.append(f'"istr" => hc::hex(<&\'static str as ::core::convert::From<{E}>>::from(ev(t[1]))),')
    if "from_str" in feats:
        arms.append(f'"fs" => hc::opt({E}::{fn_name(feats, "from_str")}(&hc::unhex(t[1])).map(|e| e as {r})),')
    if "FromStr" in feats:
        arms.append(f'"ft" => hc::opt(<{E} as ::core::str::FromStr>::from_str(&hc::unhex(t[1])).ok().map(|e| e as {r})),')
    # `min()` / `max()` need `Ord` on the item: always there for names, for the enum only when the subject derives it
    mm_ord = "|it, m| if m { ::core::iter::Iterator::min(it) } else { ::core::iter::Iterator::max(it) }"
    mm_enum = mm_ord if "Ord" in s.derives else "|_it, _m| ::core::option::Option::None"
    if "iter" in feats:
        arms.append(f'"iter" => hc::run_iter({E}::{fn_name(feats, "iter")}(), &t[1..], |e| {en("e")}, {mm_enum}),')
    if "range" in feats:
        arms.append(f'"range" => hc::run_iter({E}::{fn_name(feats, "range")}(ev(t[1]), ev(t[2])), &t[3..], |e| {en("e")}, {mm_enum}),')
    if "names" in feats:
        arms.append(f'"names" => hc::run_iter({E}::{fn_name(feats, "names")}(), &t[1..], |n| hc::hex(n), {mm_ord}),')
    all_tbl = ", ".join(f"({lit(d, r)}, {E}::{ident})" for d, ident, _ in sd)
    decl = "\n    ".join(s.rust_decl().split("\n"))
    arms_s = "\n                ".join(arms)
    hostile = getattr(s, "hostile", "")
    if hostile:
        import probes
        inner = "\n        ".join(s.rust_decl().split("\n"))
        if hostile == "shadow":
            pre = "\n        ".join(probes.HOSTILE_PRELUDE.split("\n"))
            # a user trait offering same-named methods for the enum must not capture the derive's calls
            hj = ""
            if "as_str" in feats:
                an = fn_name(feats, "as_str")
                hj = (f"\n        pub trait Label {{ fn {an}(&self) -> &'static str; }}"
                      f"\n        impl Label for {E} {{ fn {an}(&self) -> &'static str {{ \"hijacked\" }} }}")
            head = f"pub mod hostile {{\n        {pre}\n        {inner}{hj}\n    }}\n    use self::hostile::{E};"
        else:
            head = f"#[no_implicit_prelude]\n    pub mod hostile {{\n        use ::enum_tools::EnumTools;\n        {inner}\n    }}\n    use self::hostile::{E};"
    else:
        head = f"use enum_tools::EnumTools;\n    {decl}"
    return f"""
#[allow(dead_code, unused_imports, unused_variables, non_camel_case_types, non_snake_case, non_upper_case_globals, unreachable_patterns, unused_macros, clippy::all)]
pub mod m_{s.sid} {{
    {head}
    const ALL: &[({r}, {E})] = &[{all_tbl}];
    fn ev(s: &str) -> {E} {{
        let d: {r} = s.parse().unwrap();
        ALL[ALL.binary_search_by_key(&d, |p| p.0).unwrap()].1
    }}
    pub struct S;
    impl hc::Subject for S {{
        fn id(&self) -> &'static str {{ "{s.sid}" }}
        fn op(&self, t: &[&str]) -> String {{
            match t[0] {{
                {arms_s}
                _ => "DISABLED".to_string(),
            }}
        }}
    }}
}}
"""


def write_crate(crate_dir: str, bins: List[List[Subject]], repo: str = os.environ.get("VERIF_REPO", "/repo")):
    """bins[k] = subjects compiled into binary bK"""
    src = os.path.join(crate_dir, "src")
    bind = os.path.join(src, "bin")
    if os.path.isdir(bind):
        shutil.rmtree(bind)
    os.makedirs(bind, exist_ok=True)
    with open(os.path.join(crate_dir, "Cargo.toml"), "w") as f:
        f.write(f"""[package]
name = "eth"
version = "0.0.0"
edition = "2021"

[workspace]

[lib]
name = "hc"
path = "src/lib.rs"

[dependencies]
enum-tools = {{ path = "{repo}" }}

[profile.dev]
debug = false
incremental = false

[profile.release]
debug = false
incremental = false
""")
    os.makedirs(os.path.join(crate_dir, ".cargo"), exist_ok=True)
    with open(os.path.join(crate_dir, ".cargo", "config.toml"), "w") as f:
        f.write("[net]\noffline = true\n")
    lock_src = os.path.join(repo, "Cargo.lock")
    lock_dst = os.path.join(crate_dir, "Cargo.lock")
    if os.path.exists(lock_src) and not os.path.exists(lock_dst):
        shutil.copy(lock_src, lock_dst)
    _write_if_changed(os.path.join(src, "lib.rs"), open(os.path.join(HERE, "templates", "hc_lib.rs")).read())
    for k, subs in enumerate(bins):
        parts = ["// generated\n"]
        for s in subs:
            parts.append(glue(s))
        regs = ", ".join(f"&m_{s.sid}::S" for s in subs)
        parts.append(f"\nfn main() {{\n    let subjects: Vec<&dyn hc::Subject> = vec![{regs}];\n    hc::main_loop(&subjects);\n}}\n")
        _write_if_changed(os.path.join(bind, f"b{k}.rs"), "".join(parts))


def _write_if_changed(path, text):
    if os.path.exists(path) and open(path).read() == text:
        return
    with open(path, "w") as f:
        f.write(text)
