"""Per-property evaluation: which theorems, which correspondence stages, how a disagreement is
classified, what goes into the evidence file."""
import json
import os
import re
import subprocess
import sys

import stages

VERIF = stages.VERIF

TRUSTED_BASE = [
    "Lean 4.33.0 kernel; axioms limited to propext, Classical.choice, Quot.sound (audited by #print axioms on every property theorem on every run); no native_decide/bv_decide/sorry/axiom",
    "hand-written Lean model of the derive's macro-time program (lean/EnumToolsModel/{Parse,Config,Macro}.lean), tied to /repo by accept/reject probes and by comparing the tables/items/modes it predicts with the real expansion; hand-written reading of the generated code (Gen.lean, Iter.lean), tied to /repo twice: behaviourally (real derive under rustc vs compiled model vs specification, same declarations and operations) and by proof against the function bodies translated from the quote! templates on this run (Lemmas/TemplatesEq.lean, TemplatesRun.lean)",
    "translator /verif/translate (python) regenerating lean/EnumToolsModel/Generated/*.lean from /repo/src on every run, incl. Templates.lean (the generated function bodies); its source-level normalisations (canonical names of the `Names` fields, inlined template helpers and fragments, comparisons reduced to < and =) and the meaning it gives to interpolated names are part of this trust; its output for the templates is executed against the real derive on the whole corpus (third column T=)",
    "lean/EnumToolsModel/Rust.lean: the semantics given to the Rust constructs that occur in template bodies (casts, wrapping and checked arithmetic, indexing/slicing and their panics, transmute validity = declared discriminant, unwrap_unchecked/assume_init UB, for/loop shapes, first-match semantics of match)",
    "rustc/cargo 1.95.0 as executor of the real derive; the generated corpus, probes, comparer and replay writer in /verif/harness",
    "modelled, not verified: core's slice/array/RangeInclusive iterators as list cursors and core's provided Iterator methods (nth, last, count, fold, min, max, … defined from next/next_back), the nine forwarding methods of extend_common (wiring checked over the inventory), the macro-time construction of the tables (compared with the real expansion), syn/quote/proc-macro-error behaviour, HashMap as an association map with arbitrary iteration order, rustc's typing, privacy and name resolution",
]

BEHAV_KINDS = {
    "C01": ["tf", "tt", "into", "Into"],
    "C03": ["as", "disp", "dbg", "istr"],
    "C04": ["fs", "ft"],
    "C05": ["next", "nb", "min", "max"],
    "C06": ["iter"],
    "C07": ["range"],
    "C08": ["names", "as"],   # names() must stay aligned with as_str of the same variant
}
ALL_BEHAV = sorted({k for v in BEHAV_KINDS.values() for k in v})


class Ctx:
    def __init__(self, pid, tier, seed):
        self.pid, self.tier, self.seed = pid, tier, seed
        self._lean = None
        self._behav = None

    @property
    def lean(self):
        if self._lean is None:
            self._lean = stages.lean_stage(self.seed, self.tier)
        return self._lean

    @property
    def behav(self):
        if self._behav is None:
            self._behav = stages.behav_stage(self.seed, self.tier)
        return self._behav


class Outcome:
    def __init__(self):
        self.violations = []
        self.evidence = {"coverage": {}, "assumptions": []}


# ------------------------------------------------------------------ proof part

def module_imports(mod, target_prefix, seen=None):
    """does lean module `mod` (transitively) import a module whose name starts with `target_prefix`?"""
    seen = seen if seen is not None else set()
    if mod in seen:
        return False
    seen.add(mod)
    if mod.startswith(target_prefix):
        return True
    p = os.path.join(stages.LEAN_DIR, *mod.split(".")) + ".lean"
    if not os.path.exists(p):
        return False
    for m in re.findall(r"^import\s+(\S+)", open(p).read(), re.M):
        if m.startswith("EnumToolsModel") and module_imports(m, target_prefix, seen):
            return True
    return False


def module_imports_generated(mod):
    return module_imports(mod, "EnumToolsModel.Generated")


def proof_part(ctx, out, extra_modules=()):
    """fills obligations/discharged; returns list of proof-side problems attributable to /repo"""
    lean = ctx.lean
    thms = lean.get("theorems", {}).get(ctx.pid, [])
    axioms = lean.get("axioms", {})
    discharged = [t for t in thms if t in axioms and not (set(axioms[t]) - stages.ALLOWED_AXIOMS)]
    cov = out.evidence["coverage"]
    cov["obligations"] = len(thms)
    cov["discharged"] = len(discharged)
    cov["theorems"] = thms
    cov["axioms_used"] = sorted({a for t in thms for a in axioms.get(t, [])})
    cov["checker_cmd"] = "cd /verif/lean && lake build && lake env lean ../work/Audit.lean   (run by ./check; thorough also: lake env leanchecker EnumToolsModel.Thm." + ctx.pid + ")"
    cov["trusted_base"] = TRUSTED_BASE
    cov["translator"] = lean.get("translator", {})
    problems = []
    if not lean.get("ok", False):
        for e in lean.get("errors", []):
            if e["kind"] == "translator":
                if module_imports(f"EnumToolsModel.Thm.{ctx.pid}", e["module"]):
                    problems.append({"kind": "translator", "module": e["module"], "msg": e["msg"]})
            elif e["kind"] == "build":
                if ctx.pid in lean.get("thm_modules_built", []):
                    continue  # this property's theorems (and everything they import) still check
                failed = lean.get("failed_modules", [])
                culprits = [m for m in failed if module_imports(f"EnumToolsModel.Thm.{ctx.pid}", m)]
                hand = [m for m in culprits if not module_imports_generated(m)]
                if hand or not culprits:
                    raise RuntimeError("hand-written Lean module failed to build (edit of /verif?): " + ", ".join(hand or failed)
                                       + "\n" + lean.get("build_tail", "")[-3000:])
                problems.append({"kind": "proof", "msg": "theorem module(s) over the regenerated model no longer check: "
                                 + ", ".join(culprits), "build_tail": lean.get("build_tail", "")[-3000:]})
            elif e["kind"] in ("forbidden", "axioms", "audit"):
                raise RuntimeError(f"Lean audit failed ({e['kind']}): {e['msg'][:2000]}")
    if ctx.tier == "thorough" and lean.get("ok") and thms:
        q = subprocess.run(["lake", "env", "leanchecker", f"EnumToolsModel.Thm.{ctx.pid}"], cwd=stages.LEAN_DIR,
                           capture_output=True, text=True)
        cov["leanchecker_rc"] = q.returncode
        if q.returncode != 0:
            raise RuntimeError("leanchecker rejected EnumToolsModel.Thm." + ctx.pid + ": " + (q.stdout + q.stderr)[-2000:])
    return problems


def no_input_violation(ctx, problem, searched):
    return {"property": ctx.pid, "no_failing_input": True, "what_no_longer_checks": problem,
            "searched": searched}


# ------------------------------------------------------------------ behavioural part

def pick_minimal(ms):
    return sorted(ms, key=lambda m: (m.get("impl") == "MISSING", m.get("nvariants", 0), len(m.get("op", "")), m.get("sid", "")))


def behav_violation(ctx, m, b, kind="impl-differs-from-spec"):
    return {"property": ctx.pid, "kind": kind, "subject": b.get("bad_subjects", {}).get(m["sid"]),
            "declaration": m.get("decl"), "operation": m.get("op"), "implementation": m.get("impl"),
            "specification": m.get("spec"), "model": m.get("model"), "note": m.get("note"),
            "witness_key": f"{m.get('note', '')}|{m.get('op', '')}"}


ENUM_RESULT_KINDS = {"tf", "tt", "next", "nb", "fs", "ft", "iter", "range", "min", "max"}


def values_in(s):
    return [int(x) for x in re.findall(r"(?<![LHC\d,])-?\d+", re.sub(r"[LHC]\d+(,\d+|,-)?", "", s))]


def eval_behavioural(ctx, out, kinds, problems):
    b = ctx.behav
    cov = out.evidence["coverage"]
    ops = 0
    distinct = 0
    kind_counts = {}
    for p, st in b["per_prop"].items():
        for k, n in st["kinds"].items():
            if k in kinds:
                kind_counts[k] = kind_counts.get(k, 0) + n
    ops = sum(kind_counts.values())
    mism = [m for m in b["mismatches"] if m["op"].split(" ")[0] in kinds]
    defects = [m for m in b["model_defects"] if m["op"].split(" ")[0] in kinds]
    cov["evaluations"] = ops
    cov["traces_validated_against_impl"] = ops
    cov["op_kinds"] = kind_counts
    cov["subjects"] = b["n_subjects"]
    cov["input_distribution"] = {"families": b["families"], "reprs": b["repr_dist"], "sizes": b["size_dist"]}
    cov["rule"] = ("operations of kinds %s on every corpus subject (seeded corpus: regression witnesses, exhaustive small-scope "
                   "windows at the ends of i8/u8 and around 0, random run patterns over all 12 reprs, odd/duplicate renames, "
                   "large enums, metamorphic repr/order families, random all-auto feature subsets); an evaluation is distinct "
                   "when its (subject, operation text) pair is; all are non-trivial in that each is compared with the "
                   "specification computed independently from the declaration") % ",".join(kinds)
    cov["distinct_nontrivial"] = sum(st["distinct"] for p, st in b["per_prop"].items()
                                     if any(k in kinds for k in st["kinds"]))
    cov["implementation_vs_spec_failures"] = len(mism)
    cov["model_vs_implementation_disagreements"] = len(defects)
    tdef = [m for m in b.get("translated_defects", []) if m["op"].split(" ")[0] in kinds]
    cov["translated_templates_evaluated"] = b.get("n_translated_ops", 0)
    cov["translated_vs_implementation_disagreements"] = len(tdef)
    for m in pick_minimal(mism)[:3]:
        out.violations.append(behav_violation(ctx, m, b))
    if not mism:
        for m in pick_minimal(defects)[:1]:
            v = behav_violation(ctx, m, b, "model-differs-from-implementation")
            v["no_failing_input"] = True
            v["what_no_longer_checks"] = "behavioural correspondence between lean/EnumToolsModel/Gen.lean and the derive's output"
            out.violations.append(v)
        if not defects:
            for m in pick_minimal(tdef)[:1]:
                v = behav_violation(ctx, m, b, "translated-template-differs-from-implementation")
                v["no_failing_input"] = True
                v["what_no_longer_checks"] = ("behavioural correspondence between the function bodies translated from /repo/src "
                                              "(lean/EnumToolsModel/Generated/Templates.lean) and the derive's output")
                out.violations.append(v)
    # a corpus declaration (all are inside the supported domain) that the derive does not compile any more:
    # the items this property speaks about do not exist for it
    cov["subjects_failed_to_compile"] = len(b.get("compile_fail", []))
    for m in sorted(b.get("compile_fail", []), key=lambda m: len(m["decl"]))[:1]:
        out.violations.append({"property": ctx.pid, "kind": "in-domain-declaration-does-not-compile", "declaration": m["decl"],
                               "rustc_error": m["error"], "model": m["model"], "note": m["note"],
                               "witness_key": m["note"].split(" cfg=")[0]})
    # the same for a user crate without std: the documented configurations compiled as `#![no_std]` crates (probe classes no_std:* and
    # sigs-no_std:*); an item whose generated code names `::std` does not exist there
    pr = stages.probe_stage(ctx.seed, ctx.tier)
    nostd = [p for p in pr["probes"] if p["cls"].startswith(("no_std:", "sigs-no_std:"))]
    cov["no_std_crates_compiled"] = len(nostd)
    for p in sorted((p for p in nostd if p["impl"] != p["expect"]), key=lambda p: len(p["source"]))[:1]:
        out.violations.append({"property": ctx.pid, "kind": "does-not-compile-in-a-no_std-crate", "probe_class": p["cls"], "source": p["source"],
                               "rustc_error": p.get("error", "")[:1200], "witness_key": "no_std"})
    # the theorems speak about declarations the model accepts; a declaration the model rejects and the derive accepts is outside them
    # (e.g. a discriminant expression the parser now reads, possibly with a value that is not the compiler's)
    wider = [p for p in pr["probes"] if p.get("model") == "reject" and p["impl"] == "accept" and p["expect"] == "reject"]
    cov["declarations_accepted_beyond_the_model"] = len(wider)
    if wider and not out.violations:
        p = sorted(wider, key=lambda p: len(p["source"]))[0]
        out.violations.append({"property": ctx.pid, "kind": "declaration-accepted-beyond-the-model", "no_failing_input": True,
                               "what_no_longer_checks": "accept/reject correspondence: the derive accepts a declaration that the model (and the property's domain) rejects, so the theorems about accepted declarations do not cover it",
                               "probe_class": p["cls"], "source": p["source"]})
    out.searched = f"{ops} operations of kinds {kinds} on {b['n_subjects']} subjects: implementation == specification on all"
    return mism


def sample_ops(ctx, kinds, n=4):
    """a few concrete cases, re-read from the ops files of this run"""
    out = []
    od = os.path.join(stages.WORK, "harness", ctx.tier, "ops")
    try:
        for fn in sorted(os.listdir(od))[:3]:
            cur = None
            for l in open(os.path.join(od, fn)):
                t = l.split()
                if t and t[0] == "DECL":
                    cur = t[1]
                elif t and t[0] == "OP" and t[2] in kinds and len(out) < n and len(l) < 200:
                    if all(o["subject"] != cur or o["op"].split()[0] != t[2] for o in out):
                        out.append({"subject": cur, "op": " ".join(t[2:])})
    except OSError:
        pass
    return out


def eval_group_consistency(ctx, out, group_prefixes, label):
    """same declaration under different configurations / reprs / orders: same results on shared ops"""
    b = ctx.behav
    tr = b["transcripts"]
    groups = {g: sids for g, sids in b["groups"].items() if g.split(":")[0] in group_prefixes and len(sids) > 1}
    compared = 0
    pairs = 0
    diffs = []
    for g, sids in groups.items():
        seen = {}
        for sid in sids:
            for op, res in tr.get(sid, {}).items():
                if op in seen:
                    pairs += 1
                    if seen[op][1] != res:
                        diffs.append({"group": g, "op": op, "a": seen[op][0], "a_result": seen[op][1], "b": sid, "b_result": res})
                else:
                    seen[op] = (sid, res)
        compared += len(seen)
    cov = out.evidence["coverage"]
    cov[label + "_groups"] = len(groups)
    cov[label + "_shared_op_comparisons"] = pairs
    cov[label + "_differences"] = len(diffs)
    return groups, pairs, diffs


# ------------------------------------------------------------------ known findings

def match_known(pid, v, known):
    for k in known.get("findings", []):
        if k.get("status", "open") != "open" or k["property"] != pid:
            continue
        key = k.get("match", {})
        if all(str(v.get(f, "")) == str(val) for f, val in key.items()):
            return k
    return None


# ------------------------------------------------------------------ evaluation entry

def evaluate(ctx):
    out = Outcome()
    pid = ctx.pid
    problems = proof_part(ctx, out)
    out.problems = problems
    cov = out.evidence["coverage"]
    if pid in BEHAV_KINDS:
        eval_behavioural(ctx, out, BEHAV_KINDS[pid], problems)
        cov["samples"] = sample_ops(ctx, BEHAV_KINDS[pid])
    elif pid == "C02":
        mism = eval_behavioural(ctx, out, ALL_BEHAV, problems)
        beyond = [v for v in out.violations if v.get("kind") == "declaration-accepted-beyond-the-model"]
        out.violations = []
        b = ctx.behav
        sem = {sid: meta.get("sem") for sid, meta in b["subject_meta"].items()}
        ub = []
        for m in b["mismatches"]:
            k = m["op"].split(" ")[0]
            bad = "ABORT" in m["impl"]
            if not bad and k in ENUM_RESULT_KINDS and sem.get(m["sid"]):
                declared = {d for d, _ in sem[m["sid"]]}
                bad = any(x not in declared for x in values_in(m["impl"])) if k not in ("iter", "range") else \
                    any(x not in declared for x in values_in(m["impl"]))
            if bad:
                ub.append(m)
        cov["aborted_operations"] = len(b["aborted"])
        cov["non_variant_or_abort_results"] = len(ub)
        for m in pick_minimal(ub)[:3]:
            out.violations.append(behav_violation(ctx, m, b, "undefined-behaviour-indicator"))
        if not out.violations:
            # a declaration outside the model's domain is accepted: its discriminants may not be the compiler's, and the transmutes rest on them
            out.violations += beyond
        out.searched = "all behavioural operations: no abort, no non-variant value"
        if ctx.tier == "thorough":
            import miri
            miri.evaluate(ctx, out)
            import release
            release.evaluate(ctx, out)
            import primitives
            primitives.evaluate(ctx, out)
            cov["rule"] += "; thorough: a reduced corpus (regression, small-scope and general families, every kind of operation) is also run under Miri, and a larger one built with the release profile"
        cov["rule"] += "; for C02 a result counts as a failure when the process aborts (ub_checks / debug assertions are on) or a yielded discriminant is not a declared one"
        cov["samples"] = sample_ops(ctx, ALL_BEHAV)
    elif pid in ("C09", "C18"):
        eval_behavioural(ctx, out, ALL_BEHAV, problems)
        pref = ["R", "X", "G", "N", "B", "A"] if pid == "C09" else ["M"]
        groups, pairs, diffs = eval_group_consistency(ctx, out, pref, "cross_config" if pid == "C09" else "cross_repr_order")
        b = ctx.behav
        for d in diffs[:3]:
            out.violations.append({"property": pid, "kind": "results-differ-between-configurations" if pid == "C09" else "results-differ-between-reprs-or-orders",
                                   "operation": d["op"], "subject_a": b.get("bad_subjects", {}).get(d["a"], d["a"]),
                                   "a_result": d["a_result"], "subject_b": b.get("bad_subjects", {}).get(d["b"], d["b"]),
                                   "b_result": d["b_result"], "group": d["group"]})
        cov["rule"] += ("; additionally every operation text shared by two subjects of one group (same declaration under "
                        "different configurations for C09; same discriminant-to-name map under different reprs and declaration orders for C18) "
                        "must give byte-identical results")
        cov["samples"] = [{"group": g, "members": sids[:6]} for g, sids in list(groups.items())[:3]]
    else:
        import props_static
        props_static.evaluate(ctx, out, problems)
    if pid != "C17":
        import determinism
        ex = determinism.expand_stage(ctx.seed, ctx.tier)
        mine = [d for d in ex.get("struct_diffs", []) if pid in d["props"]]
        cov["structural_subjects_checked"] = ex.get("struct_checked", 0)
        cov["structural_differences"] = len(mine)
        asked = [d for d in mine if d.get("differs_from_request")]
        if asked and pid == "C15":
            d = asked[0]
            out.violations.append({"property": pid, "kind": "item-differs-from-what-the-declaration-requests", "difference": d["what"],
                                   "requested": d["differs_from_request"], "expansion": d["expansion"], "declaration": d["decl"], "note": d["note"],
                                   "witness_key": "requested-" + d["what"].split(" ")[-1]})
        if mine and not out.violations:
            d = mine[0]
            out.violations.append({"property": pid, "kind": "expansion-differs-from-model-prediction", "no_failing_input": True,
                                   "what_no_longer_checks": "structural correspondence (tables / items / visibilities / modes found in the real expansion vs predicted by the Lean model)",
                                   "difference": d["what"], "model": d["model"], "expansion": d["expansion"], "declaration": d["decl"], "note": d["note"]})
    if not cov.get("samples"):
        cov["samples"] = [{"note": "no sample recorded"}]
    out.evidence["assumptions"] = TRUSTED_BASE
    return out


def replay(pid, path):
    """re-run one recorded case on the implementation and on the model"""
    import behav
    import rustgen
    from subject import from_json
    v = json.load(open(path))
    if not v.get("subject") or not v.get("operation"):
        print(json.dumps(v, indent=1)[:4000])
        print("(this replay records a proof obligation / static witness; see the fields above)")
        return 0
    s = from_json(v["subject"])
    crate = os.path.join(stages.WORK, "harness", "replay")
    os.makedirs(crate, exist_ok=True)
    rustgen.write_crate(crate, [[s]])
    ops = {s.sid: ["OP 1 " + v["operation"]]}
    paths = behav.write_ops(crate, [[s]], ops)
    ok, failing, err = behav.build(crate, os.path.join(stages.WORK, "target"))
    if not ok:
        print("implementation: does not compile\n" + err[-3000:])
        return 1
    lines, _ = behav.run_bin(os.path.join(stages.WORK, "target", "debug", "b0"), paths[0])
    model = behav.run_model(paths[0])
    print(s.rust_decl())
    print("operation:      ", v["operation"])
    print("implementation: ", lines[-1] if lines else "?")
    print("model/spec:     ", model[-1] if model else "?")
    im = lines[-1].split(" ", 2)[2] if lines else "?"
    m, sp = behav.split_ms(model[-1].split(" ", 2)[2])
    return 0 if im == sp else 1
