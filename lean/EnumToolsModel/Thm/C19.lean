/-
C19 — Generated items have the documented signatures, const where documented.   (partial)
Proved over the regenerated inventory of item headers (every branch of every template) and the
regenerated documentation catalogue; rustc's typing is sampled by the signature probes.
-/
import EnumToolsModel.Generated.Inventory
import EnumToolsModel.Generated.Docs
namespace ET.Thm
open ET.Generated

def docSig (k : String) : Option String := (docSigsNormalised.find? (·.1 == k)).map (·.2)

/-- for every documented feature, the header of its item is the same in *every* template branch
(mode × gapless/with-holes) and equals the documented signature: `const fn into`, associated
`const MIN/MAX : Self`, `Option<Self>` results, `&'static str`, the iterator struct types -/
theorem C19_headers_match_docs :
    (featureHeaders.all (fun kh => !kh.2.isEmpty && kh.2.all (fun h => docSig kh.1 == some h))) = true := by
  decide +kernel

/-- every documented signature has a template (nothing documented is missing) -/
theorem C19_every_documented_item_has_a_template :
    (docSigsNormalised.all (fun ks => featureHeaders.any (fun kh => kh.1 == ks.1))) = true := by
  decide +kernel

/-- every emitter of an iterator struct (the four iter modes and names) implements Iterator,
DoubleEndedIterator, ExactSizeIterator and FusedIterator for it -/
theorem C19_iterator_traits :
    (iteratorImpls.all (fun e => ["Iterator", "DoubleEndedIterator", "ExactSizeIterator", "FusedIterator"].all (fun t => e.2.contains t))) = true
    ∧ iteratorImpls.length = 5 := by
  decide +kernel

/-- trait forms: `TryFrom<repr>` and `FromStr` return `Result<Self, _>` whose error type is the associated type, spelled
`Self::Error/Err` or written out as `()` (the associated type is pinned to `()` below, so the two are the same type),
`From<Self> for repr / &'static str` return the target, in every branch -/
theorem C19_trait_forms :
    (traitFnHeaders.all (fun h =>
      (h.1 == "feature/try_from_trait.rs" && (h.2 == "try_from(value:#repr)->Result<Self,Self::Error>" || h.2 == "try_from(value:#repr)->Result<Self,()>")) ||
      (h.1 == "feature/from_str_trait.rs" && (h.2 == "from_str(s:&str)->Result<Self,Self::Err>" || h.2 == "from_str(s:&str)->Result<Self,()>")) ||
      (h.1 == "feature/into_trait.rs" && h.2 == "from(value:Self)->Self") ||
      (h.1 == "feature/into_str_trait.rs" && h.2 == "from(value:Self)->Self") ||
      (h.2 == "fmt(&self,f:&mutFormatter<'_>)->Result"))) = true
    ∧ ((assocTypes.filter (fun a => a.2.1 == "Error" || a.2.1 == "Err")).all (fun a => a.2.2 == "()")) = true
    ∧ (assocTypes.any (fun a => a.1 == "feature/try_from_trait.rs" && a.2.1 == "Error")) = true
    ∧ (assocTypes.any (fun a => a.1 == "feature/from_str_trait.rs" && a.2.1 == "Err")) = true := by
  decide +kernel

end ET.Thm
