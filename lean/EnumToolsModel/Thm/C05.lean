/-
C05 — MIN, MAX, next and next_back follow discriminant order, not declaration order.
-/
import EnumToolsModel.Lemmas.NextBack
import EnumToolsModel.Lemmas.Sorted
import EnumToolsModel.Lemmas.Examples
import EnumToolsModel.Lemmas.TemplatesEq
namespace ET.Thm

/-- MIN and MAX are the variants with the smallest and the largest discriminant -/
theorem C05_min_max (D : Derive) (h : D.WF) :
    spec.min D.sem = some (minC D) ∧ spec.max D.sem = some (maxC D) ∧
      (∀ v ∈ D.vals, minC D ≤ v ∧ v ≤ maxC D) ∧ minC D ∈ D.vals ∧ maxC D ∈ D.vals := by
  refine ⟨?_, ?_, fun v hv => ⟨h.minKey_le v hv, h.le_maxKey v hv⟩, h.minKey_mem, h.maxKey_mem⟩
  · simp [spec.min, minC, h.head?_eq]
  · simp [spec.max, maxC, h.getLast?_eq]

/-- `next(v)` is the variant with the smallest discriminant greater than `v`'s — gapless (`+ 1`, which
never overflows) and with holes (run-table loop with `wrapping_add`); never UB, never a panic. -/
theorem C05_next (D : Derive) (h : D.WF) (v : Int) (hv : v ∈ D.vals) :
    nextFn D v = .ok (spec.next D.sem v) := by
  unfold nextFn spec.next
  rw [D.sem_discs]
  split
  · rename_i hg
    have hint := h.gapless_interval hg
    have hvm := (h.mem_gapless hg v).mp hv
    unfold nextGapless maxC
    by_cases hmax : v = D.maxKey
    · simp only [hmax, if_true]
      rw [hint, find_interval_none _ _ _ (Int.le_refl _)]
    · have hlt : v + 1 ≤ D.maxKey := by omega
      have hhi : D.maxKey ≤ D.repr.hi := (h.inRange _ h.maxKey_mem).2
      have hmem : v + 1 ∈ D.vals := (h.mem_gapless hg (v + 1)).mpr ⟨by omega, hlt⟩
      have hno : ¬ (v + 1 > D.repr.hi) := by omega
      simp only [hmax, if_false, hno, transmute_of_mem D _ hmem, Res.bind_ok]
      rw [hint, find_interval_succ _ _ _ hvm.1 hlt]
  · rename_i hg
    exact nextHoles_spec D h (by simpa using hg) v hv

/-- `next_back(v)` is the variant with the largest discriminant smaller than `v`'s -/
theorem C05_nextBack (D : Derive) (h : D.WF) (v : Int) (hv : v ∈ D.vals) :
    nextBackFn D v = .ok (spec.nextBack D.sem v) := by
  unfold nextBackFn spec.nextBack
  rw [D.sem_discs]
  split
  · rename_i hg
    have hint := h.gapless_interval hg
    have hvm := (h.mem_gapless hg v).mp hv
    unfold nextBackGapless minC
    by_cases hmin : v = D.minKey
    · simp only [hmin, if_true]
      rw [hint, find_rev_interval_none _ _ _ (Int.le_refl _)]
    · have hgt : D.minKey ≤ v - 1 := by omega
      have hlo : D.repr.lo ≤ D.minKey := (h.inRange _ h.minKey_mem).1
      have hmem : v - 1 ∈ D.vals := (h.mem_gapless hg (v - 1)).mpr ⟨hgt, by omega⟩
      have hno : ¬ (v - 1 < D.repr.lo) := by omega
      simp only [hmin, if_false, hno, transmute_of_mem D _ hmem, Res.bind_ok]
      rw [hint, find_rev_interval_pred _ _ _ hgt hvm.2]
  · rename_i hg
    exact nextBackHoles_spec D h (by simpa using hg) v hv

/-- by position: `next` of the i-th smallest variant is the (i+1)-th smallest (none after the last),
so following `next` from MIN visits every variant exactly once in ascending order -/
theorem C05_next_index (D : Derive) (h : D.WF) (i : Nat) (hi : i < D.vals.length) :
    nextFn D D.vals[i] = .ok D.vals[i + 1]? := by
  rw [C05_next D h _ (List.getElem_mem hi), spec.next, D.sem_discs, sorted_find_gt D.vals h.sorted i hi]

theorem C05_nextBack_index (D : Derive) (h : D.WF) (i : Nat) (hi : i < D.vals.length) :
    nextBackFn D D.vals[i] = .ok (if i = 0 then none else D.vals[i - 1]?) := by
  rw [C05_nextBack D h _ (List.getElem_mem hi), spec.nextBack, D.sem_discs, sorted_rfind_lt D.vals h.sorted i hi]

/-- `next(v)` is `None` iff `v` is MAX; `next_back(v)` is `None` iff `v` is MIN -/
theorem C05_none_iff (D : Derive) (h : D.WF) (v : Int) (hv : v ∈ D.vals) :
    (nextFn D v = .ok none ↔ v = maxC D) ∧ (nextBackFn D v = .ok none ↔ v = minC D) := by
  obtain ⟨i, hi, rfl⟩ := List.getElem_of_mem hv
  have hlast := h.getLast?_eq
  rw [List.getLast?_eq_getElem?] at hlast
  have hfirst := h.head?_eq
  constructor
  · rw [C05_next_index D h i hi]
    constructor
    · intro hn
      have hn' : D.vals[i + 1]? = none := by injection hn
      have : D.vals.length ≤ i + 1 := List.getElem?_eq_none_iff.mp hn'
      have hil : i = D.vals.length - 1 := by omega
      subst hil
      rw [List.getElem?_eq_getElem hi] at hlast
      exact Option.some.inj hlast
    · intro he
      -- vals[i] = maxKey = vals[n-1], strict sortedness gives i = n-1
      rw [List.getElem?_eq_getElem (by omega : D.vals.length - 1 < D.vals.length)] at hlast
      have hl := Option.some.inj hlast
      by_cases hil : i = D.vals.length - 1
      · have : D.vals[i + 1]? = none := List.getElem?_eq_none_iff.mpr (by omega)
        rw [this]
      · have := List.pairwise_iff_getElem.mp h.sorted i (D.vals.length - 1) hi (by omega) (by omega)
        unfold maxC at he; omega
  · rw [C05_nextBack_index D h i hi]
    constructor
    · intro hn
      by_cases h0 : i = 0
      · subst h0
        have hf := hfirst
        rw [List.head?_eq_getElem?, List.getElem?_eq_getElem hi] at hf
        exact Option.some.inj hf
      · simp only [h0, if_false] at hn
        have hn' : D.vals[i - 1]? = none := by injection hn
        have : D.vals.length ≤ i - 1 := List.getElem?_eq_none_iff.mp hn'
        omega
    · intro he
      by_cases h0 : i = 0
      · simp [h0]
      · exfalso
        have h0' : D.vals[0]'(by omega) = D.minKey := by
          have hf := hfirst
          rw [List.head?_eq_getElem?, List.getElem?_eq_getElem (by omega)] at hf
          exact Option.some.inj hf
        have := List.pairwise_iff_getElem.mp h.sorted 0 i (by omega) hi (by omega)
        unfold minC at he; omega

/-- `next_back(next(v)) == Some(v)` whenever `next(v)` is `Some` -/
theorem C05_nextBack_next (D : Derive) (h : D.WF) (v w : Int) (hv : v ∈ D.vals) (hn : nextFn D v = .ok (some w)) :
    nextBackFn D w = .ok (some v) ∧ w ∈ D.vals := by
  obtain ⟨i, hi, rfl⟩ := List.getElem_of_mem hv
  rw [C05_next_index D h i hi] at hn
  have hn' : D.vals[i + 1]? = some w := by injection hn
  obtain ⟨hi1, hw⟩ := List.getElem?_eq_some_iff.mp hn'
  subst hw
  refine ⟨?_, List.getElem_mem hi1⟩
  rw [C05_nextBack_index D h (i + 1) hi1]
  simp [List.getElem?_eq_getElem hi]

/-- `next(next_back(w)) == Some(w)` whenever `next_back(w)` is `Some` -/
theorem C05_next_nextBack (D : Derive) (h : D.WF) (v w : Int) (hw : w ∈ D.vals) (hn : nextBackFn D w = .ok (some v)) :
    nextFn D v = .ok (some w) ∧ v ∈ D.vals := by
  obtain ⟨i, hi, rfl⟩ := List.getElem_of_mem hw
  rw [C05_nextBack_index D h i hi] at hn
  by_cases h0 : i = 0
  · simp [h0] at hn
  · have hn' : D.vals[i - 1]? = some v := by simpa [h0] using hn
    obtain ⟨hi1, hv⟩ := List.getElem?_eq_some_iff.mp hn'
    subst hv
    refine ⟨?_, List.getElem_mem hi1⟩
    rw [C05_next_index D h (i - 1) hi1]
    have : i - 1 + 1 = i := by omega
    simp [this, List.getElem?_eq_getElem hi]

/-- `next(v) = Some(w)` says: `w` is a variant, `v < w`, and no variant lies strictly between the two -/
theorem C05_next_least (D : Derive) (h : D.WF) (v w : Int) (hv : v ∈ D.vals) (hn : nextFn D v = .ok (some w)) :
    w ∈ D.vals ∧ v < w ∧ ∀ u ∈ D.vals, v < u → w ≤ u := by
  rw [C05_next D h v hv] at hn
  have hn' : spec.next D.sem v = some w := by injection hn
  unfold spec.next at hn'; rw [D.sem_discs] at hn'
  have hs := h.sorted
  obtain ⟨hp, as, bs, hl, has⟩ := List.find?_eq_some_iff_append.mp hn'
  have hvw : v < w := by simpa using hp
  refine ⟨List.mem_of_find?_eq_some hn', hvw, ?_⟩
  intro u hu hvu
  rw [hl] at hu hs
  rw [List.pairwise_append] at hs
  obtain ⟨_, hbs, _⟩ := hs
  rw [List.pairwise_cons] at hbs
  rcases List.mem_append.mp hu with hua | hub
  · have := has u hua; simp at this; omega
  · rcases List.mem_cons.mp hub with rfl | hub'
    · exact Int.le_refl _
    · exact Int.le_of_lt (hbs.1 u hub')

/-- non-vacuity: three runs, a negative later run, the last run ending at the type's MAX (where `+1` wraps) -/
example : exD1.WF ∧ nextFn exD1 (-4) = .ok (some 3) ∧ nextFn exD1 127 = .ok none ∧ nextBackFn exD3 (-128) = .ok none
    ∧ nextBackFn exD1 3 = .ok (some (-4)) ∧ nextFn exD2 255 = .ok none := by
  refine ⟨exD1_WF, by decide, by decide, by decide, by decide, by decide⟩

/-- `next` / `next_back` as the source is written now (`Generated/Templates.lean`) -/
theorem C05_source (D : Derive) (tg : Target) (md : Modes) (h : D.WF) (v : Int) (hv : v ∈ D.vals) :
    T.next D tg md v = .ok (spec.next D.sem v) ∧ T.nextBack D tg md v = .ok (spec.nextBack D.sem v) :=
  ⟨by rw [T.next_eq D tg md h v hv]; exact C05_next D h v hv,
   by rw [T.nextBack_eq D tg md h v hv]; exact C05_nextBack D h v hv⟩

/-- walking the translated `next` from the i-th smallest variant reaches the (i+1)-th smallest; `next_back` the (i-1)-th -/
theorem C05_source_index (D : Derive) (tg : Target) (md : Modes) (h : D.WF) (i : Nat) (hi : i < D.vals.length) :
    T.next D tg md D.vals[i] = .ok D.vals[i + 1]? ∧
    T.nextBack D tg md D.vals[i] = .ok (if i = 0 then none else D.vals[i - 1]?) := by
  have hv := List.getElem_mem hi
  exact ⟨by rw [T.next_eq D tg md h _ hv]; exact C05_next_index D h i hi,
         by rw [T.nextBack_eq D tg md h _ hv]; exact C05_nextBack_index D h i hi⟩

end ET.Thm
