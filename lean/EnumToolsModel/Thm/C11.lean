/-
C11 — Enums in the documented domain are accepted with the compiler's discriminants.   (partial)
Proved: (a) whenever the derive accepts, the `(discriminant, name)` list it works with is exactly the
one the language assigns (explicit value, else previous + 1, first 0), sorted by discriminant, and —
given that rustc has checked the discriminants fit the repr — it satisfies the well-formedness
every schema proof starts from; (b) every variant list of the documented domain passes the value
parser without complaint, and a declaration of the documented domain without `enum_tools` attributes
is accepted (configurations are the subject of C10 / C13).
Not proved: that rustc compiles the output (C10's residue); `syn`'s literal lexer (sampled).
-/
import EnumToolsModel.Thm.C12
import EnumToolsModel.Lemmas.Resolve
namespace ET.Thm

theorem entriesOf_map (vs : List Variant) (l : List (Int × Name)) (h : l.length = vs.length) :
    (entriesOf vs l).map (fun x => (x.1, x.2.2)) = l := by
  induction vs generalizing l with
  | nil => cases l <;> simp_all [entriesOf]
  | cons v rest ih =>
    cases l with
    | nil => simp at h
    | cons p ps =>
      simp only [entriesOf, List.zipWith_cons_cons, List.map_cons, List.cons.injEq, true_and]
      exact ih ps (by simpa using h)

/-- the derive associates with each variant the discriminant the compiler assigns, including implicit
values following explicit ones: the macro's data *is* the meaning of the declaration -/
theorem C11_sem (t : Target) (d : Decl) (x : Expansion) (h : expand t d = .ok x) : d.sem = some x.D.sem := by
  obtain ⟨a, rname, repr, sg, ub, pv, _, _, _, _, _, _, hpv, hpverrs, _, _, hD, _⟩ := expand_ok t d x h
  have hclean := (pvLoop_clean_iff _ d.variants { errs := [] } pv (by decide) (by decide)).mp ⟨hpv, hpverrs⟩
  obtain ⟨_, l, hl, hll, hvals, _, _, _, _⟩ := clean_discs _ d.variants _ pv hclean
  have hnd : (pv.values.map (·.1)).Nodup := pvLoop_nodup _ _ _ _ hpv (by simp)
  have hl0 : rustcDiscs 0 d.variants = some l := by simpa using hl
  unfold Decl.sem
  rw [hl0]
  simp only [Option.map_some, Option.some.injEq]
  unfold Derive.sem
  rw [hD]
  simp only
  rw [sortByKey_map_eq_sortByDisc pv.values hnd, hvals]
  simp only [List.nil_append]
  rw [entriesOf_map d.variants l hll]

/-- what rustc itself guarantees about an enum it accepts: every discriminant is a value of the repr -/
def RustcAcceptsEnum (x : Expansion) : Prop := ∀ v ∈ x.D.vals, x.D.repr.InRange v

theorem reprTable_facts (t : Target) (ht : t.WF) (r : String) (p : Prim) (sg ub : Nat) (h : reprTable t r = some (p, sg, ub)) :
    1 ≤ p.bits ∧ ub = p.bits := by
  unfold Target.WF at ht
  unfold reprTable at h
  split at h <;> first
    | (cases h; exact ⟨by decide, rfl⟩)
    | (cases h; exact ⟨by show 1 ≤ t.ptrBits; omega, rfl⟩)
    | cases h

/-- `parse` establishes the well-formedness the schema proofs start from -/
theorem C11_WF (t : Target) (ht : t.WF) (d : Decl) (x : Expansion) (h : expand t d = .ok x) (hr : RustcAcceptsEnum x) : x.D.WF := by
  obtain ⟨a, rname, repr, sg, ub, pv, _, _, hrt, _, _, _, hpv, _, hne, hlen, hD, _⟩ := expand_ok t d x h
  have hnd : (pv.values.map (·.1)).Nodup := pvLoop_nodup _ _ _ _ hpv (by simp)
  have hsorted : ((sortByKey pv.values).map (·.1)).Pairwise (· < ·) := by
    rw [List.pairwise_map]; exact sortByKey_lt pv.values hnd
  obtain ⟨hbits, hub⟩ := reprTable_facts t ht rname repr sg ub hrt
  have hlenS : (sortByKey pv.values).length = pv.values.length := (sortByKey_perm pv.values).length_eq
  have hvals : x.D.vals = (sortByKey pv.values).map (·.1) := by rw [hD]; rfl
  have hreprE : x.D.repr = repr := by rw [hD]
  have hnum : x.D.numValues = pv.values.length := by rw [hD]; simp [Derive.numValues, hlenS]
  refine ⟨?_, by rw [hvals]; exact hsorted, hr, by rw [hD]; rfl, by rw [hreprE]; exact hbits, by rw [hD]; simp [hub], ?_, by rw [hnum]; exact hlen⟩
  · rw [hD]; simp only; intro e; apply hne
    have := hlenS; rw [e] at this; exact List.eq_nil_of_length_eq_zero this.symm
  · -- at most 2^bits distinct values fit the repr
    have hle := sorted_length_le x.D.vals (by rw [hvals]; exact hsorted) repr.lo repr.hi (by
      intro v hv; have := hr v hv; rw [hreprE] at this; exact this)
    rw [repr.hi_sub_lo hbits] at hle
    have hpos := two_pow_pos repr.bits
    rw [x.D.vals_length] at hle
    have : x.D.ubits = repr.bits := by rw [hD]; exact hub
    rw [this]; omega

/-- every variant list of the documented domain passes the value parser without complaint -/
theorem domain_clean : ∀ (vs : List Variant) (st : PV) (l : List (Int × Name)),
    (∀ v ∈ vs, v.fields = .unit ∧ v.attrsOk ∧ (∀ e, v.disc = some e → e.InDomain)) →
    rustcDiscs (st.last + 1) vs = some l → (∀ p ∈ l, i64Min ≤ p.1 ∧ p.1 ≤ i64Max) →
    (∀ p ∈ l, p.1 ∉ st.values.map (·.1)) → (l.map (·.1)).Nodup → i64Min ≤ st.last → st.last ≤ i64Max →
    ∃ st', CleanFrom {} st vs st' := by
  intro vs
  induction vs with
  | nil => intro st l _ _ _ _ _ _ _; exact ⟨st, rfl⟩
  | cons v rest ih =>
    intro st l hforms hl hrange hfresh hnd h1 h2
    obtain ⟨hf, ha, hdom⟩ := hforms v (by simp)
    unfold rustcDiscs at hl
    -- the discriminant of v and the rest of the list
    have key : ∃ i l', l = (i, v.name) :: l' ∧ StepDisc st.last v i ∧ rustcDiscs (i + 1) rest = some l' := by
      cases hd : v.disc with
      | none =>
        rw [hd] at hl; simp only [Option.map_eq_some_iff] at hl
        obtain ⟨l', hl', rfl⟩ := hl
        refine ⟨st.last + 1, l', rfl, ?_, hl'⟩
        unfold StepDisc; rw [hd]
        exact ⟨by have := (hrange (st.last + 1, v.name) (by simp)).2; simp only at this; omega, rfl⟩
      | some e =>
        rw [hd] at hl; simp only at hl
        cases hv : e.value? with
        | none => rw [hv] at hl; cases hl
        | some dd =>
          rw [hv] at hl; simp only [Option.map_eq_some_iff] at hl
          obtain ⟨l', hl', rfl⟩ := hl
          refine ⟨dd, l', rfl, ?_, hl'⟩
          unfold StepDisc; rw [hd]; exact ⟨hdom e hd, hv⟩
    obtain ⟨i, l', rfl, hsd, hl'⟩ := key
    have hir := hrange (i, v.name) (by simp)
    simp only [List.map_cons, List.nodup_cons] at hnd
    obtain ⟨st', hst'⟩ := ih (st.push {} v i) l' (fun w hw => hforms w (by simp [hw])) hl'
      (fun p hp => hrange p (by simp [hp]))
      (fun p hp => by
        simp only [PV.push, List.map_append, List.map_cons, List.map_nil, List.mem_append, List.mem_singleton, not_or]
        exact ⟨hfresh p (by simp [hp]), fun e => hnd.1 (List.mem_map.mpr ⟨p, hp, e⟩)⟩)
      hnd.2 hir.1 hir.2
    refine ⟨st', ha, hf, by simp [nameSortErrs], i, hsd, fun _ => by simp [valueSortErrs], hfresh (i, v.name) (by simp), hst'⟩

/-- Every declaration of the documented domain — one primitive repr, 1..=65534 unit variants, each
discriminant implicit or an (optionally negated) integer literal within [i64::MIN, i64::MAX], any
foreign attributes — that carries no `enum_tools` attribute is accepted. -/
theorem C11_domain_accepted (t : Target) (d : Decl) (hd : InDomain t d)
    (hplain : ∀ a ∈ d.attrs, a = .foreign ∨ ∃ r, a = .repr r) : ∃ x, expand t d = .ok x := by
  obtain ⟨r, hr, hrt⟩ := hd.oneRepr
  obtain ⟨l, hl, hne, hlen, hll, hrange, hnd⟩ := hd.discs
  -- attributes: exactly the repr is recorded, nothing else
  have hattrs : ∀ (attrs : List EAttr) (st : AttrsOut), (∀ a ∈ attrs, a = .foreign ∨ ∃ r, a = .repr r) →
      st.repr = none → reprAttrs attrs = [.ident r] → parseAttrs st attrs = .ok { st with repr := some r } ∨
      False := by
    intro attrs
    induction attrs with
    | nil => intro st _ _ h; simp [reprAttrs] at h
    | cons a rest ih =>
      intro st hp hs hra
      rcases hp a (by simp) with rfl | ⟨ra, rfl⟩
      · simp only [parseAttrs]
        exact ih st (fun b hb => hp b (by simp [hb])) hs (by simpa [reprAttrs] using hra)
      · simp only [reprAttrs, List.filterMap_cons, List.cons.injEq] at hra
        obtain ⟨rfl, hrest⟩ := hra
        simp only [parseAttrs, hs]
        -- no further repr attribute: the rest is foreign only
        left
        have : ∀ (rest : List EAttr) (st : AttrsOut), (∀ a ∈ rest, a = .foreign ∨ ∃ r, a = .repr r) →
            reprAttrs rest = [] → parseAttrs st rest = .ok st := by
          intro rest
          induction rest with
          | nil => intro st _ _; rfl
          | cons b rest ih2 =>
            intro st hp2 hr2
            rcases hp2 b (by simp) with rfl | ⟨rb, rfl⟩
            · simp only [parseAttrs]; exact ih2 st (fun c hc => hp2 c (by simp [hc])) (by simpa [reprAttrs] using hr2)
            · simp [reprAttrs] at hr2
        exact this rest _ (fun b hb => hp b (by simp [hb])) hrest
  have ha : parseAttrs {} d.attrs = .ok { repr := some r } := by
    rcases hattrs d.attrs {} hplain rfl hr with h | h
    · exact h
    · exact absurd h id
  obtain ⟨st', hclean⟩ := domain_clean d.variants { errs := [] } l (fun v hv => hd.forms v hv) (by simpa using hl) hrange
    (by simp) hnd (by decide) (by decide)
  have hpv := (pvLoop_clean_iff {} d.variants { errs := [] } st' (by decide) (by decide)).mpr hclean
  obtain ⟨_, l2, hl2, hll2, hvals, _, _, _, _⟩ := clean_discs {} d.variants _ st' hclean
  obtain ⟨p, hp⟩ := Option.isSome_iff_exists.mp hrt
  obtain ⟨repr, sg, ub⟩ := p
  have hlen' : st'.values.length = d.variants.length := by rw [hvals]; simp [entriesOf, hll2]
  have hS : (sortByKey st'.values).length = st'.values.length := (sortByKey_perm st'.values).length_eq
  unfold expand expandWith
  rw [ha]
  simp only [hp, parseSorted, smapRemove, List.append_nil, hd.isEnum, ne_eq, not_true_eq_false, if_false, hpv.1, id]
  have hne' : (sortByKey st'.values).isEmpty = false := by
    cases hh : (sortByKey st'.values) with
    | nil => rw [hh] at hS; simp at hS; rw [hlen', ← hll] at hS; exact absurd (List.eq_nil_of_length_eq_zero hS.symm) hne
    | cons a b => rfl
  have hlt : ¬ ((sortByKey st'.values).length ≥ 65535) := by rw [hS, hlen', ← hll]; omega
  simp only [hne', Bool.false_eq_true, if_false, hlt]
  -- the configuration stage with no features requested
  rw [hpv.2]
  unfold configStage
  have hpf : parseFeatures Generated.catalog {} [] [] = (parseFeatures Generated.catalog {} [] []) := rfl
  have hflags : (parseFeatures Generated.catalog {} [] []).1.flags = [] ∧ (parseFeatures Generated.catalog {} [] []).2.2 = [] ∧
      (parseFeatures Generated.catalog {} [] []).2.1 = [] := by decide +kernel
  simp only [hflags.1, hflags.2.1, hflags.2.2, List.map_nil, List.append_nil, List.isEmpty_nil, if_true]
  obtain ⟨r2, hr2⟩ := resolve_empty { gapless := Derive.gapless _, numValues := Derive.numValues _, sizeGuess := sg } (parseFeatures Generated.catalog {} [] []).1.modes
  rw [hr2]
  exact ⟨_, rfl⟩

end ET.Thm
