/-
C08 — names() yields the names in discriminant order, aligned with iter() and as_str.
-/
import EnumToolsModel.Thm.C06
import EnumToolsModel.Thm.C04
import EnumToolsModel.Lemmas.TemplatesEq
namespace ET.Thm

/-- a forwarding iterator is the cursor over its list, for any history -/
theorem run_cursor {α : Type} (nf bf : α → Res (Option α)) (ops : List Op) : ∀ (l : List α),
    IterState.run nf bf (.cursor l) ops = .ok (.cursor (Cursor.run l ops).1, (Cursor.run l ops).2) := by
  induction ops with
  | nil => intro l; rfl
  | cons op ops ih =>
    intro l
    simp only [IterState.run, IterState.step, Res.bind_ok, ih, Cursor.run]

/-- `names()` is observationally a cursor over the names in discriminant order -/
theorem C08_names (D : Derive) (nf bf : Name → Res (Option Name)) (ops : List Op) (fin : Fin) :
    namesInit D = .cursor (spec.names D.sem) ∧
    IterState.run nf bf (namesInit D) ops
      = .ok (.cursor (Cursor.run (spec.names D.sem) ops).1, (Cursor.run (spec.names D.sem) ops).2) ∧
    IterState.finish nf bf (.cursor (Cursor.run (spec.names D.sem) ops).1) fin
      = .ok (Cursor.finish (Cursor.run (spec.names D.sem) ops).1 fin) := by
  have h0 : namesInit D = .cursor (spec.names D.sem) := by
    simp [namesInit, tableName, spec.names]
  refine ⟨h0, ?_, rfl⟩
  rw [h0]; exact run_cursor nf bf ops _

/-- `iter().zip(names())` pairs every variant `v` with `as_str(v)` -/
theorem C08_zip_aligned (D : Derive) (h : D.WF) :
    (spec.iter D.sem).zip (spec.names D.sem) = D.sem.items ∧
    ∀ p ∈ (spec.iter D.sem).zip (spec.names D.sem), spec.asStr D.sem p.1 = some p.2 := by
  have hz : (spec.iter D.sem).zip (spec.names D.sem) = D.sem.items := by
    simp [spec.iter, spec.names, EnumSem.discs, EnumSem.names, List.zip_map']
  refine ⟨hz, ?_⟩
  rw [hz]
  intro p hp
  obtain ⟨k, hk, hke⟩ := List.getElem_of_mem hp
  have hsorted : (D.sem.items.map (·.1)).Pairwise (· < ·) := by
    have := h.sorted; rw [← D.sem_discs] at this; exact this
  have := find_key_of_getElem D.sem.items hsorted k p (by rw [List.getElem?_eq_getElem hk, hke])
  unfold spec.asStr; rw [this]; rfl

/-- `names().len()` is the number of variants -/
theorem C08_len (D : Derive) : (spec.names D.sem).length = D.numValues ∧ (spec.names D.sem).length = (spec.iter D.sem).length := by
  simp [spec.names, spec.iter, EnumSem.names, EnumSem.discs, Derive.sem, Derive.numValues]

/-- the alignment survives reversal: `iter().rev().zip(names().rev())` pairs the same variants and names, descending -/
theorem C08_rev_aligned (D : Derive) :
    (spec.iter D.sem).reverse.zip (spec.names D.sem).reverse = D.sem.items.reverse := by
  simp [spec.iter, spec.names, EnumSem.discs, EnumSem.names, ← List.map_reverse, List.zip_map']

/-- position by position: the `i`-th item of `names()` is `as_str` of the `i`-th item of `iter()` -/
theorem C08_nth_aligned (D : Derive) (h : D.WF) (i : Nat) (v : Int) (hv : (spec.iter D.sem)[i]? = some v) :
    (spec.names D.sem)[i]? = spec.asStr D.sem v := by
  have hz := (C08_zip_aligned D h).1
  have hlen := (C08_len D).2
  have hi : i < (spec.iter D.sem).length := (List.getElem?_eq_some_iff.mp hv).1
  have hi' : i < (spec.names D.sem).length := by omega
  have hmem : (v, (spec.names D.sem)[i]) ∈ (spec.iter D.sem).zip (spec.names D.sem) := by
    have hv' : (spec.iter D.sem)[i] = v := (List.getElem?_eq_some_iff.mp hv).2
    rw [← hv', ← List.getElem_zip (i := i) (h := by simp [List.length_zip]; omega)]
    exact List.getElem_mem _
  rw [(C08_zip_aligned D h).2 _ hmem, List.getElem?_eq_getElem hi']

/-- non-vacuity: names of a renamed enum, consumed from both ends -/
example : IterState.run (fun _ => .ok none) (fun _ => .ok none) (namesInit exD1) [.nextBack, .next, .len]
    = .ok (.cursor [[98, 98], [67], [68], [69]], [.item (some [70]), .item (some [65]), .len 4]) := by decide

/-- `names()` as the source is written now: the struct is built over the name table, i.e. the names in discriminant order -/
theorem C08_source (D : Derive) (tg : Target) (md : Modes) :
    T.names D tg md = .ok (.cursor (spec.names D.sem)) := by
  rw [T.names_eq, (C08_names D (fun _ => .ok none) (fun _ => .ok none) [] .fold).1]

end ET.Thm
