/-
C09 — Modes and auto selection never change observable behaviour.
Corollaries of the refinement layer: every schema of an item equals the same specification
function, and the specification does not take a mode; `resolve` always ends in a concrete, legal mode.
-/
import EnumToolsModel.Thm.C07
import EnumToolsModel.Thm.C04
import EnumToolsModel.Thm.C10
import EnumToolsModel.Thm.C11
namespace ET.Thm
open ET.Generated

/-- as_str (hence Display, Debug, IntoStr): the same name in every mode -/
theorem C09_asStr (D : Derive) (t : Target) (h : D.WF) (ht : t.WF) (m1 m2 : Mode3) (v : Int) (hv : v ∈ D.vals) :
    asStr D t m1 v = asStr D t m2 v := by
  obtain ⟨n1, hs1, h1⟩ := C03_asStr D t h ht m1 v hv
  obtain ⟨n2, hs2, h2⟩ := C03_asStr D t h ht m2 v hv
  rw [h1, h2]; rw [hs1] at hs2; cases hs2; rfl

/-- from_str / FromStr: the same answer for every string in every mode -/
theorem C09_fromStr (D : Derive) (h : D.WF) (m1 m2 : Mode3) (s : Name) : fromStr D m1 s = fromStr D m2 s := by
  rw [C04_fromStr D h m1 s, C04_fromStr D h m2 s]

/-- what a history of iterator operations followed by a consuming operation lets one observe -/
def observe (st : Res (IterState Int)) (D : Derive) (ops : List Op) (fin : Fin) : Res (List (Out Int) × OutF Int) :=
  st.bind fun s => (IterState.run (nextFn D) (nextBackFn D) s ops).bind fun r =>
    (IterState.finish (nextFn D) (nextBackFn D) r.1 fin).bind fun o => .ok (r.2, o)

/-- iter(): any two legal modes are observationally equal, for every history -/
theorem C09_iter (D : Derive) (h : D.WF) (m1 m2 : IterMode) (h1 : m1 ≠ .auto) (h2 : m2 ≠ .auto)
    (r1 : m1 = .range → D.gapless = true) (r2 : m2 = .range → D.gapless = true) (ops : List Op) (fin : Fin) :
    observe (iterInit D m1) D ops fin = observe (iterInit D m2) D ops fin := by
  obtain ⟨s1, s1', e1, e2, e3⟩ := C06_iter D h m1 h1 r1 ops fin
  obtain ⟨t1, t1', f1, f2, f3⟩ := C06_iter D h m2 h2 r2 ops fin
  simp only [observe, e1, e2, e3, f1, f2, f3, Res.bind_ok]

/-- range(a, b): any two modes that support it are observationally equal, for every pair and history -/
theorem C09_range (D : Derive) (t : Target) (h : D.WF) (ht : t.WF) (m1 m2 : IterMode)
    (h1 : m1 = .range ∨ m1 = .nextAndBack ∨ m1 = .table) (h2 : m2 = .range ∨ m2 = .nextAndBack ∨ m2 = .table)
    (r1 : m1 = .range → D.gapless = true) (r2 : m2 = .range → D.gapless = true)
    (a b : Int) (ha : a ∈ D.vals) (hb : b ∈ D.vals) (ops : List Op) (fin : Fin) :
    observe (rangeInit D t m1 a b) D ops fin = observe (rangeInit D t m2 a b) D ops fin := by
  obtain ⟨s1, s1', e1, e2, e3⟩ := C07_range D t h ht m1 h1 r1 a b ha hb ops fin
  obtain ⟨t1, t1', f1, f2, f3⟩ := C07_range D t h ht m2 h2 r2 a b ha hb ops fin
  simp only [observe, e1, e2, e3, f1, f2, f3, Res.bind_ok]

/-- whatever set of co-enabled features steers `auto`, `resolve` ends in concrete modes for every enabled
feature, and the iterator mode it ends in is one the theorems above cover -/
theorem C09_auto_is_concrete_and_legal (sh : Shape) (fl : Flags) (m : Modes) (fl2 : Flags) (m2 : Modes)
    (h : resolve sh fl m = .ok (fl2, m2)) :
    (.asStr ∈ fl2 → m2.asStr = .match ∨ m2.asStr = .table) ∧
    (.fromStrFn ∈ fl2 → m2.fromStrFn = .match ∨ m2.fromStrFn = .table) ∧
    (.fromStrTrait ∈ fl2 → m2.fromStrTrait = .match ∨ m2.fromStrTrait = .table) ∧
    (.iter ∈ fl2 → m2.iter ≠ .auto ∧ (m2.iter = .range → sh.gapless = true)) ∧
    (.range ∈ fl2 → m2.iter = .range ∨ m2.iter = .nextAndBack ∨ m2.iter = .table) := by
  obtain ⟨h1, h2, h3, h4, h5⟩ := C10_resolved sh fl m fl2 m2 h
  refine ⟨fun ha => ?_, fun ha => ?_, fun ha => ?_, h4, fun ha => ?_⟩
  · have := h1 ha; cases hm : m2.asStr <;> simp_all
  · have := h2 ha; cases hm : m2.fromStrFn <;> simp_all
  · have := h3 ha; cases hm : m2.fromStrTrait <;> simp_all
  · obtain ⟨hi, hti⟩ := h5 ha
    have := (h4 hi).1
    cases hm : m2.iter <;> simp_all

/-- for a fixed declaration the enum data does not depend on which features are requested: two accepted
configurations of the same variants and repr work on the same `(discriminant, name)` list -/
theorem C09_same_data (t : Target) (d1 d2 : Decl) (x1 x2 : Expansion) (h1 : expand t d1 = .ok x1) (h2 : expand t d2 = .ok x2)
    (hv : d1.variants = d2.variants) : x1.D.sem = x2.D.sem := by
  have e1 := C11_sem t d1 x1 h1
  have e2 := C11_sem t d2 x2 h2
  unfold Decl.sem at e1 e2
  rw [hv] at e1
  rw [e1] at e2
  exact Option.some.inj e2

/-! ### mode independence of the function bodies translated from /repo/src -/

/-- two resolved configurations of the same enum: every translated string function gives the same result -/
theorem C09_source (D : Derive) (tg : Target) (md1 md2 : Modes) (h : D.WF) (ht : tg.WF) (v : Int) (hv : v ∈ D.vals) (s : Name) :
    (md1.asStr ≠ .auto → md2.asStr ≠ .auto → T.asStr D tg md1 v = T.asStr D tg md2 v) ∧
    (md1.fromStrFn ≠ .auto → md2.fromStrFn ≠ .auto → T.fromStrFn D tg md1 s = T.fromStrFn D tg md2 s) ∧
    (md1.fromStrTrait ≠ .auto → md2.fromStrFn ≠ .auto → T.fromStrTrait D tg md1 s = T.fromStrFn D tg md2 s) ∧
    (T.next D tg md1 v = T.next D tg md2 v ∧ T.nextBack D tg md1 v = T.nextBack D tg md2 v) := by
  refine ⟨fun a b => ?_, fun a b => ?_, fun a b => ?_, ?_⟩
  · obtain ⟨n1, s1, e1, _⟩ := C03_source D tg md1 h ht a v hv
    obtain ⟨n2, s2, e2, _⟩ := C03_source D tg md2 h ht b v hv
    rw [s1] at s2; cases s2; rw [e1, e2]
  · rw [(C04_source D tg md1 h s).1 a, (C04_source D tg md2 h s).1 b]
  · rw [(C04_source D tg md1 h s).2 a, (C04_source D tg md2 h s).1 b]
  · rw [(C05_source D tg md1 h v hv).1, (C05_source D tg md2 h v hv).1, (C05_source D tg md1 h v hv).2, (C05_source D tg md2 h v hv).2]
    exact ⟨rfl, rfl⟩

/-- two resolved iterator modes: the translated `iter()` gives the same observations under every history -/
theorem C09_source_iter (D : Derive) (tg : Target) (md1 md2 : Modes) (h : D.WF) (ht : tg.WF)
    (h1 : md1.iter ≠ .auto) (h2 : md2.iter ≠ .auto) (r1 : md1.iter = .range → D.gapless = true) (r2 : md2.iter = .range → D.gapless = true)
    (ops : List Op) (fin : Fin) :
    ∃ s1 s1' s2 s2' outs o, T.iter D tg md1 = .ok s1 ∧ T.iter D tg md2 = .ok s2 ∧
      T.runT D tg md1 s1 ops = .ok (s1', outs) ∧ T.runT D tg md2 s2 ops = .ok (s2', outs) ∧
      T.finishT D tg md1 s1' fin = .ok o ∧ T.finishT D tg md2 s2' fin = .ok o := by
  obtain ⟨s1, s1', a1, a2, a3⟩ := C06_source D tg md1 h ht h1 r1 ops fin
  obtain ⟨s2, s2', b1, b2, b3⟩ := C06_source D tg md2 h ht h2 r2 ops fin
  exact ⟨s1, s1', s2, s2', _, _, a1, b1, a2, b2, a3, b3⟩

end ET.Thm
