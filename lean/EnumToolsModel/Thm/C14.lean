import EnumToolsModel.Lemmas.C14Aux
namespace ET.Thm

/-- `sorted(name)` / `sorted(value)` accept exactly the declarations whose variants are declared in strictly
ascending (byte-wise) name order / strictly ascending discriminant order — all other conditions of
acceptance being those of the run without `sorted` -/
theorem C14_sorted_iff (n vb : Bool) (vs : List Variant) (l : List (Int × Name)) (hl : rustcDiscs 0 vs = some l) :
    (∃ st', pvLoop ⟨n, vb⟩ { errs := [] } vs = some st' ∧ st'.errs = []) ↔
      ((∃ st', pvLoop {} { errs := [] } vs = some st' ∧ st'.errs = []) ∧
        (n = true → AscFrom (· < ·) none (vs.map (·.name))) ∧
        (vb = true → AscFrom (· < ·) none (l.map (·.1)))) := by
  have key := clean_sorted_iff n vb vs { errs := [] } { errs := [] } rfl (fun _ => trivial) (by simp) (by decide) (by decide) l (by simpa using hl)
  simp only [if_true] at key
  have e1 : (∃ st', pvLoop ⟨n, vb⟩ { errs := [] } vs = some st' ∧ st'.errs = []) ↔ ∃ st', CleanFrom ⟨n, vb⟩ { errs := [] } vs st' :=
    exists_congr (fun st' => pvLoop_clean_iff ⟨n, vb⟩ vs { errs := [] } st' (by decide) (by decide))
  have e2 : (∃ st', pvLoop {} { errs := [] } vs = some st' ∧ st'.errs = []) ↔ ∃ st', CleanFrom {} { errs := [] } vs st' :=
    exists_congr (fun st' => pvLoop_clean_iff {} vs { errs := [] } st' (by decide) (by decide))
  rw [e1, e2]
  exact key

/-- at the level of the whole derive: an accepted declaration with `sorted(..)` is sorted as requested -/
theorem C14_accept_implies_sorted (t : Target) (d : Decl) (x : Expansion) (h : expand t d = .ok x) :
    (x.sorted.name = true → AscFrom (· < ·) none (d.variants.map (·.name))) ∧
    (x.sorted.value = true → AscFrom (· < ·) none (x.D.sem.discs)) := by
  obtain ⟨a, rname, repr, sg, ub, pv, _, _, _, _, _, _, hpv, hpverrs, _, _, hD, hS⟩ := expand_ok t d x h
  have hclean := (pvLoop_clean_iff _ d.variants { errs := [] } pv (by decide) (by decide)).mp ⟨hpv, hpverrs⟩
  obtain ⟨_, l, hl, hll, hvals, _, _, hnd, _⟩ := clean_discs _ d.variants _ pv hclean
  have hl0 : rustcDiscs 0 d.variants = some l := by simpa using hl
  have := (C14_sorted_iff (parseSorted a.fm).1.name (parseSorted a.fm).1.value d.variants l hl0).mp ⟨pv, hpv, hpverrs⟩
  rw [hS]
  refine ⟨this.2.1, fun hv => ?_⟩
  have hasc := this.2.2 hv
  -- in declaration order the discriminants ascend, so the sorted list *is* the declared list
  have hsem := C11_sem t d x h
  unfold Decl.sem at hsem
  rw [hl0] at hsem
  simp only [Option.map_some, Option.some.injEq] at hsem
  rw [← hsem]
  simp only [EnumSem.discs]
  have hpair : ∀ (p : Option Int) (l : List (Int × Name)), AscFrom (· < ·) p (l.map (·.1)) → l.Pairwise (fun a b => a.1 < b.1) ∧ (∀ q, p = some q → ∀ y ∈ l, q < y.1) := by
    intro p l
    induction l generalizing p with
    | nil => intro _; exact ⟨List.Pairwise.nil, fun _ _ y hy => by cases hy⟩
    | cons y ys ih =>
      intro hh
      cases p with
      | none =>
        simp only [List.map_cons, AscFrom] at hh
        obtain ⟨h1, h2⟩ := ih (some y.1) hh
        exact ⟨List.pairwise_cons.mpr ⟨fun z hz => h2 y.1 rfl z hz, h1⟩, fun q hq => by cases hq⟩
      | some q0 =>
        simp only [List.map_cons, AscFrom] at hh
        obtain ⟨h1, h2⟩ := ih (some y.1) hh.2
        refine ⟨List.pairwise_cons.mpr ⟨fun z hz => h2 y.1 rfl z hz, h1⟩, fun q hq z hz => ?_⟩
        simp only [Option.some.injEq] at hq; subst hq
        rcases List.mem_cons.mp hz with e | e
        · subst e; exact hh.1
        · have := h2 y.1 rfl z e; omega
  have hp := (hpair none l hasc).1
  have : sortByDisc l = l := by
    apply sorted_ext keyLt (fun a b h => by unfold keyLt at *; omega) _ _ (sortByDisc_lt l hnd) hp
    intro z; exact (sortByDisc_perm l).mem_iff
  rw [this]; exact hasc

/-- `sorted`, `sorted(name)`, `sorted(value)`, `sorted(name, value)` set the flags; anything else inside is an error -/
theorem C14_parseSorted :
    (parseSorted [("sorted", [("name", none)])]).1 = ⟨true, false⟩ ∧ (parseSorted [("sorted", [("value", none)])]).1 = ⟨false, true⟩ ∧
    (parseSorted [("sorted", [("name", none), ("value", none)])]).1 = ⟨true, true⟩ ∧ (parseSorted []).1 = ⟨false, false⟩ ∧
    (parseSorted [("sorted", [("names", none)])]).2.2 = [.unknownParameter] ∧
    (parseSorted [("sorted", [("name", some (.str "x"))])]).2.2 = [.unexpectedLiteral] := by
  refine ⟨by decide, by decide, by decide, by decide, by decide, by decide⟩

/-- non-vacuity: byte-wise name order (upper case before lower case), equal names are not ascending -/
example : AscFrom (· < ·) none ([[73, 79], [73, 100], [73, 111]] : List Name) ∧ ¬ AscFrom (· < ·) none ([[73, 100], [73, 79]] : List Name)
    ∧ ¬ AscFrom (· < ·) none ([[65], [65]] : List Name) := by
  refine ⟨by simp [AscFrom] <;> decide, by simp [AscFrom] <;> decide, by simp [AscFrom]⟩

end ET.Thm
