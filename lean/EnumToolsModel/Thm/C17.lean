/-
C17 — Expansion is deterministic.
(a) In the model, the order in which the `HashMap` of `parse_values` yields its entries (any
    permutation `π`: the hash seed of the process) does not influence the macro's result.
(b) Over the regenerated inventory: the only iteration over a `HashMap` whose order could reach the
    output is sorted by key before use; the others only emit errors; no other per-process state is used.
-/
import EnumToolsModel.Lemmas.SortKey
import EnumToolsModel.Generated.HashSites
import EnumToolsModel.Macro
namespace ET.Thm
open ET.Generated

/-- for every hash order `π`, the macro computes the same thing -/
theorem C17_order_independent (π : List (Int × (Name × Name)) → List (Int × (Name × Name)))
    (hπ : ∀ l, (π l).Perm l) (t : Target) (d : Decl) : expandWith π t d = expandWith id t d := by
  unfold expandWith
  split
  · rfl
  · split
    · rfl
    · split
      · rfl
      · simp only
        split
        · rfl
        · split
          · rfl
          · rename_i pv hpv
            have hn : (pv.values.map (·.1)).Nodup := pvLoop_nodup _ _ _ _ hpv (by simp)
            have : sortByKey (π pv.values) = sortByKey (id pv.values) :=
              sortByKey_perm_invariant _ _ (hπ _) (((hπ pv.values).map _).nodup_iff.mpr hn)
            rw [this]

/-- the value list handed to every generator is strictly ascending by discriminant, whatever the hash order -/
theorem C17_values_sorted (l : List (Int × (Name × Name))) (hn : (l.map (·.1)).Nodup) :
    ((sortByKey l).map (·.1)).Pairwise (· < ·) := by
  rw [List.pairwise_map]; exact sortByKey_lt l hn

/-- every `HashMap` iteration site in `/repo/src` is sorted before use or only feeds error reporting -/
theorem C17_hash_sites :
    (hashIterSites.all (fun s => s.2.2.2 == .sortedBeforeUse || s.2.2.2 == .errorPathOnly)) = true := by
  decide +kernel

/-- no other source of per-process state (environment, time, statics, threads, atomics, RandomState, files) -/
theorem C17_no_other_sources : nondeterminismSources = [] := by decide +kernel

/-- the order really is arbitrary in the model: a reversed map gives the same result on a concrete declaration -/
example : expandWith List.reverse {} { attrs := [.repr (.ident "i8")], variants := [{ ident := [66], disc := some (.intLit 5) }, { ident := [65], disc := some (.neg true (.intLit 3)) }, { ident := [67] }] }
    = expandWith id {} { attrs := [.repr (.ident "i8")], variants := [{ ident := [66], disc := some (.intLit 5) }, { ident := [65], disc := some (.neg true (.intLit 3)) }, { ident := [67] }] } :=
  C17_order_independent List.reverse (fun l => List.reverse_perm l) _ _

end ET.Thm
