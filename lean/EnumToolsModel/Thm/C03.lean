/-
C03 — as_str, Display, Debug and IntoStr return exactly the variant's name.
(`Display`, `Debug` and `IntoStr` are a single call of `as_str`; the driver runs all four against the
same model function.)
-/
import EnumToolsModel.Lemmas.Index
import EnumToolsModel.Lemmas.Examples
import EnumToolsModel.Lemmas.TemplatesEq
import EnumToolsModel.Lemmas.ReprTableEq
namespace ET.Thm

/-- every variant has a name in the specification -/
theorem C03_has_name (D : Derive) (h : D.WF) (v : Int) (hv : v ∈ D.vals) : ∃ n, spec.asStr D.sem v = some n := by
  obtain ⟨k, hk, rfl⟩ := List.getElem_of_mem hv
  obtain ⟨n, _, hn⟩ := spec_asStr_of_pos D h k _ (List.getElem?_eq_getElem hk)
  exact ⟨n, hn⟩

/-- match mode: the arm of the variant -/
theorem C03_asStr_match (D : Derive) (h : D.WF) (v : Int) (hv : v ∈ D.vals) :
    ∃ n, spec.asStr D.sem v = some n ∧ asStrMatch D v = .ok n := by
  obtain ⟨n, hn⟩ := C03_has_name D h v hv
  refine ⟨n, hn, ?_⟩
  unfold spec.asStr Derive.sem at hn
  simp only at hn
  rw [List.find?_map] at hn
  unfold asStrMatch
  have hfun : ((fun (y : Int × Name) => decide (y.1 = v)) ∘ fun (x : Int × (Name × Name)) => (x.1, x.2.2)) = fun x => decide (x.1 = v) := by
    funext y; rfl
  rw [hfun] at hn
  cases hf : D.values.find? (fun x => decide (x.1 = v)) with
  | none => rw [hf] at hn; simp at hn
  | some x =>
    rw [hf] at hn
    obtain ⟨d, i, nm⟩ := x
    simp at hn
    simp [hn]

/-- table mode, gapless: `__NAME[(v.wrapping_sub(MIN)) as unsigned as usize]` -/
theorem C03_asStr_table_gapless (D : Derive) (t : Target) (h : D.WF) (ht : t.WF) (hg : D.gapless = true)
    (v : Int) (hv : v ∈ D.vals) :
    ∃ n, spec.asStr D.sem v = some n ∧ asStrTableGapless D t v = .ok n := by
  have hvm := (h.mem_gapless hg v).mp hv
  have hint := h.gapless_interval hg
  let k := (v - D.minKey).toNat
  have hkv : D.vals[k]? = some v := by
    rw [hint, interval_getElem? _ _ _ (by omega)]; congr 1; omega
  have hklt : k < D.numValues := by
    rw [← D.vals_length]; exact (List.getElem?_eq_some_iff.mp hkv).1
  obtain ⟨n, hn1, hn2⟩ := spec_asStr_of_pos D h k v hkv
  refine ⟨n, hn2, ?_⟩
  unfold asStrTableGapless minC tableName index
  rw [toIndex_of_pos D t h ht (v - D.minKey) k hklt (by congr 1; omega), hn1]

/-- table mode, with holes: find the run, subtract its offset -/
theorem C03_asStr_table_holes (D : Derive) (t : Target) (h : D.WF) (ht : t.WF)
    (v : Int) (hv : v ∈ D.vals) :
    ∃ n, spec.asStr D.sem v = some n ∧ asStrTableHoles D t v = .ok n := by
  obtain ⟨hwf, hex, hofs, _⟩ := h.table
  obtain ⟨r, kr, hf, h1, h2, h3, h4, h5⟩ := table_find_index D.repr v (tableRange D) 0 [] hwf hofs rfl (by rw [hex]; exact hv)
  simp only [List.nil_append, hex] at h5
  let k := (kr + (v - r.start)).toNat
  have hklt : k < D.numValues := by
    rw [← D.vals_length]; exact (List.getElem?_eq_some_iff.mp h5).1
  obtain ⟨n, hn1, hn2⟩ := spec_asStr_of_pos D h k v h5
  refine ⟨n, hn2, ?_⟩
  unfold asStrTableHoles
  rw [hf]
  simp only
  unfold tableName index
  rw [h3, toIndex_of_pos D t h ht _ k hklt (by rw [sub_wrap_sub_wrap_emod]; congr 1; omega), hn1]

/-- as_str returns exactly the variant's name in every mode (match, table, auto) and for every shape -/
theorem C03_asStr (D : Derive) (t : Target) (h : D.WF) (ht : t.WF) (m : Mode3) (v : Int) (hv : v ∈ D.vals) :
    ∃ n, spec.asStr D.sem v = some n ∧ asStr D t m v = .ok n := by
  unfold asStr
  cases m with
  | table =>
    simp only
    split
    · rename_i hg; exact C03_asStr_table_gapless D t h ht hg v hv
    · exact C03_asStr_table_holes D t h ht v hv
  | auto => exact C03_asStr_match D h v hv
  | «match» => exact C03_asStr_match D h v hv

/-- the name is the rename if present, else the identifier: the specification reads it off the sorted
`(discriminant, name)` list, where `name` is what `Variant.name` computes -/
theorem C03_name_is_rename_or_ident (v : Variant) :
    v.name = (v.attrs.foldl (fun acc a => match a with | .rename s => s | _ => acc) v.ident) := rfl

/-- non-vacuity: negative later run, renamed variant, table mode with holes; gapless at the type's MAX -/
example : exD1.WF ∧ asStr exD1 {} .table (-5) = .ok [98, 98] ∧ asStr exD1 {} .table 127 = .ok [70]
    ∧ asStr exD2 {} .table 255 = .ok [67] ∧ asStr exD3 {} .table (-128) = .ok [65] := by
  refine ⟨exD1_WF, by decide, by decide, by decide, by decide⟩

/-- `as_str`, `Display`, `Debug`, `IntoStr` as the source is written now (`Generated/Templates.lean`), in every resolved mode -/
theorem C03_source (D : Derive) (tg : Target) (md : Modes) (h : D.WF) (ht : tg.WF) (hm : md.asStr ≠ .auto) (v : Int) (hv : v ∈ D.vals) :
    ∃ n, spec.asStr D.sem v = some n ∧ T.asStr D tg md v = .ok n ∧ T.display D tg md v = .ok n ∧
      T.debug D tg md v = .ok n ∧ T.intoStr D tg md v = .ok n := by
  obtain ⟨n, hs, hn⟩ := C03_asStr D tg h ht md.asStr v hv
  exact ⟨n, hs, by rw [T.asStr_eq D tg md h hm v hv, hn], by rw [T.display_eq D tg md h hm v hv, hn],
    by rw [T.debug_eq D tg md h hm v hv, hn], by rw [T.intoStr_eq D tg md h hm v hv, hn]⟩

/-- the index into the name table goes through `#repr_unsigned`: the companion type written in `parser/mod.rs` on this run is the unsigned type of the repr's own width -/
theorem C03_repr_table_source (t : Target) :
    (ET.Generated.reprArms.all (armAgrees t)) = true
    ∧ (∀ r, (reprTable t r).isSome ↔ r ∈ ET.Generated.reprArms.map (·.1)) := repr_table_source t

end ET.Thm
