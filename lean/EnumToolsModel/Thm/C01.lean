/-
C01 — try_from/TryFrom is the exact partial inverse of into/Into over all repr values.
Statements only; helper lemmas live in `Lemmas/`.
-/
import EnumToolsModel.Lemmas.Scan
import EnumToolsModel.Lemmas.Examples
import EnumToolsModel.Lemmas.TemplatesEq
namespace ET.Thm

/-- `try_from(n)` is `Some(variant with discriminant n)` when one exists and `None` otherwise — for
every integer `n`, every well-formed derive, gapless or with holes; in particular never UB, never a panic. -/
theorem C01_tryFromFn (D : Derive) (h : D.WF) (n : Int) :
    tryFromFn D n = .ok (spec.tryFrom D.sem n) := by
  unfold tryFromFn spec.tryFrom
  rw [D.sem_discs]
  split
  · -- gapless: the bound test is the membership test
    rename_i hg
    unfold tryFromGapless minC maxC transmute
    have := h.mem_gapless hg n
    by_cases hm : n ∈ D.vals
    · have hb := this.mp hm
      simp [hm, hb.1, hb.2]
    · have hb : ¬ (D.minKey ≤ n ∧ n ≤ D.maxKey) := fun hh => hm (this.mpr hh)
      have : ¬ (n ≥ D.minKey ∧ n ≤ D.maxKey) := hb
      simp [hm, this]
  · -- with holes: bound test, then scan of the run table
    unfold tryFromHoles minC maxC
    obtain ⟨_, hex, _, _⟩ := h.table
    rw [tryFromScan_eq, hex]
    unfold transmute
    by_cases hm : n ∈ D.vals
    · have h1 := h.minKey_le n hm
      have h2 := h.le_maxKey n hm
      have : n ≥ D.minKey ∧ n ≤ D.maxKey := ⟨h1, h2⟩
      simp [hm, this]
    · simp [hm]

/-- the trait implementation agrees with the function -/
theorem C01_tryFromTrait (D : Derive) (h : D.WF) (n : Int) :
    tryFromTrait D n = .ok (spec.tryFrom D.sem n) := by
  rw [← C01_tryFromFn D h n]
  unfold tryFromTrait tryFromFn tryFromTraitGapless tryFromGapless tryFromTraitHoles tryFromHoles
  simp only [tryFromTraitScan_eq]

/-- `into` and `Into` return exactly the discriminant -/
theorem C01_into (D : Derive) (v : Int) : intoFn D v = spec.into D.sem v ∧ intoTrait D v = spec.into D.sem v :=
  ⟨rfl, rfl⟩

/-- `try_from(into(v)) == Some(v)` for every variant -/
theorem C01_roundtrip (D : Derive) (h : D.WF) (v : Int) (hv : v ∈ D.vals) :
    tryFromFn D (intoFn D v) = .ok (some v) ∧ tryFromTrait D (intoTrait D v) = .ok (some v) := by
  rw [C01_tryFromFn D h, C01_tryFromTrait D h]
  simp [spec.tryFrom, intoFn, intoTrait, hv]

/-- `try_from(n).map(into)` is `Some(n)` or `None`; and whatever is returned is a declared variant -/
theorem C01_partial_inverse (D : Derive) (h : D.WF) (n e : Int) (he : tryFromFn D n = .ok (some e)) :
    intoFn D e = n ∧ e ∈ D.vals := by
  rw [C01_tryFromFn D h] at he
  unfold spec.tryFrom at he
  rw [D.sem_discs] at he
  split at he
  · rename_i hm
    have : e = n := by injection he with he; injection he with he; exact he.symm
    subst this; exact ⟨rfl, hm⟩
  · injection he with he; cases he

/-- the hypotheses are satisfiable: a signed enum with three runs, a negative later run and a run at the type's MAX -/
example : exD1.WF ∧ tryFromFn exD1 (-5) = .ok (some (-5)) ∧ tryFromFn exD1 (-6) = .ok none := by
  refine ⟨exD1_WF, by decide, by decide⟩

/-- `try_from(n)` is `None` exactly when no variant has the discriminant `n` -/
theorem C01_none_iff (D : Derive) (h : D.WF) (n : Int) :
    tryFromFn D n = .ok none ↔ n ∉ D.vals := by
  rw [C01_tryFromFn D h]
  unfold spec.tryFrom
  rw [D.sem_discs]
  by_cases hm : n ∈ D.vals <;> simp [hm]

/-- `try_from` is injective where it succeeds: two integers that convert to the same variant are equal -/
theorem C01_injective (D : Derive) (h : D.WF) (n m e : Int)
    (hn : tryFromFn D n = .ok (some e)) (hm : tryFromFn D m = .ok (some e)) : n = m := by
  have a := (C01_partial_inverse D h n e hn).1
  have b := (C01_partial_inverse D h m e hm).1
  rw [← a, ← b]

/-- non-vacuity: a hole of a signed enum -/
example : exD1.WF ∧ tryFromFn exD1 0 = .ok none ∧ (0 : Int) ∉ exD1.vals := by
  refine ⟨exD1_WF, by decide, by decide⟩

/-! ### the same statements about the function bodies translated from /repo/src (`Generated/Templates.lean`) -/

/-- `try_from(n)` / `TryFrom::try_from(n)` as the source is written now, for every value `n` of the repr type -/
theorem C01_source_tryFrom (D : Derive) (tg : Target) (md : Modes) (h : D.WF) (n : Int) (hn : D.repr.InRange n) :
    T.tryFromFn D tg md n = .ok (spec.tryFrom D.sem n) ∧ T.tryFromTrait D tg md n = .ok (spec.tryFrom D.sem n) :=
  ⟨by rw [T.tryFromFn_eq D tg md h n hn]; exact C01_tryFromFn D h n,
   by rw [T.tryFromTrait_eq D tg md h n hn]; exact C01_tryFromTrait D h n⟩

/-- `into(v)` / `R::from(v)` as the source is written now -/
theorem C01_source_into (D : Derive) (tg : Target) (md : Modes) (h : D.WF) (v : Int) (hv : v ∈ D.vals) :
    T.intoFn D tg md v = .ok (spec.into D.sem v) ∧ T.intoTrait D tg md v = .ok (spec.into D.sem v) :=
  ⟨by rw [T.intoFn_eq D tg md h v hv, (C01_into D v).1], by rw [T.intoTrait_eq D tg md h v hv, (C01_into D v).2]⟩

/-- `try_from(into(v)) == Some(v)` for the translated bodies, function and trait forms -/
theorem C01_source_roundtrip (D : Derive) (tg : Target) (md : Modes) (h : D.WF) (v : Int) (hv : v ∈ D.vals) :
    (T.intoFn D tg md v).bind (fun n => T.tryFromFn D tg md n) = .ok (some v) ∧
    (T.intoTrait D tg md v).bind (fun n => T.tryFromTrait D tg md n) = .ok (some v) := by
  have hr := h.inRange v hv
  have hs : spec.tryFrom D.sem (spec.into D.sem v) = some v := by simp [spec.tryFrom, spec.into, hv]
  have e1 := (C01_source_into D tg md h v hv).1
  have e2 := (C01_source_into D tg md h v hv).2
  have hi : spec.into D.sem v = v := rfl
  rw [e1, e2, Res.bind_ok, Res.bind_ok, hi, (C01_source_tryFrom D tg md h v hr).1, (C01_source_tryFrom D tg md h v hr).2]
  rw [hi] at hs
  exact ⟨by rw [hs], by rw [hs]⟩

/-- the same over the translated source: within the repr's range, `None` exactly off the discriminants -/
theorem C01_source_none_iff (D : Derive) (tg : Target) (md : Modes) (h : D.WF) (n : Int) (hn : D.repr.InRange n) :
    T.tryFromFn D tg md n = .ok none ↔ n ∉ D.vals := by
  rw [T.tryFromFn_eq D tg md h n hn]
  exact C01_none_iff D h n

end ET.Thm
