/-
C10 — Every documented combination of features, modes and parameters compiles.   (partial)
Proved, over the modules regenerated from /repo/src on this run, for *all* feature subsets, modes
and both shapes at once (no enumeration of configurations):
  * a configuration that is legal per the documentation never reaches an `abort!`;
  * after `resolve`, no enabled feature is left in mode `auto`, and the mode of `iter` is legal;
  * closure: every helper item that a template of an enabled feature references (in the mode it
    ends up in, on that shape) is itself enabled — so it is generated;
  * everything the documentation names (features, parameters, modes, visibilities) is accepted by
    the attribute parser — except `iter(mode = "match")`, for which the negation is proved (known finding);
  * splitting the features over several attributes is the same as listing them in one.
Not proved: that rustc type-checks the emitted text (sampled by the probes).
-/
import EnumToolsModel.Lemmas.C10Aux
import EnumToolsModel.Thm.C01
import EnumToolsModel.Thm.C07
import EnumToolsModel.Thm.C08
import EnumToolsModel.Thm.C11
namespace ET.Thm
open ET.Generated

/-! ### legality as the documentation states it -/

/-- a legal configuration never reaches an `abort!` -/
theorem C10_legal_no_abort (sh : Shape) (fl : Flags) (m : Modes) (hl : LegalCfg sh fl m) :
    ∃ r, resolve sh fl m = .ok r := by
  have key : ∀ (mm : Modes) (fl' : Flags), (.range ∈ fl' → .iter ∈ fl' ∧ mm.iter ≠ .tableInline) →
      (.iter ∈ fl' → mm.iter = .range → sh.gapless = true) → aborts.find? (abortFires mm sh.gapless fl') = none := by
    intro mm fl' h1 h2
    rw [List.find?_eq_none]
    intro a ha
    have hmem : (a.src, a.guard, a.unlessFlag) ∈ aborts.map (fun a => (a.src, a.guard, a.unlessFlag)) := List.mem_map.mpr ⟨a, ha, rfl⟩
    rw [aborts_are_the_documented_ones] at hmem
    simp only [List.mem_cons, Prod.mk.injEq, List.mem_nil_iff, or_false] at hmem
    unfold abortFires
    rcases hmem with ⟨e1, e2, e3⟩ | ⟨e1, e2, e3⟩ | ⟨e1, e2, e3⟩
    · rw [e1, e2, e3]
      by_cases hr : Flag.range ∈ fl'
      · simp [guardHolds, hr, (h1 hr).1]
      · simp [hr]
    · rw [e1, e2, e3]
      by_cases hr : Flag.range ∈ fl'
      · have := (h1 hr).2
        cases hi : mm.iter <;> simp_all [guardHolds, Atom.eval]
      · simp [hr]
    · rw [e1, e2, e3]
      by_cases hi : Flag.iter ∈ fl'
      · by_cases hm : mm.iter = .range
        · have := h2 hi hm; simp [guardHolds, Atom.eval, this]
        · cases hh : mm.iter <;> simp_all [guardHolds, Atom.eval]
      · simp [hi]
  unfold resolve resolveWith
  rw [key m fl hl.1 hl.2]
  simp only [resolveAuto]
  -- the second evaluation, after auto
  have hr := (user_flag_stable sh fl m m .range (Or.inl rfl)).2
  have hi := (user_flag_stable sh fl m m .iter (Or.inr (Or.inl rfl))).2
  have ham := autoModes_spec sh (autoFlags sh (runRules rules m sh.gapless fl) m) m
  rw [key]
  · exact ⟨_, rfl⟩
  · intro hrange
    have hrf := hr.mp hrange
    refine ⟨hi.mpr (hl.1 hrf).1, ?_⟩
    by_cases hauto : m.iter = .auto
    · intro hti; exact (ham.2.2.2.2.2.2.2.2.2 hauto hti) hrange
    · rw [ham.2.2.2.2.2.2.2.1 hauto]; exact (hl.1 hrf).2
  · intro hiter hrange
    by_cases hauto : m.iter = .auto
    · exact ham.2.2.2.2.2.2.2.2.1 hauto hrange
    · rw [ham.2.2.2.2.2.2.2.1 hauto] at hrange; exact hl.2 (hi.mp hiter) hrange

/-! ### after `resolve` -/

/-- after `resolve`: no enabled feature is in mode `auto`; `iter` in range mode only on gapless enums;
`range` only together with `iter`, never with table_inline -/
theorem C10_resolved (sh : Shape) (fl : Flags) (m : Modes) (fl2 : Flags) (m2 : Modes) (h : resolve sh fl m = .ok (fl2, m2)) :
    (.asStr ∈ fl2 → m2.asStr ≠ .auto) ∧ (.fromStrFn ∈ fl2 → m2.fromStrFn ≠ .auto) ∧ (.fromStrTrait ∈ fl2 → m2.fromStrTrait ≠ .auto) ∧
    (.iter ∈ fl2 → m2.iter ≠ .auto ∧ (m2.iter = .range → sh.gapless = true)) ∧
    (.range ∈ fl2 → .iter ∈ fl2 ∧ m2.iter ≠ .tableInline) := by
  obtain ⟨_, hm2, hab2, hfl2⟩ := resolve_ok sh fl m fl2 m2 h
  have ham := autoModes_spec sh (autoFlags sh (runRules rules m sh.gapless fl) m) m
  rw [← hm2] at ham
  have hno := no_abort_of_find m2 sh.gapless _ hab2
  refine ⟨?_, ?_, ?_, ?_, ?_⟩
  · intro ha; rw [hfl2] at ha; exact ham.1 (asStr_stable sh fl m m2 ha)
  · intro ha; rw [hfl2] at ha; exact ham.2.1 (user_flag_back sh fl m m2 _ uo_fromStrFn ha)
  · intro ha; rw [hfl2] at ha; exact ham.2.2.1 (user_flag_back sh fl m m2 _ uo_fromStrTrait ha)
  · intro ha
    rw [hfl2] at ha
    have hi1 := user_flag_back sh fl m m2 _ uo_iter ha
    refine ⟨ham.2.2.2.1 hi1, fun hr => ?_⟩
    obtain ⟨a, haa, hae⟩ := abort_mem (.iter, [.iterIn [.range], .holes], none) (by simp)
    have := hno a haa
    unfold abortFires at this
    simp only [Prod.mk.injEq] at hae
    rw [hae.1, hae.2.1, hae.2.2] at this
    cases hg : sh.gapless with
    | true => rfl
    | false =>
      simp [guardHolds, Atom.eval, hr, hg] at this
      rw [hg] at hi1
      exact absurd hi1 this
  · intro ha
    rw [hfl2] at ha
    have hr1 := user_flag_back sh fl m m2 _ uo_range ha
    constructor
    · obtain ⟨a, haa, hae⟩ := abort_mem (.range, [], some .iter) (by simp)
      have := hno a haa
      unfold abortFires at this
      simp only [Prod.mk.injEq] at hae
      rw [hae.1, hae.2.1, hae.2.2] at this
      simp only [guardHolds, List.all_nil, Bool.and_true, List.contains_eq_mem, hr1, decide_true, Bool.true_and,
        Bool.not_eq_eq_eq_not, Bool.not_false, decide_eq_true_eq] at this
      rw [hfl2]
      exact run_mono m2 sh.gapless rules _ _ (by simpa using this)
    · intro hti
      obtain ⟨a, haa, hae⟩ := abort_mem (.range, [.iterIn [.tableInline]], none) (by simp)
      have := hno a haa
      unfold abortFires at this
      simp only [Prod.mk.injEq] at hae
      rw [hae.1, hae.2.1, hae.2.2] at this
      simp [guardHolds, Atom.eval, hr1, hti] at this

/-! ### closure: everything a template references is generated -/

/-- After `resolve`, for every enabled feature, every helper item its templates reference — in the mode it
was resolved to, on this shape — is enabled as well (with the numeric offset when the template reads it).
For all feature subsets, all modes, both shapes. -/
theorem C10_closure (sh : Shape) (fl : Flags) (m : Modes) (fl2 : Flags) (m2 : Modes) (h : resolve sh fl m = .ok (fl2, m2))
    (f : Flag) (hf : f ∈ fl2) (u : Flag) (hu : u ∈ uses f m2 sh.gapless) : u ∈ fl2 := by
  obtain ⟨_, hm2, hab2, hfl2⟩ := resolve_ok sh fl m fl2 m2 h
  have hsat := run_sat m2 sh.gapless rules (autoFlags sh (runRules rules m sh.gapless fl) m) rules_ordered
  rw [← hfl2] at hsat
  have hc := uses_covered
  unfold usesCovered at hc
  have h1 := List.all_eq_true.mp hc f (Flag.mem_all f)
  have h2 := List.all_eq_true.mp h1 m2 (Modes.mem_all m2)
  have h3 := List.all_eq_true.mp h2 sh.gapless (by cases sh.gapless <;> simp)
  have h4 := List.all_eq_true.mp h3 u hu
  have hcl : u ∈ closureOf m2 sh.gapless f := by simpa using h4
  -- the seed is enabled: f itself, and what f aborts without
  have hseed : ∀ x ∈ seedOf f, x ∈ fl2 := by
    intro x hx
    rcases List.mem_cons.mp hx with e | e
    · rw [e]; exact hf
    · obtain ⟨a, ha, hprop⟩ := List.mem_filterMap.mp e
      split at hprop
      · rename_i hcond
        simp only [Bool.and_eq_true, beq_iff_eq, List.isEmpty_iff, List.all_eq_true, Bool.not_eq_true', List.contains_eq_mem,
          decide_eq_false_iff_not] at hcond
        obtain ⟨⟨hsrc, hguard⟩, huser⟩ := hcond
        have hno := no_abort_of_find m2 sh.gapless _ hab2 a ha
        have hf1 : f ∈ autoFlags sh (runRules rules m sh.gapless fl) m := by
          rw [hfl2] at hf
          exact (run_frame m2 sh.gapless rules _ f huser).mp hf
        unfold abortFires at hno
        rw [hsrc, hguard, hprop] at hno
        simp only [guardHolds, List.all_nil, Bool.and_true, List.contains_eq_mem, hf1, decide_true, Bool.true_and,
          Bool.not_eq_eq_eq_not, Bool.not_false, decide_eq_true_eq] at hno
        rw [hfl2]
        exact run_mono m2 sh.gapless rules _ _ (by simpa using hno)
      · cases hprop
  exact closed_subset m2 sh.gapless fl2 rules hsat (seedOf f) hseed u hcl

/-- `__RANGES` is only emitted for enums with holes, and no template of a gapless branch refers to it -/
theorem C10_no_table_range_when_gapless :
    (Flag.all.all fun f => Modes.all.all fun m => !(uses f m true).contains .tableRange && !(uses f m true).contains .tableRangeOfs) = true := by
  decide +kernel

/-! ### the documentation is accepted -/

/-- every documented feature exists, with every documented parameter; `sorted` is parsed separately with `name`, `value` -/
theorem C10_docs_features_and_params :
    (docFeatures.all (fun d =>
      if d.key == "sorted" then d.params.all (fun p => p == "name" || p == "value")
      else match specOf d.key with
        | some s => (documentedParams d).all (fun p => (acceptedParams s).contains p)
        | none => false)) = true := by
  decide +kernel

/-- every documented mode value is accepted — except `iter(mode = "match")` -/
theorem C10_docs_modes_partial :
    (docFeatures.all (fun d => d.modes.all (fun mo =>
      (d.key == "iter" && mo == "match") ||
      (match specOf d.key with | some s => s.modes.contains mo | none => false)))) = true := by
  decide +kernel

/-- the documented visibility values are the accepted ones -/
theorem C10_docs_vis : docVisValues = ["", "pub(crate)", "pub"] := by decide +kernel

/-! ### "each item enabled this way then satisfies its own guarantee" -/

/-- The whole pipeline, for every declaration and configuration the derive accepts: the enum the derive works with is
the enum the language defines (`d.sem`, rustc's own discriminant rule), and every function body the templates contain —
as translated from /repo/src on this run, in the modes `resolve` ended in — computes the specification of *that* enum:
for every value of the repr type, every variant, every string, every finite iterator history. -/
theorem C10_enabled_items_meet_spec (t : Target) (ht : t.WF) (d : Decl) (x : Expansion) (h : expand t d = .ok x)
    (hr : RustcAcceptsEnum x) :
    ∃ E, d.sem = some E ∧ E.discs = x.D.vals ∧
      (∀ n, x.D.repr.InRange n →
        T.tryFromFn x.D t x.modes n = .ok (spec.tryFrom E n) ∧ T.tryFromTrait x.D t x.modes n = .ok (spec.tryFrom E n)) ∧
      (∀ v ∈ E.discs,
        T.intoFn x.D t x.modes v = .ok (spec.into E v) ∧ T.intoTrait x.D t x.modes v = .ok (spec.into E v) ∧
        T.next x.D t x.modes v = .ok (spec.next E v) ∧ T.nextBack x.D t x.modes v = .ok (spec.nextBack E v)) ∧
      (.asStr ∈ x.flags → ∀ v ∈ E.discs, ∃ nm, spec.asStr E v = some nm ∧ T.asStr x.D t x.modes v = .ok nm ∧
        T.display x.D t x.modes v = .ok nm ∧ T.debug x.D t x.modes v = .ok nm ∧ T.intoStr x.D t x.modes v = .ok nm) ∧
      (.fromStrFn ∈ x.flags → ∀ s, T.fromStrFn x.D t x.modes s = .ok (spec.fromStr E s)) ∧
      (.fromStrTrait ∈ x.flags → ∀ s, T.fromStrTrait x.D t x.modes s = .ok (spec.fromStr E s)) ∧
      (T.names x.D t x.modes = .ok (.cursor (spec.names E))) ∧
      (.iter ∈ x.flags → ∀ (ops : List Op) (fin : Fin), ∃ st st', T.iter x.D t x.modes = .ok st ∧
        T.runT x.D t x.modes st ops = .ok (st', (Cursor.run (spec.iter E) ops).2) ∧
        T.finishT x.D t x.modes st' fin = .ok (Cursor.finish (Cursor.run (spec.iter E) ops).1 fin)) ∧
      (.range ∈ x.flags → ∀ a ∈ E.discs, ∀ b ∈ E.discs, ∀ (ops : List Op) (fin : Fin), ∃ st st',
        T.range x.D t x.modes a b = .ok st ∧
        T.runT x.D t x.modes st ops = .ok (st', (Cursor.run (spec.range E a b) ops).2) ∧
        T.finishT x.D t x.modes st' fin = .ok (Cursor.finish (Cursor.run (spec.range E a b) ops).1 fin)) := by
  have hwf := C11_WF t ht d x h hr
  have hsem := C11_sem t d x h
  obtain ⟨fl, m, hres⟩ := expand_resolved t d x h
  obtain ⟨r1, r2, r3, r4, r5⟩ := C10_resolved _ fl m x.flags x.modes hres
  refine ⟨x.D.sem, hsem, x.D.sem_discs, ?_, ?_, ?_, ?_, ?_, C08_source x.D t x.modes, ?_, ?_⟩
  · intro n hn; exact C01_source_tryFrom x.D t x.modes hwf n hn
  · intro v hv
    rw [x.D.sem_discs] at hv
    exact ⟨(C01_source_into x.D t x.modes hwf v hv).1, (C01_source_into x.D t x.modes hwf v hv).2,
      (C05_source x.D t x.modes hwf v hv).1, (C05_source x.D t x.modes hwf v hv).2⟩
  · intro ha v hv
    rw [x.D.sem_discs] at hv
    exact C03_source x.D t x.modes hwf ht (r1 ha) v hv
  · intro ha s; exact (C04_source x.D t x.modes hwf s).1 (r2 ha)
  · intro ha s; exact (C04_source x.D t x.modes hwf s).2 (r3 ha)
  · intro ha ops fin
    exact C06_source x.D t x.modes hwf ht (r4 ha).1 (r4 ha).2 ops fin
  · intro ha a hav b hbv ops fin
    rw [x.D.sem_discs] at hav hbv
    obtain ⟨hi, hni⟩ := r5 ha
    obtain ⟨hna, hrg⟩ := r4 hi
    have hm : x.modes.iter = .range ∨ x.modes.iter = .nextAndBack ∨ x.modes.iter = .table := by
      cases hmi : x.modes.iter <;> simp_all
    exact C07_source x.D t x.modes hwf ht hm hrg a b hav hbv ops fin

/-! ### one attribute or several -/

/-- splitting the features over several `#[enum_tools(..)]` attributes is equivalent to listing them in one -/
theorem C10_split_equiv (st : AttrsOut) (a b : List CfgItem) (rest : List EAttr) :
    parseAttrs st (.enumTools (some (a ++ b)) :: rest) = parseAttrs st (.enumTools (some a) :: .enumTools (some b) :: rest) := by
  simp only [parseAttrs, parseItems_append]
  cases parseItems st.fm st.errs a with
  | none => rfl
  | some r => obtain ⟨fm, e⟩ := r; rfl

end ET.Thm
