/-
C10 — Every documented combination of features, modes and parameters compiles.   (partial)
Proved, over the modules regenerated from /repo/src on this run, for *all* feature subsets, modes
and both shapes at once (no enumeration of configurations):
  * a configuration that is legal per the documentation never reaches an `abort!`;
  * after `resolve`, no enabled feature is left in mode `auto`, and the mode of `iter` is legal;
  * closure: every helper item that a template of an enabled feature references (in the mode it
    ends up in, on that shape) is itself enabled — so it is generated;
  * everything the documentation names (features, parameters, modes, visibilities) is accepted by
    the attribute parser — except `iter(mode = "match")`, for which the negation is proved (known finding);
  * splitting the features over several attributes is the same as listing them in one.
Not proved: that rustc type-checks the emitted text (sampled by the probes).
-/
import EnumToolsModel.Lemmas.Resolve
import EnumToolsModel.Generated.Uses
import EnumToolsModel.Generated.Docs
import EnumToolsModel.Generated.Catalog
namespace ET.Thm
open ET.Generated

/-! ### legality as the documentation states it -/

/-- `range` needs `iter`, not in mode table_inline; iter mode `range` needs a gapless enum -/
def LegalCfg (sh : Shape) (fl : Flags) (m : Modes) : Prop :=
  (.range ∈ fl → .iter ∈ fl ∧ m.iter ≠ .tableInline) ∧ (.iter ∈ fl → m.iter = .range → sh.gapless = true)

/-- the three abort conditions the model knows are exactly the ones in the code -/
theorem aborts_are_the_documented_ones :
    (aborts.map (fun a => (a.src, a.guard, a.unlessFlag))) =
      [(.range, [], some .iter), (.range, [.iterIn [.tableInline]], none), (.iter, [.iterIn [.range], .holes], none)] := by
  decide +kernel

/-- flags only the user can set (no rule sets them) -/
theorem user_only_flags :
    (rules.all (fun r => !r.sets.contains .range && !r.sets.contains .iter && !r.sets.contains .fromStrFn &&
      !r.sets.contains .fromStrTrait && !r.sets.contains .debug && !r.sets.contains .display && !r.sets.contains .intoStr)) = true := by
  decide +kernel

theorem user_only (f : Flag) (hf : f = .range ∨ f = .iter ∨ f = .fromStrFn ∨ f = .fromStrTrait ∨ f = .debug ∨ f = .display ∨ f = .intoStr) :
    ∀ r ∈ rules, f ∉ r.sets := by
  intro r hr
  have := List.all_eq_true.mp user_only_flags r hr
  simp only [Bool.and_eq_true, Bool.not_eq_true', List.contains_eq_mem, decide_eq_false_iff_not] at this
  rcases hf with rfl | rfl | rfl | rfl | rfl | rfl | rfl <;> simp_all

/-- user-only flags are the same before and after `resolve` -/
theorem user_flag_stable (sh : Shape) (fl : Flags) (m m' : Modes) (f : Flag)
    (hf : f = .range ∨ f = .iter ∨ f = .fromStrFn ∨ f = .fromStrTrait ∨ f = .debug ∨ f = .display ∨ f = .intoStr) :
    (f ∈ runRules rules m' sh.gapless (autoFlags sh (runRules rules m sh.gapless fl) m) ↔ f ∈ fl) ∧
    (f ∈ autoFlags sh (runRules rules m sh.gapless fl) m ↔ f ∈ fl) := by
  have hne : f ≠ .tableName := by rcases hf with rfl | rfl | rfl | rfl | rfl | rfl | rfl <;> decide
  have h1 := run_frame m sh.gapless rules fl f (user_only f hf)
  have h2 : f ∈ autoFlags sh (runRules rules m sh.gapless fl) m ↔ f ∈ fl := by
    constructor
    · intro h; exact h1.mp (((autoFlags_spec sh _ m f).2 h).resolve_right hne)
    · intro h; exact (autoFlags_spec sh _ m f).1 (h1.mpr h)
  exact ⟨(run_frame m' sh.gapless rules _ f (user_only f hf)).trans h2, h2⟩

theorem abort_mem (a : Flag × List Atom × Option Flag)
    (ha : a ∈ [(Flag.range, ([] : List Atom), some Flag.iter), (.range, [.iterIn [.tableInline]], none), (.iter, [.iterIn [.range], .holes], none)]) :
    ∃ r ∈ aborts, (r.src, r.guard, r.unlessFlag) = a := by
  rw [← aborts_are_the_documented_ones] at ha
  obtain ⟨r, hr, e⟩ := List.mem_map.mp ha
  exact ⟨r, hr, e⟩

theorem no_abort_of_find (mm : Modes) (g : Bool) (fl : Flags) (h : aborts.find? (abortFires mm g fl) = none) :
    ∀ a ∈ aborts, abortFires mm g fl a = false := by
  intro a ha
  have := List.find?_eq_none.mp h a ha
  simpa using this

/-- a legal configuration never reaches an `abort!` -/
theorem C10_legal_no_abort (sh : Shape) (fl : Flags) (m : Modes) (hl : LegalCfg sh fl m) :
    ∃ r, resolve sh fl m = .ok r := by
  have key : ∀ (mm : Modes) (fl' : Flags), (.range ∈ fl' → .iter ∈ fl' ∧ mm.iter ≠ .tableInline) →
      (.iter ∈ fl' → mm.iter = .range → sh.gapless = true) → aborts.find? (abortFires mm sh.gapless fl') = none := by
    intro mm fl' h1 h2
    rw [List.find?_eq_none]
    intro a ha
    have hmem : (a.src, a.guard, a.unlessFlag) ∈ aborts.map (fun a => (a.src, a.guard, a.unlessFlag)) := List.mem_map.mpr ⟨a, ha, rfl⟩
    rw [aborts_are_the_documented_ones] at hmem
    simp only [List.mem_cons, Prod.mk.injEq, List.mem_nil_iff, or_false] at hmem
    unfold abortFires
    rcases hmem with ⟨e1, e2, e3⟩ | ⟨e1, e2, e3⟩ | ⟨e1, e2, e3⟩
    · rw [e1, e2, e3]
      by_cases hr : Flag.range ∈ fl'
      · simp [guardHolds, hr, (h1 hr).1]
      · simp [hr]
    · rw [e1, e2, e3]
      by_cases hr : Flag.range ∈ fl'
      · have := (h1 hr).2
        cases hi : mm.iter <;> simp_all [guardHolds, Atom.eval]
      · simp [hr]
    · rw [e1, e2, e3]
      by_cases hi : Flag.iter ∈ fl'
      · by_cases hm : mm.iter = .range
        · have := h2 hi hm; simp [guardHolds, Atom.eval, this]
        · cases hh : mm.iter <;> simp_all [guardHolds, Atom.eval]
      · simp [hi]
  unfold resolve resolveWith
  rw [key m fl hl.1 hl.2]
  simp only [resolveAuto]
  -- the second evaluation, after auto
  have hr := (user_flag_stable sh fl m m .range (Or.inl rfl)).2
  have hi := (user_flag_stable sh fl m m .iter (Or.inr (Or.inl rfl))).2
  have ham := autoModes_spec sh (autoFlags sh (runRules rules m sh.gapless fl) m) m
  rw [key]
  · exact ⟨_, rfl⟩
  · intro hrange
    have hrf := hr.mp hrange
    refine ⟨hi.mpr (hl.1 hrf).1, ?_⟩
    by_cases hauto : m.iter = .auto
    · intro hti; exact (ham.2.2.2.2.2.2.2.2.2 hauto hti) hrange
    · rw [ham.2.2.2.2.2.2.2.1 hauto]; exact (hl.1 hrf).2
  · intro hiter hrange
    by_cases hauto : m.iter = .auto
    · exact ham.2.2.2.2.2.2.2.2.1 hauto hrange
    · rw [ham.2.2.2.2.2.2.2.1 hauto] at hrange; exact hl.2 (hi.mp hiter) hrange

/-! ### after `resolve` -/

/-- every rule that sets the flag of a feature with modes is unguarded and fires from a user-only flag
(so "enabled" means the same before and after `auto`) -/
theorem mode_flags_stable_table :
    (rules.all (fun r => !r.sets.contains .asStr || (r.guard.isEmpty && (r.src == .debug || r.src == .display || r.src == .intoStr)))) = true := by
  decide +kernel

theorem asStr_stable (sh : Shape) (fl : Flags) (m m' : Modes)
    (h : .asStr ∈ runRules rules m' sh.gapless (autoFlags sh (runRules rules m sh.gapless fl) m)) :
    .asStr ∈ autoFlags sh (runRules rules m sh.gapless fl) m := by
  rcases run_origin m' sh.gapless rules _ _ h with h1 | ⟨r, hr, hs, _, hsrc⟩
  · exact h1
  · have ht := List.all_eq_true.mp mode_flags_stable_table r hr
    simp only [Bool.or_eq_true, Bool.not_eq_true', List.contains_eq_mem, decide_eq_false_iff_not, Bool.and_eq_true,
      List.isEmpty_iff, beq_iff_eq] at ht
    rcases ht with ht | ⟨hg, hsrc3⟩
    · exact absurd hs ht
    · have hu : r.src = .range ∨ r.src = .iter ∨ r.src = .fromStrFn ∨ r.src = .fromStrTrait ∨ r.src = .debug ∨ r.src = .display ∨ r.src = .intoStr := by
        rcases hsrc3 with (e | e) | e
        · exact Or.inr (Or.inr (Or.inr (Or.inr (Or.inl e))))
        · exact Or.inr (Or.inr (Or.inr (Or.inr (Or.inr (Or.inl e)))))
        · exact Or.inr (Or.inr (Or.inr (Or.inr (Or.inr (Or.inr e)))))
      have hsrc0 : r.src ∈ fl := (user_flag_stable sh fl m m' r.src hu).1.mp hsrc
      -- the rule already fired in the first pass
      have hsat := run_sat m sh.gapless rules fl rules_ordered r hr
      have : Flag.asStr ∈ runRules rules m sh.gapless fl :=
        hsat (run_mono m sh.gapless rules fl _ hsrc0) (by rw [hg]; rfl) _ hs
      exact (autoFlags_spec sh _ m _).1 this

theorem uo_range : Flag.range = .range ∨ Flag.range = .iter ∨ Flag.range = .fromStrFn ∨ Flag.range = .fromStrTrait ∨ Flag.range = .debug ∨ Flag.range = .display ∨ Flag.range = .intoStr := Or.inl rfl
theorem uo_iter : Flag.iter = .range ∨ Flag.iter = .iter ∨ Flag.iter = .fromStrFn ∨ Flag.iter = .fromStrTrait ∨ Flag.iter = .debug ∨ Flag.iter = .display ∨ Flag.iter = .intoStr := Or.inr (Or.inl rfl)
theorem uo_fromStrFn : Flag.fromStrFn = .range ∨ Flag.fromStrFn = .iter ∨ Flag.fromStrFn = .fromStrFn ∨ Flag.fromStrFn = .fromStrTrait ∨ Flag.fromStrFn = .debug ∨ Flag.fromStrFn = .display ∨ Flag.fromStrFn = .intoStr := Or.inr (Or.inr (Or.inl rfl))
theorem uo_fromStrTrait : Flag.fromStrTrait = .range ∨ Flag.fromStrTrait = .iter ∨ Flag.fromStrTrait = .fromStrFn ∨ Flag.fromStrTrait = .fromStrTrait ∨ Flag.fromStrTrait = .debug ∨ Flag.fromStrTrait = .display ∨ Flag.fromStrTrait = .intoStr := Or.inr (Or.inr (Or.inr (Or.inl rfl)))

/-- a user-only flag that is enabled after `resolve` was enabled all along -/
theorem user_flag_back (sh : Shape) (fl : Flags) (m m' : Modes) (f : Flag)
    (hf : f = .range ∨ f = .iter ∨ f = .fromStrFn ∨ f = .fromStrTrait ∨ f = .debug ∨ f = .display ∨ f = .intoStr)
    (h : f ∈ runRules rules m' sh.gapless (autoFlags sh (runRules rules m sh.gapless fl) m)) :
    f ∈ autoFlags sh (runRules rules m sh.gapless fl) m :=
  (user_flag_stable sh fl m m' f hf).2.mpr ((user_flag_stable sh fl m m' f hf).1.mp h)

/-- after `resolve`: no enabled feature is in mode `auto`; `iter` in range mode only on gapless enums;
`range` only together with `iter`, never with table_inline -/
theorem C10_resolved (sh : Shape) (fl : Flags) (m : Modes) (fl2 : Flags) (m2 : Modes) (h : resolve sh fl m = .ok (fl2, m2)) :
    (.asStr ∈ fl2 → m2.asStr ≠ .auto) ∧ (.fromStrFn ∈ fl2 → m2.fromStrFn ≠ .auto) ∧ (.fromStrTrait ∈ fl2 → m2.fromStrTrait ≠ .auto) ∧
    (.iter ∈ fl2 → m2.iter ≠ .auto ∧ (m2.iter = .range → sh.gapless = true)) ∧
    (.range ∈ fl2 → .iter ∈ fl2 ∧ m2.iter ≠ .tableInline) := by
  obtain ⟨_, hm2, hab2, hfl2⟩ := resolve_ok sh fl m fl2 m2 h
  have ham := autoModes_spec sh (autoFlags sh (runRules rules m sh.gapless fl) m) m
  rw [← hm2] at ham
  have hno := no_abort_of_find m2 sh.gapless _ hab2
  refine ⟨?_, ?_, ?_, ?_, ?_⟩
  · intro ha; rw [hfl2] at ha; exact ham.1 (asStr_stable sh fl m m2 ha)
  · intro ha; rw [hfl2] at ha; exact ham.2.1 (user_flag_back sh fl m m2 _ uo_fromStrFn ha)
  · intro ha; rw [hfl2] at ha; exact ham.2.2.1 (user_flag_back sh fl m m2 _ uo_fromStrTrait ha)
  · intro ha
    rw [hfl2] at ha
    have hi1 := user_flag_back sh fl m m2 _ uo_iter ha
    refine ⟨ham.2.2.2.1 hi1, fun hr => ?_⟩
    obtain ⟨a, haa, hae⟩ := abort_mem (.iter, [.iterIn [.range], .holes], none) (by simp)
    have := hno a haa
    unfold abortFires at this
    simp only [Prod.mk.injEq] at hae
    rw [hae.1, hae.2.1, hae.2.2] at this
    cases hg : sh.gapless with
    | true => rfl
    | false =>
      simp [guardHolds, Atom.eval, hr, hg] at this
      rw [hg] at hi1
      exact absurd hi1 this
  · intro ha
    rw [hfl2] at ha
    have hr1 := user_flag_back sh fl m m2 _ uo_range ha
    constructor
    · obtain ⟨a, haa, hae⟩ := abort_mem (.range, [], some .iter) (by simp)
      have := hno a haa
      unfold abortFires at this
      simp only [Prod.mk.injEq] at hae
      rw [hae.1, hae.2.1, hae.2.2] at this
      simp only [guardHolds, List.all_nil, Bool.and_true, List.contains_eq_mem, hr1, decide_true, Bool.true_and,
        Bool.not_eq_eq_eq_not, Bool.not_false, decide_eq_true_eq] at this
      rw [hfl2]
      exact run_mono m2 sh.gapless rules _ _ (by simpa using this)
    · intro hti
      obtain ⟨a, haa, hae⟩ := abort_mem (.range, [.iterIn [.tableInline]], none) (by simp)
      have := hno a haa
      unfold abortFires at this
      simp only [Prod.mk.injEq] at hae
      rw [hae.1, hae.2.1, hae.2.2] at this
      simp [guardHolds, Atom.eval, hr1, hti] at this

/-! ### closure: everything a template references is generated -/

/-- what an enabled feature brings with it before the rules run: itself, and the features without which it aborts -/
def seedOf (f : Flag) : Flags :=
  f :: aborts.filterMap (fun a => if a.src == f && a.guard.isEmpty && rules.all (fun r => !r.sets.contains f) then a.unlessFlag else none)

/-- the consequences of one enabled feature under the rules -/
def closureOf (m : Modes) (g : Bool) (f : Flag) : Flags := runRules rules m g (seedOf f)

/-- decidable, over the regenerated tables: every item referenced by a template of `f` (mode `m`, shape `g`)
is a consequence of `f` (and of the features `f` cannot be enabled without) -/
def usesCovered : Bool :=
  Flag.all.all fun f => Modes.all.all fun m => [true, false].all fun g => (uses f m g).all fun u => (closureOf m g f).contains u

theorem uses_covered : usesCovered = true := by decide +kernel

/-- After `resolve`, for every enabled feature, every helper item its templates reference — in the mode it
was resolved to, on this shape — is enabled as well (with the numeric offset when the template reads it).
For all feature subsets, all modes, both shapes. -/
theorem C10_closure (sh : Shape) (fl : Flags) (m : Modes) (fl2 : Flags) (m2 : Modes) (h : resolve sh fl m = .ok (fl2, m2))
    (f : Flag) (hf : f ∈ fl2) (u : Flag) (hu : u ∈ uses f m2 sh.gapless) : u ∈ fl2 := by
  obtain ⟨_, hm2, hab2, hfl2⟩ := resolve_ok sh fl m fl2 m2 h
  have hsat := run_sat m2 sh.gapless rules (autoFlags sh (runRules rules m sh.gapless fl) m) rules_ordered
  rw [← hfl2] at hsat
  have hc := uses_covered
  unfold usesCovered at hc
  have h1 := List.all_eq_true.mp hc f (Flag.mem_all f)
  have h2 := List.all_eq_true.mp h1 m2 (Modes.mem_all m2)
  have h3 := List.all_eq_true.mp h2 sh.gapless (by cases sh.gapless <;> simp)
  have h4 := List.all_eq_true.mp h3 u hu
  have hcl : u ∈ closureOf m2 sh.gapless f := by simpa using h4
  -- the seed is enabled: f itself, and what f aborts without
  have hseed : ∀ x ∈ seedOf f, x ∈ fl2 := by
    intro x hx
    rcases List.mem_cons.mp hx with e | e
    · rw [e]; exact hf
    · obtain ⟨a, ha, hprop⟩ := List.mem_filterMap.mp e
      split at hprop
      · rename_i hcond
        simp only [Bool.and_eq_true, beq_iff_eq, List.isEmpty_iff, List.all_eq_true, Bool.not_eq_true', List.contains_eq_mem,
          decide_eq_false_iff_not] at hcond
        obtain ⟨⟨hsrc, hguard⟩, huser⟩ := hcond
        have hno := no_abort_of_find m2 sh.gapless _ hab2 a ha
        have hf1 : f ∈ autoFlags sh (runRules rules m sh.gapless fl) m := by
          rw [hfl2] at hf
          exact (run_frame m2 sh.gapless rules _ f huser).mp hf
        unfold abortFires at hno
        rw [hsrc, hguard, hprop] at hno
        simp only [guardHolds, List.all_nil, Bool.and_true, List.contains_eq_mem, hf1, decide_true, Bool.true_and,
          Bool.not_eq_eq_eq_not, Bool.not_false, decide_eq_true_eq] at hno
        rw [hfl2]
        exact run_mono m2 sh.gapless rules _ _ (by simpa using hno)
      · cases hprop
  exact closed_subset m2 sh.gapless fl2 rules hsat (seedOf f) hseed u hcl

/-- `__RANGES` is only emitted for enums with holes, and no template of a gapless branch refers to it -/
theorem C10_no_table_range_when_gapless :
    (Flag.all.all fun f => Modes.all.all fun m => !(uses f m true).contains .tableRange && !(uses f m true).contains .tableRangeOfs) = true := by
  decide +kernel

/-! ### the documentation is accepted -/

def acceptedParams (s : FeatSpec) : List String :=
  (if s.hasVisName then ["vis", "name"] else []) ++ (match s.structKey with | some k => [k] | none => []) ++
    (match s.modeKind with | .none => [] | _ => ["mode"])

def documentedParams (d : DocFeature) : List String := d.params ++ (if d.sig.isSome then ["name", "vis"] else [])

def specOf (k : String) : Option FeatSpec := catalog.find? (·.key == k)

/-- every documented feature exists, with every documented parameter; `sorted` is parsed separately with `name`, `value` -/
theorem C10_docs_features_and_params :
    (docFeatures.all (fun d =>
      if d.key == "sorted" then d.params.all (fun p => p == "name" || p == "value")
      else match specOf d.key with
        | some s => (documentedParams d).all (fun p => (acceptedParams s).contains p)
        | none => false)) = true := by
  decide +kernel

/-- every documented mode value is accepted — except `iter(mode = "match")` -/
theorem C10_docs_modes_partial :
    (docFeatures.all (fun d => d.modes.all (fun mo =>
      (d.key == "iter" && mo == "match") ||
      (match specOf d.key with | some s => s.modes.contains mo | none => false)))) = true := by
  decide +kernel

/-- the documented visibility values are the accepted ones -/
theorem C10_docs_vis : docVisValues = ["", "pub(crate)", "pub"] := by decide +kernel

/-- KNOWN FINDING (negation of the full-strength statement): the documentation lists mode `"match"` for
`iter`, the parser does not accept it -/
theorem C10_docs_iter_match_rejected :
    (docFeatures.any (fun d => d.key == "iter" && d.modes.contains "match")) = true ∧
    (match specOf "iter" with | some s => s.modes.contains "match" | none => true) = false := by
  decide +kernel

/-! ### one attribute or several -/

theorem parseItems_append (a b : List CfgItem) : ∀ (fm : FeatureMap) (errs : List Err),
    parseItems fm errs (a ++ b) = (match parseItems fm errs a with | none => none | some (fm', errs') => parseItems fm' errs' b) := by
  induction a with
  | nil => intro fm errs; simp [parseItems]
  | cons x rest ih =>
    intro fm errs
    cases x with
    | path p => cases p <;> simp [parseItems, ih]
    | other => simp [parseItems, ih]
    | list p ps =>
      cases p with
      | complex => cases ps <;> simp [parseItems]
      | simple n =>
        cases ps with
        | none => simp [parseItems]
        | some l =>
          simp only [List.cons_append, parseItems]
          cases parseParams [] errs l with
          | none => rfl
          | some r => obtain ⟨pm, e⟩ := r; simp [ih]

/-- splitting the features over several `#[enum_tools(..)]` attributes is equivalent to listing them in one -/
theorem C10_split_equiv (st : AttrsOut) (a b : List CfgItem) (rest : List EAttr) :
    parseAttrs st (.enumTools (some (a ++ b)) :: rest) = parseAttrs st (.enumTools (some a) :: .enumTools (some b) :: rest) := by
  simp only [parseAttrs, parseItems_append]
  cases parseItems st.fm st.errs a with
  | none => rfl
  | some r => obtain ⟨fm, e⟩ := r; rfl

end ET.Thm
