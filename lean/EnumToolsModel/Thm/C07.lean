/-
C07 — range(a, b) is iter() restricted to a <= v <= b, empty when a > b, in every mode.
-/
import EnumToolsModel.Lemmas.Range
import EnumToolsModel.Thm.C06
import EnumToolsModel.Lemmas.TemplatesRun
import EnumToolsModel.Lemmas.ReprTableEq
namespace ET.Thm

/-- the specification, by positions -/
theorem spec_range_pos (D : Derive) (h : D.WF) (a b : Int) (ia ib : Nat) (ha : D.vals[ia]? = some a) (hb : D.vals[ib]? = some b) :
    spec.range D.sem a b = absList D.vals ia (ib + 1 - ia) := by
  obtain ⟨hia, rfl⟩ := List.getElem?_eq_some_iff.mp ha
  obtain ⟨hib, rfl⟩ := List.getElem?_eq_some_iff.mp hb
  unfold spec.range
  rw [D.sem_discs]
  exact filter_between_sorted D.vals h.sorted ia ib hia hib

/-- the `next_and_back` struct built by `range` -/
theorem sim_nb_range (D : Derive) (a b : Int) (ia ib : Nat) (ha : D.vals[ia]? = some a) (hb : D.vals[ib]? = some b) :
    Sim D.vals (.nb (some a) (some b) (nbLen ia ib)) (absList D.vals ia (ib + 1 - ia)) := by
  have hia := (List.getElem?_eq_some_iff.mp ha).1
  have hib := (List.getElem?_eq_some_iff.mp hb).1
  have hlen : nbLen ia ib = ib + 1 - ia := by unfold nbLen; split <;> omega
  rw [hlen]
  refine Sim.nb _ _ _ _ ⟨by omega, fun h0 => ⟨ha.symm, ?_⟩⟩
  rw [← hb]; congr 1; omega

/-- the slice built by `range` in table mode (empty when the start index is above the end index: no panic) -/
theorem sim_slice_range (D : Derive) (ia ib : Nat) (hib : ib < D.vals.length) :
    ∃ st, rangeSlice D ia ib = .ok st ∧ Sim D.vals st (absList D.vals ia (ib + 1 - ia)) := by
  unfold rangeSlice
  split
  · rename_i hgt
    have : ib + 1 - ia = 0 := by omega
    rw [this, abs_zero]
    exact ⟨_, rfl, Sim.cursor _⟩
  · rename_i hle
    unfold sliceIncl tableEnum
    have h1 : ¬ (ia > ib + 1) := by omega
    have h2 : ¬ (ib + 1 > D.vals.length) := by omega
    simp only [h1, h2, if_false, Res.bind_ok]
    exact ⟨_, rfl, Sim.cursor _⟩

/-- `range(a, b)` starts out representing exactly the variants with `a ≤ v ≤ b`, ascending — in every
iterator mode that supports `range`, gapless or with holes, also when `a > b` (then empty; never a panic,
never an uninitialised index) -/
theorem C07_init (D : Derive) (t : Target) (h : D.WF) (ht : t.WF) (m : IterMode)
    (hm : m = .range ∨ m = .nextAndBack ∨ m = .table) (hr : m = .range → D.gapless = true)
    (a b : Int) (ha : a ∈ D.vals) (hb : b ∈ D.vals) :
    ∃ st, rangeInit D t m a b = .ok st ∧ Sim D.vals st (spec.range D.sem a b) := by
  unfold rangeInit
  by_cases hg : D.gapless = true
  · simp only [hg, if_true]
    obtain ⟨ia, hva, hia⟩ := pos_gapless D t h ht hg a ha
    obtain ⟨ib, hvb, hib⟩ := pos_gapless D t h ht hg b hb
    have hiblt := (List.getElem?_eq_some_iff.mp hvb).1
    rcases hm with rfl | rfl | rfl
    · -- range mode
      have ham := (h.mem_gapless hg a).mp ha
      have hbm := (h.mem_gapless hg b).mp hb
      have hmem : ∀ x ∈ interval a b, x ∈ D.vals := by
        intro x hx; have := (mem_interval _ _ _).mp hx
        exact (h.mem_gapless hg x).mpr ⟨by omega, by omega⟩
      have hspec : spec.range D.sem a b = interval a b := by
        unfold spec.range; rw [D.sem_discs]
        apply sorted_ext_int _ _ (h.sorted.filter _) (interval_pairwise a b)
        intro x
        rw [List.mem_filter, mem_interval, h.mem_gapless hg x]
        simp only [Bool.and_eq_true, decide_eq_true_eq]
        constructor
        · rintro ⟨_, h1, h2⟩; exact ⟨h1, h2⟩
        · rintro ⟨h1, h2⟩; exact ⟨⟨by omega, by omega⟩, h1, h2⟩
      simp only [mapTransmute_ok D _ hmem, Res.bind_ok, hspec]
      exact ⟨_, rfl, Sim.cursor _⟩
    · simp only [hia, hib]
      rw [spec_range_pos D h a b ia ib hva hvb]
      exact ⟨_, rfl, sim_nb_range D a b ia ib hva hvb⟩
    · simp only [hia, hib]
      rw [spec_range_pos D h a b ia ib hva hvb]
      exact sim_slice_range D ia ib hiblt
  · have hg' : D.gapless = false := by cases hh : D.gapless <;> simp_all
    simp only [hg', Bool.false_eq_true, if_false]
    obtain ⟨ia, ib, hidx, hva, hvb⟩ := rangeIdx_spec D t h ht a b ha hb
    have hiblt := (List.getElem?_eq_some_iff.mp hvb).1
    rcases hm with rfl | rfl | rfl
    · exact absurd (hr rfl) hg
    · simp only [hidx, Res.bind_ok]
      rw [spec_range_pos D h a b ia ib hva hvb]
      exact ⟨_, rfl, sim_nb_range D a b ia ib hva hvb⟩
    · simp only [hidx, Res.bind_ok]
      rw [spec_range_pos D h a b ia ib hva hvb]
      exact sim_slice_range D ia ib hiblt

/-- observational equality with a cursor over `{v | a ≤ v ≤ b}` after any finite sequence of operations -/
theorem C07_range (D : Derive) (t : Target) (h : D.WF) (ht : t.WF) (m : IterMode)
    (hm : m = .range ∨ m = .nextAndBack ∨ m = .table) (hr : m = .range → D.gapless = true)
    (a b : Int) (ha : a ∈ D.vals) (hb : b ∈ D.vals) (ops : List Op) (fin : Fin) :
    ∃ st st', rangeInit D t m a b = .ok st ∧
      IterState.run (nextFn D) (nextBackFn D) st ops = .ok (st', (Cursor.run (spec.range D.sem a b) ops).2) ∧
      IterState.finish (nextFn D) (nextBackFn D) st' fin = .ok (Cursor.finish (Cursor.run (spec.range D.sem a b) ops).1 fin) := by
  obtain ⟨st, hi, hsim⟩ := C07_init D t h ht m hm hr a b ha hb
  obtain ⟨st', hrun, hsim'⟩ := run_sim (stepFns D h) ops st _ hsim
  exact ⟨st, st', hi, hrun, finish_sim (stepFns D h) st' _ hsim' fin⟩

/-- `a > b` gives the empty iterator -/
theorem C07_empty (D : Derive) (a b : Int) (hab : b < a) : spec.range D.sem a b = [] := by
  unfold spec.range
  rw [List.filter_eq_nil_iff]
  intro x _
  simp only [Bool.and_eq_true, decide_eq_true_eq]
  omega

/-- the full range is `iter()` -/
theorem C07_full (D : Derive) (h : D.WF) : spec.range D.sem (minC D) (maxC D) = spec.iter D.sem := by
  unfold spec.range spec.iter
  rw [List.filter_eq_self]
  intro x hx
  rw [D.sem_discs] at hx
  simp only [Bool.and_eq_true, decide_eq_true_eq]
  exact ⟨h.minKey_le x hx, h.le_maxKey x hx⟩

/-- membership: `range(a, b)` holds exactly the variants `v` of `iter()` with `a ≤ v ≤ b` -/
theorem C07_mem (D : Derive) (a b v : Int) :
    v ∈ spec.range D.sem a b ↔ v ∈ spec.iter D.sem ∧ a ≤ v ∧ v ≤ b := by
  simp [spec.range, spec.iter, List.mem_filter]

/-- a range is a sublist of `iter()`: ascending, no duplicates, nothing that `iter()` does not yield -/
theorem C07_sublist_sorted (D : Derive) (h : D.WF) (a b : Int) :
    (spec.range D.sem a b).Sublist (spec.iter D.sem) ∧ (spec.range D.sem a b).Pairwise (· < ·) := by
  have hs : (spec.range D.sem a b).Sublist (spec.iter D.sem) := List.filter_sublist
  refine ⟨hs, List.Pairwise.sublist hs ?_⟩
  unfold spec.iter; rw [D.sem_discs]; exact h.sorted

/-- narrowing a range: restricting `range(a, b)` to tighter bounds is the range of the tighter bounds -/
theorem C07_nested (D : Derive) (a b a' b' : Int) (ha : a ≤ a') (hb : b' ≤ b) :
    (spec.range D.sem a b).filter (fun v => decide (a' ≤ v) && decide (v ≤ b')) = spec.range D.sem a' b' := by
  unfold spec.range
  rw [List.filter_filter]
  apply List.filter_congr
  intro x _
  rw [Bool.eq_iff_iff]
  simp only [Bool.and_eq_true, decide_eq_true_eq]
  omega

/-- consecutive ranges concatenate: `range(a, b) = range(a, m) ++ range(m+1, b)` for `a - 1 ≤ m ≤ b` -/
theorem C07_split (D : Derive) (h : D.WF) (a m b : Int) (ha : a ≤ m + 1) (hb : m ≤ b) :
    spec.range D.sem a b = spec.range D.sem a m ++ spec.range D.sem (m + 1) b := by
  unfold spec.range
  apply filter_split a m b ha hb
  rw [D.sem_discs]; exact h.sorted

/-- non-vacuity of the split, across a hole -/
example : spec.range exD1.sem (-5) 126 = spec.range exD1.sem (-5) 2 ++ spec.range exD1.sem 3 126 ∧
    spec.range exD1.sem (-5) 2 = [-5, -4] := by decide

/-- non-vacuity: with holes and a negative later run, in both modes, and `a > b` -/
example : exD1.WF ∧ (rangeInit exD1 {} .table (-5) 126 = .ok (.cursor [-5, -4, 3, 126])) ∧
    (rangeInit exD1 {} .table 126 (-5) = .ok (.cursor [])) ∧
    (rangeInit exD1 {} .nextAndBack 127 (-10) = .ok (.nb (some 127) (some (-10)) 0)) ∧
    (rangeInit exD2 {} .range 254 255 = .ok (.cursor [254, 255])) := by
  refine ⟨exD1_WF, by decide, by decide, by decide, by decide⟩

/-! ### the same statement about `range` as translated from /repo/src (`Generated/Templates.lean`) -/

/-- `range(a, b)` as the source is written now: a cursor over `{v | a ≤ v ≤ b}` under every finite history,
in every mode the macro accepts, also when `a > b` -/
theorem C07_source (D : Derive) (tg : Target) (md : Modes) (h : D.WF) (ht : tg.WF)
    (hm : md.iter = .range ∨ md.iter = .nextAndBack ∨ md.iter = .table) (hr : md.iter = .range → D.gapless = true)
    (a b : Int) (ha : a ∈ D.vals) (hb : b ∈ D.vals) (ops : List Op) (fin : Fin) :
    ∃ st st', T.range D tg md a b = .ok st ∧
      T.runT D tg md st ops = .ok (st', (Cursor.run (spec.range D.sem a b) ops).2) ∧
      T.finishT D tg md st' fin = .ok (Cursor.finish (Cursor.run (spec.range D.sem a b) ops).1 fin) := by
  obtain ⟨st, hi, hsim⟩ := C07_init D tg h ht md.iter hm hr a b ha hb
  have hmode : md.iter = .nextAndBack ∨ ∃ l', st = .cursor l' := by
    by_cases hnb : md.iter = .nextAndBack
    · exact Or.inl hnb
    · exact Or.inr (rangeInit_cursor D tg md.iter hnb a b st hi)
  obtain ⟨st', h1, h2⟩ := T.observeT D tg md h ht (stepFns_source D tg md h) st _ hsim hmode ops fin
  have hm' : md.iter = .nextAndBack ∨ md.iter = .table ∨ (md.iter = .range ∧ D.gapless = true) := by
    rcases hm with h1 | h1 | h1
    · exact Or.inr (Or.inr ⟨h1, hr h1⟩)
    · exact Or.inl h1
    · exact Or.inr (Or.inl h1)
  exact ⟨st, st', by rw [T.range_eq D tg md h ht a b ha hb hm']; exact hi, h1, h2⟩

/-- `range` computes positions and lengths through `#repr_unsigned`: the companion type written in `parser/mod.rs` on this run is the unsigned type of the repr's own width -/
theorem C07_repr_table_source (t : Target) :
    (ET.Generated.reprArms.all (armAgrees t)) = true
    ∧ (∀ r, (reprTable t r).isSome ↔ r ∈ ET.Generated.reprArms.map (·.1)) := repr_table_source t

end ET.Thm
