/-
C02 — No undefined behaviour: every value produced is a declared variant.
Every schema result is `.ok _` (never `.ub _`: no false `transmute`, `unwrap_unchecked`,
`assume_init`), and every enum value inside the result is a declared discriminant.
-/
import EnumToolsModel.Thm.C01
import EnumToolsModel.Thm.C07
import EnumToolsModel.Thm.C08
namespace ET.Thm

/-- items yielded by a cursor come from its list, and what remains is a sublist -/
theorem cursor_step_mem {α : Type} (l : List α) (op : Op) :
    (∀ x, (Cursor.step l op).2 = .item (some x) → x ∈ l) ∧ (∀ x ∈ (Cursor.step l op).1, x ∈ l) := by
  cases op with
  | next => exact ⟨fun x hx => by simp [Cursor.step] at hx; exact List.mem_of_mem_head? hx, fun x hx => List.mem_of_mem_tail hx⟩
  | nextBack => exact ⟨fun x hx => by simp [Cursor.step] at hx; exact List.mem_of_getLast? hx, fun x hx => (List.dropLast_sublist l).subset hx⟩
  | nth k =>
    refine ⟨fun x hx => ?_, fun x hx => List.mem_of_mem_drop hx⟩
    simp [Cursor.step] at hx
    exact List.mem_of_getElem? hx
  | nthBack k =>
    refine ⟨fun x hx => ?_, fun x hx => ?_⟩
    · simp [Cursor.step] at hx
      exact List.mem_reverse.mp (List.mem_of_getElem? hx)
    · simp only [Cursor.step, List.mem_reverse] at hx
      exact List.mem_reverse.mp (List.mem_of_mem_drop hx)
  | len => exact ⟨fun x hx => by simp [Cursor.step] at hx, fun x hx => hx⟩
  | sizeHint => exact ⟨fun x hx => by simp [Cursor.step] at hx, fun x hx => hx⟩

theorem cursor_run_mem {α : Type} (ops : List Op) : ∀ (l : List α),
    (∀ x, .item (some x) ∈ (Cursor.run l ops).2 → x ∈ l) ∧ (∀ x ∈ (Cursor.run l ops).1, x ∈ l) := by
  induction ops with
  | nil => intro l; exact ⟨fun x hx => by simp [Cursor.run] at hx, fun x hx => hx⟩
  | cons op ops ih =>
    intro l
    have hs := cursor_step_mem l op
    have hr := ih (Cursor.step l op).1
    constructor
    · intro x hx
      simp only [Cursor.run, List.mem_cons] at hx
      rcases hx with e | e
      · exact hs.1 x e.symm
      · exact hs.2 x (hr.1 x e)
    · intro x hx
      simp only [Cursor.run] at hx
      exact hs.2 x (hr.2 x hx)

/-- try_from / TryFrom: defined for every integer; the result, if any, is a declared variant -/
theorem C02_tryFrom (D : Derive) (h : D.WF) (n : Int) :
    ∃ r, tryFromFn D n = .ok r ∧ tryFromTrait D n = .ok r ∧ ∀ e, r = some e → e ∈ D.vals := by
  refine ⟨spec.tryFrom D.sem n, C01_tryFromFn D h n, C01_tryFromTrait D h n, ?_⟩
  intro e he
  exact (C01_partial_inverse D h n e (by rw [C01_tryFromFn D h n, he])).2

/-- next / next_back: the unchecked unwrap in the loop and both transmutes are justified -/
theorem C02_next (D : Derive) (h : D.WF) (v : Int) (hv : v ∈ D.vals) :
    (∃ r, nextFn D v = .ok r ∧ ∀ w, r = some w → w ∈ D.vals) ∧
    (∃ r, nextBackFn D v = .ok r ∧ ∀ w, r = some w → w ∈ D.vals) := by
  obtain ⟨i, hi, rfl⟩ := List.getElem_of_mem hv
  constructor
  · refine ⟨_, C05_next_index D h i hi, fun w hw => List.mem_of_getElem? hw⟩
  · refine ⟨_, C05_nextBack_index D h i hi, fun w hw => ?_⟩
    split at hw
    · cases hw
    · exact List.mem_of_getElem? hw

/-- as_str: the unchecked unwrap of `find` is justified and the table index is in bounds -/
theorem C02_asStr (D : Derive) (t : Target) (h : D.WF) (ht : t.WF) (m : Mode3) (v : Int) (hv : v ∈ D.vals) :
    ∃ n, asStr D t m v = .ok n := by
  obtain ⟨n, _, hn⟩ := C03_asStr D t h ht m v hv
  exact ⟨n, hn⟩

/-- from_str / FromStr: defined for every string; the result, if any, is a declared variant -/
theorem C02_fromStr (D : Derive) (h : D.WF) (m : Mode3) (s : Name) :
    ∃ r, fromStr D m s = .ok r ∧ ∀ e, r = some e → e ∈ D.vals := by
  refine ⟨_, C04_fromStr D h m s, fun e he => (C04_asStr_of_fromStr D h s e he).2⟩

/-- iter(): no operation of any finite history is UB or panics, and every yielded item is a declared variant -/
theorem C02_iter (D : Derive) (h : D.WF) (m : IterMode) (hm : m ≠ .auto) (hr : m = .range → D.gapless = true)
    (ops : List Op) (fin : Fin) :
    ∃ st st' outs o, iterInit D m = .ok st ∧ IterState.run (nextFn D) (nextBackFn D) st ops = .ok (st', outs) ∧
      IterState.finish (nextFn D) (nextBackFn D) st' fin = .ok o ∧ ∀ x, .item (some x) ∈ outs → x ∈ D.vals := by
  obtain ⟨st, st', h1, h2, h3⟩ := C06_iter D h m hm hr ops fin
  refine ⟨st, st', _, _, h1, h2, h3, fun x hx => ?_⟩
  have := (cursor_run_mem ops (spec.iter D.sem)).1 x hx
  simpa [spec.iter] using this

/-- range(a, b): the `MaybeUninit` indices are initialised, the slice never panics, every item is a variant -/
theorem C02_range (D : Derive) (t : Target) (h : D.WF) (ht : t.WF) (m : IterMode)
    (hm : m = .range ∨ m = .nextAndBack ∨ m = .table) (hr : m = .range → D.gapless = true)
    (a b : Int) (ha : a ∈ D.vals) (hb : b ∈ D.vals) (ops : List Op) (fin : Fin) :
    ∃ st st' outs o, rangeInit D t m a b = .ok st ∧ IterState.run (nextFn D) (nextBackFn D) st ops = .ok (st', outs) ∧
      IterState.finish (nextFn D) (nextBackFn D) st' fin = .ok o ∧ ∀ x, .item (some x) ∈ outs → x ∈ D.vals := by
  obtain ⟨st, st', h1, h2, h3⟩ := C07_range D t h ht m hm hr a b ha hb ops fin
  refine ⟨st, st', _, _, h1, h2, h3, fun x hx => ?_⟩
  have := (cursor_run_mem ops (spec.range D.sem a b)).1 x hx
  unfold spec.range at this
  have := (List.mem_filter.mp this).1
  simpa using this

/-- summary in terms of `isUB` -/
theorem C02_no_ub (D : Derive) (t : Target) (h : D.WF) (ht : t.WF) (n : Int) (s : Name) (m3 : Mode3) (v : Int) (hv : v ∈ D.vals) :
    (tryFromFn D n).isUB = false ∧ (tryFromTrait D n).isUB = false ∧ (nextFn D v).isUB = false ∧
    (nextBackFn D v).isUB = false ∧ (asStr D t m3 v).isUB = false ∧ (fromStr D m3 s).isUB = false := by
  obtain ⟨r, h1, h2, _⟩ := C02_tryFrom D h n
  obtain ⟨⟨r3, h3, _⟩, ⟨r4, h4, _⟩⟩ := C02_next D h v hv
  obtain ⟨n5, h5⟩ := C02_asStr D t h ht m3 v hv
  obtain ⟨r6, h6, _⟩ := C02_fromStr D h m3 s
  simp [h1, h2, h3, h4, h5, h6, Res.isUB]

/-- the UB outcomes are real outcomes of the model: on a table that is *not* the derive's, the same code is UB -/
example : nextLoop exD1 3 [⟨-10, -10, 0⟩] = .ub .unwrapUncheckedNone ∧ transmute exD1 4 = .ub .transmuteInvalid := by
  refine ⟨by decide, by decide⟩

/-! ### no UB in the function bodies translated from /repo/src (`Generated/Templates.lean`) -/

/-- every translated function returns `.ok _` on every admissible argument (no false `transmute`, no unchecked
unwrap of `None`, no read of an unwritten `MaybeUninit`, no out-of-bounds index, no arithmetic overflow), and
every enum value it returns is a declared variant -/
theorem C02_source (D : Derive) (tg : Target) (md : Modes) (h : D.WF) (ht : tg.WF)
    (n : Int) (hn : D.repr.InRange n) (s : Name) (v : Int) (hv : v ∈ D.vals) :
    (∃ r, T.tryFromFn D tg md n = .ok r ∧ T.tryFromTrait D tg md n = .ok r ∧ ∀ e, r = some e → e ∈ D.vals) ∧
    (∃ r, T.next D tg md v = .ok r ∧ ∀ w, r = some w → w ∈ D.vals) ∧
    (∃ r, T.nextBack D tg md v = .ok r ∧ ∀ w, r = some w → w ∈ D.vals) ∧
    (md.asStr ≠ .auto → ∃ nm, T.asStr D tg md v = .ok nm ∧ T.display D tg md v = .ok nm ∧ T.debug D tg md v = .ok nm ∧ T.intoStr D tg md v = .ok nm) ∧
    (md.fromStrFn ≠ .auto → ∃ r, T.fromStrFn D tg md s = .ok r ∧ ∀ e, r = some e → e ∈ D.vals) ∧
    (md.fromStrTrait ≠ .auto → ∃ r, T.fromStrTrait D tg md s = .ok r ∧ ∀ e, r = some e → e ∈ D.vals) := by
  obtain ⟨r, h1, h2, h3⟩ := C02_tryFrom D h n
  obtain ⟨⟨r3, h4, h5⟩, ⟨r4, h6, h7⟩⟩ := C02_next D h v hv
  refine ⟨⟨r, ?_, ?_, h3⟩, ⟨r3, ?_, h5⟩, ⟨r4, ?_, h7⟩, fun hm => ?_, fun hm => ?_, fun hm => ?_⟩
  · rw [T.tryFromFn_eq D tg md h n hn]; exact h1
  · rw [T.tryFromTrait_eq D tg md h n hn]; exact h2
  · rw [T.next_eq D tg md h v hv]; exact h4
  · rw [T.nextBack_eq D tg md h v hv]; exact h6
  · obtain ⟨nm, _, a, b, c, d⟩ := C03_source D tg md h ht hm v hv
    exact ⟨nm, a, b, c, d⟩
  · exact ⟨_, (C04_source D tg md h s).1 hm, fun e he => (C04_asStr_of_fromStr D h s e he).2⟩
  · exact ⟨_, (C04_source D tg md h s).2 hm, fun e he => (C04_asStr_of_fromStr D h s e he).2⟩

/-- the translated `iter()` and `range(a, b)`: no operation of any finite history is UB or panics, and every
yielded item is a declared variant -/
theorem C02_source_iter (D : Derive) (tg : Target) (md : Modes) (h : D.WF) (ht : tg.WF)
    (hm : md.iter ≠ .auto) (hr : md.iter = .range → D.gapless = true) (ops : List Op) (fin : Fin) :
    ∃ st st' outs o, T.iter D tg md = .ok st ∧ T.runT D tg md st ops = .ok (st', outs) ∧
      T.finishT D tg md st' fin = .ok o ∧ ∀ x, .item (some x) ∈ outs → x ∈ D.vals := by
  obtain ⟨st, st', h1, h2, h3⟩ := C06_source D tg md h ht hm hr ops fin
  refine ⟨st, st', _, _, h1, h2, h3, fun x hx => ?_⟩
  have := (cursor_run_mem ops (spec.iter D.sem)).1 x hx
  simpa [spec.iter] using this

theorem C02_source_range (D : Derive) (tg : Target) (md : Modes) (h : D.WF) (ht : tg.WF)
    (hm : md.iter = .range ∨ md.iter = .nextAndBack ∨ md.iter = .table) (hr : md.iter = .range → D.gapless = true)
    (a b : Int) (ha : a ∈ D.vals) (hb : b ∈ D.vals) (ops : List Op) (fin : Fin) :
    ∃ st st' outs o, T.range D tg md a b = .ok st ∧ T.runT D tg md st ops = .ok (st', outs) ∧
      T.finishT D tg md st' fin = .ok o ∧ ∀ x, .item (some x) ∈ outs → x ∈ D.vals := by
  obtain ⟨st, st', h1, h2, h3⟩ := C07_source D tg md h ht hm hr a b ha hb ops fin
  refine ⟨st, st', _, _, h1, h2, h3, fun x hx => ?_⟩
  have := (cursor_run_mem ops (spec.range D.sem a b)).1 x hx
  unfold spec.range at this
  have := (List.mem_filter.mp this).1
  simpa using this

end ET.Thm
