/-
C04 — from_str/FromStr accept exactly the variant names and invert as_str.
The function and the trait share the model (`fromStr` with the mode each resolved to); the driver
runs both against it.
-/
import EnumToolsModel.Lemmas.FromStr
import EnumToolsModel.Thm.C03
import EnumToolsModel.Lemmas.TemplatesEq
namespace ET.Thm

/-- the specification through the derive's value list -/
theorem spec_fromStr_values (D : Derive) (s : Name) :
    spec.fromStr D.sem s = (D.values.find? (fun x => decide (x.2.2 = s))).map (·.1) := by
  unfold spec.fromStr Derive.sem
  simp only
  rw [List.find?_map]
  have : ((fun (y : Int × Name) => decide (y.2 = s)) ∘ fun (x : Int × (Name × Name)) => (x.1, x.2.2)) = fun x => decide (x.2.2 = s) := by
    funext y; rfl
  rw [this]
  cases D.values.find? (fun x => decide (x.2.2 = s)) <;> simp

/-- match mode, for every string -/
theorem C04_fromStr_match (D : Derive) (s : Name) : fromStrMatch D s = .ok (spec.fromStr D.sem s) := by
  rw [spec_fromStr_values]
  unfold fromStrMatch
  cases D.values.find? (fun x => decide (x.2.2 = s)) with
  | none => rfl
  | some x => obtain ⟨d, i, n⟩ := x; rfl

/-- table mode with holes, for every string -/
theorem C04_fromStr_table_holes (D : Derive) (s : Name) : fromStrTableHoles D s = .ok (spec.fromStr D.sem s) := by
  unfold fromStrTableHoles
  rw [fromStrTableHolesLoop_spec, D.zip_tables]
  rfl

/-- table mode, gapless, for every string: the index is turned back into the discriminant `MIN + i` -/
theorem C04_fromStr_table_gapless (D : Derive) (h : D.WF) (hg : D.gapless = true) (s : Name) :
    fromStrTableGapless D s = .ok (spec.fromStr D.sem s) := by
  rw [spec_fromStr_values]
  unfold fromStrTableGapless tableName Derive.names
  have hint := h.gapless_interval hg
  apply fromStrTableGaplessLoop_spec D h.bits_pos s D.values 0
  · intro j hj
    have hv : D.vals[j]? = some (D.values[j].1) := by
      simp [Derive.vals, List.getElem?_eq_getElem hj]
    rw [hint] at hv
    have hjl : (j : Int) < D.maxKey - D.minKey + 1 := by
      have := (List.getElem?_eq_some_iff.mp hv).1
      rw [interval_length] at this; omega
    rw [interval_getElem? _ _ _ hjl] at hv
    have := Option.some.inj hv
    rw [← this]; simp
  · intro x hx
    have : x.1 ∈ D.vals := List.mem_map.mpr ⟨x, hx, rfl⟩
    exact ⟨this, h.inRange _ this⟩

/-- from_str / FromStr, every mode, every shape, every string: `Some(v)` for the variant with the
lowest discriminant among those named `s`, `None` when no variant has that name -/
theorem C04_fromStr (D : Derive) (h : D.WF) (m : Mode3) (s : Name) :
    fromStr D m s = .ok (spec.fromStr D.sem s) := by
  unfold fromStr
  cases m with
  | table =>
    simp only
    split
    · rename_i hg; exact C04_fromStr_table_gapless D h hg s
    · exact C04_fromStr_table_holes D s
  | auto => exact C04_fromStr_match D s
  | «match» => exact C04_fromStr_match D s

/-- success iff `s` is byte-for-byte the name of some variant -/
theorem C04_accepts_exactly_names (D : Derive) (s : Name) :
    (spec.fromStr D.sem s).isSome ↔ s ∈ D.sem.names := by
  unfold spec.fromStr EnumSem.names
  rw [Option.isSome_map, List.find?_isSome]
  simp only [decide_eq_true_eq, List.mem_map]

/-- the variant returned is named `s`: `as_str(from_str(s)) == s` -/
theorem C04_asStr_of_fromStr (D : Derive) (h : D.WF) (s : Name) (v : Int) (hf : spec.fromStr D.sem s = some v) :
    spec.asStr D.sem v = some s ∧ v ∈ D.vals := by
  unfold spec.fromStr at hf
  cases hx : D.sem.items.find? (fun x => decide (x.2 = s)) with
  | none => rw [hx] at hf; simp at hf
  | some x =>
    rw [hx] at hf
    have hv : x.1 = v := by simpa using hf
    have hs : x.2 = s := by simpa using List.find?_some hx
    have hmem := List.mem_of_find?_eq_some hx
    obtain ⟨k, hk, hke⟩ := List.getElem_of_mem hmem
    have hsorted : (D.sem.items.map (·.1)).Pairwise (· < ·) := by
      have := h.sorted; rw [← D.sem_discs] at this; exact this
    have := find_key_of_getElem D.sem.items hsorted k x (by rw [List.getElem?_eq_getElem hk, hke])
    constructor
    · unfold spec.asStr; rw [← hv, this]; simp [hs]
    · rw [← D.sem_discs, ← hv]; exact List.mem_map.mpr ⟨x, hmem, rfl⟩

/-- if names are pairwise distinct then `from_str(as_str(v)) == Some(v)` -/
theorem C04_fromStr_of_asStr (D : Derive) (_h : D.WF) (hd : D.sem.names.Pairwise (· ≠ ·)) (v : Int) (n : Name)
    (ha : spec.asStr D.sem v = some n) : spec.fromStr D.sem n = some v := by
  unfold spec.asStr at ha
  cases hx : D.sem.items.find? (fun x => decide (x.1 = v)) with
  | none => rw [hx] at ha; simp at ha
  | some x =>
    rw [hx] at ha
    have hn : x.2 = n := by simpa using ha
    have hv : x.1 = v := by simpa using List.find?_some hx
    have hmem := List.mem_of_find?_eq_some hx
    unfold spec.fromStr
    -- the first item named n is x, because names are pairwise distinct
    have : D.sem.items.find? (fun y => decide (y.2 = n)) = some x := by
      unfold EnumSem.names at hd
      generalize D.sem.items = l at hd hmem
      induction l with
      | nil => cases hmem
      | cons a t ih =>
        simp only [List.map_cons] at hd
        have hp := List.pairwise_cons.mp hd
        rcases List.mem_cons.mp hmem with e | e
        · subst e; simp [hn]
        · have hne : ¬ (a.2 = n) := by
            have := hp.1 x.2 (List.mem_map.mpr ⟨x, e, rfl⟩); rw [hn] at this; exact this
          rw [List.find?_cons]; simp only [hne, decide_false]; exact ih hp.2 e
    rw [this]; simp [hv]

/-- every string that is not a name is rejected -/
theorem C04_rejects_non_names (D : Derive) (s : Name) (hs : s ∉ D.sem.names) : spec.fromStr D.sem s = none := by
  cases hx : spec.fromStr D.sem s with
  | none => rfl
  | some v => exact absurd ((C04_accepts_exactly_names D s).mp (by rw [hx]; rfl)) hs

/-- with distinct names `as_str` is injective: two variants never print the same -/
theorem C04_asStr_injective (D : Derive) (h : D.WF) (hd : D.sem.names.Pairwise (· ≠ ·)) (v w : Int) (n : Name)
    (hv : spec.asStr D.sem v = some n) (hw : spec.asStr D.sem w = some n) : v = w := by
  have a := C04_fromStr_of_asStr D h hd v n hv
  have b := C04_fromStr_of_asStr D h hd w n hw
  rw [a] at b; injection b

/-- when several variants share a name, the one returned is the one with the lowest discriminant —
a function of the discriminant-to-name map alone, hence the same in every mode -/
theorem C04_lowest_shared (D : Derive) (h : D.WF) (s : Name) (v : Int) (hf : spec.fromStr D.sem s = some v) :
    ∀ p ∈ D.sem.items, p.2 = s → v ≤ p.1 := by
  have hsorted : (D.sem.items.map (·.1)).Pairwise (· < ·) := by
    have := h.sorted; rw [← D.sem_discs] at this; exact this
  unfold spec.fromStr at hf
  cases hx : D.sem.items.find? (fun x => decide (x.2 = s)) with
  | none => rw [hx] at hf; cases hf
  | some q =>
    rw [hx] at hf
    have hq : q.1 = v := by simpa using hf
    obtain ⟨_, as, bs, hl, has⟩ := List.find?_eq_some_iff_append.mp hx
    intro p hp hps
    rw [hl] at hp hsorted
    rw [List.map_append, List.map_cons, List.pairwise_append] at hsorted
    obtain ⟨_, hbs, _⟩ := hsorted
    rw [List.pairwise_cons] at hbs
    rcases List.mem_append.mp hp with hpa | hpb
    · have := has p hpa; simp [hps] at this
    · rcases List.mem_cons.mp hpb with rfl | hpb'
      · rw [← hq]; exact Int.le_refl _
      · rw [← hq]; exact Int.le_of_lt (hbs.1 p.1 (List.mem_map_of_mem hpb'))

/-- non-vacuity: renamed variant, identifier of a renamed variant is rejected, other case is rejected -/
example : exD1.WF ∧ fromStr exD1 .table [98, 98] = .ok (some (-5)) ∧ fromStr exD1 .table [66] = .ok none
    ∧ fromStr exD1 .match [97] = .ok none ∧ fromStr exD2 .table [67] = .ok (some 255) := by
  refine ⟨exD1_WF, by decide, by decide, by decide, by decide⟩

/-- `from_str` / `FromStr` as the source is written now (`Generated/Templates.lean`), in every resolved mode, for every string -/
theorem C04_source (D : Derive) (tg : Target) (md : Modes) (h : D.WF) (s : Name) :
    (md.fromStrFn ≠ .auto → T.fromStrFn D tg md s = .ok (spec.fromStr D.sem s)) ∧
    (md.fromStrTrait ≠ .auto → T.fromStrTrait D tg md s = .ok (spec.fromStr D.sem s)) :=
  ⟨fun hm => by rw [T.fromStrFn_eq D tg md h hm s]; exact C04_fromStr D h _ s,
   fun hm => by rw [T.fromStrTrait_eq D tg md h hm s]; exact C04_fromStr D h _ s⟩

/-- with pairwise distinct names the translated `from_str` inverts the translated `as_str` -/
theorem C04_source_roundtrip (D : Derive) (tg : Target) (md : Modes) (h : D.WF) (ht : tg.WF)
    (hd : D.sem.names.Pairwise (· ≠ ·)) (ha : md.asStr ≠ .auto) (hf : md.fromStrFn ≠ .auto) (v : Int) (hv : v ∈ D.vals) :
    (T.asStr D tg md v).bind (fun n => T.fromStrFn D tg md n) = .ok (some v) := by
  obtain ⟨n, hs, e, _⟩ := C03_source D tg md h ht ha v hv
  rw [e, Res.bind_ok, (C04_source D tg md h n).1 hf, C04_fromStr_of_asStr D h hd v n hs]

end ET.Thm
