/-
C13 — Invalid or contradictory configuration is rejected, never silently ignored.   (partial)
Proved, for every attribute AST the model can express and over the regenerated catalogue / rules:
an unknown feature, an unknown parameter, a repeated feature or parameter, a malformed item, a mode
or visibility outside the documented values, a value of the wrong kind, `range` without `iter` or with
table_inline, iter mode `range` on an enum with holes, and any variant-level `enum_tools` attribute
other than `rename = "…"` each make the derive fail — errors are only ever appended, never dropped.
Not proved: `syn`'s classification of concrete attribute syntax (sampled by the probes).
-/
import EnumToolsModel.Thm.C11
import EnumToolsModel.Thm.C10
namespace ET.Thm
open ET.Generated

/-! ### the attribute engine never drops anything silently -/

theorem smapRemove_cons_eq {β : Type} (k : String) (a : String × β) (t : List (String × β)) (h : a.1 = k) :
    smapRemove k (a :: t) = (some a.2, t) := by
  obtain ⟨k0, v0⟩ := a; simp only at h; simp [smapRemove, h]

theorem smapRemove_cons_ne {β : Type} (k : String) (a : String × β) (t : List (String × β)) (h : a.1 ≠ k) :
    smapRemove k (a :: t) = ((smapRemove k t).1, a :: (smapRemove k t).2) := by
  obtain ⟨k0, v0⟩ := a; simp only at h; simp [smapRemove, h]

theorem smapRemove_other {β : Type} (k k' : String) (hne : k' ≠ k) : ∀ (l : List (String × β)),
    (k' ∈ (smapRemove k l).2.map (·.1) ↔ k' ∈ l.map (·.1)) ∧ (smapRemove k' (smapRemove k l).2).1 = (smapRemove k' l).1 := by
  intro l
  induction l with
  | nil => simp [smapRemove]
  | cons a t ih =>
    by_cases h : a.1 = k
    · have h' : a.1 ≠ k' := fun e => hne (e.symm.trans h)
      rw [smapRemove_cons_eq k a t h, smapRemove_cons_ne k' a t h']
      simp only [List.map_cons, List.mem_cons]
      refine ⟨⟨fun hh => Or.inr hh, ?_⟩, trivial⟩
      rintro (e | e)
      · exact absurd (e.trans h) hne
      · exact e
    · rw [smapRemove_cons_ne k a t h]
      simp only [List.map_cons, List.mem_cons, ih.1, true_and]
      by_cases h' : a.1 = k'
      · rw [smapRemove_cons_eq k' a _ h', smapRemove_cons_eq k' a t h']
      · rw [smapRemove_cons_ne k' a _ h', smapRemove_cons_ne k' a t h']
        exact ih.2

/-- a feature key that no `FeatureX::parse` asks for stays in the map (and `finish()` reports it) -/
theorem parseFeatures_keeps_unknown (k : String) : ∀ (specs : List FeatSpec) (fs : Features) (fm : FeatureMap) (errs : List Err),
    (∀ s ∈ specs, s.key ≠ k) → k ∈ fm.map (·.1) → k ∈ (parseFeatures specs fs fm errs).2.1.map (·.1) := by
  intro specs
  induction specs with
  | nil => intro fs fm errs _ h; simpa [parseFeatures] using h
  | cons s rest ih =>
    intro fs fm errs hk h
    unfold parseFeatures
    simp only
    apply ih _ _ _ (fun s' hs' => hk s' (by simp [hs']))
    have hne : k ≠ s.key := fun e => hk s (by simp) e.symm
    unfold parseFeature
    cases hr : smapRemove s.key fm with
    | mk r fm' =>
      have := (smapRemove_other s.key k hne fm).1.mpr h
      rw [hr] at this
      cases r <;> simpa using this

/-- an unknown feature is always an error -/
theorem C13_unknown_feature (D : Derive) (sorted : Sorted) (fm : FeatureMap) (errs : List Err) (k : String)
    (hk : ∀ s ∈ catalog, s.key ≠ k) (hin : k ∈ fm.map (·.1)) : ∀ x, configStage D sorted fm errs ≠ .ok x := by
  intro x h
  unfold configStage at h
  simp only at h
  have hkeep := parseFeatures_keeps_unknown k catalog {} fm errs hk hin
  generalize parseFeatures catalog {} fm errs = pf at h hkeep
  split at h
  · cases h
  · split at h
    · rename_i hemp
      have := List.isEmpty_iff.mp hemp
      rw [List.append_eq_nil_iff] at this
      have h2 := this.2
      cases hm : pf.2.1 with
      | nil => rw [hm] at hkeep; simp at hkeep
      | cons a b => rw [hm] at h2; simp at h2
    · cases h

/-- the keys the derive knows are exactly the documented feature names (plus `sorted`, parsed first) -/
theorem C13_catalog_keys :
    catalog.map (·.key) = ["as_str", "Debug", "Display", "from_str", "FromStr", "into", "IntoStr", "Into", "iter", "MAX", "MIN",
      "names", "next_back", "next", "range", "try_from", "TryFrom"] := by decide +kernel

/-! ### parameters -/

theorem getVis_snd (pm : ParamMap) : (getVis pm).2.1 = (smapRemove "vis" pm).2 := by
  unfold getVis
  split <;> simp_all

theorem getStrOpt_snd (key : String) (pm : ParamMap) : (getStrOpt key pm).2.1 = (smapRemove key pm).2 := by
  unfold getStrOpt
  split <;> simp_all

theorem getStrOpt_keeps (key k : String) (hne : k ≠ key) (pm : ParamMap) :
    (k ∈ (getStrOpt key pm).2.1.map (·.1) ↔ k ∈ pm.map (·.1)) ∧ (smapRemove k (getStrOpt key pm).2.1).1 = (smapRemove k pm).1 := by
  rw [getStrOpt_snd]; exact smapRemove_other key k hne pm

theorem getVis_keeps (k : String) (hne : k ≠ "vis") (pm : ParamMap) :
    (k ∈ (getVis pm).2.1.map (·.1) ↔ k ∈ pm.map (·.1)) ∧ (smapRemove k (getVis pm).2.1).1 = (smapRemove k pm).1 := by
  rw [getVis_snd]; exact smapRemove_other "vis" k hne pm

/-- which parameter names a feature asks for -/
def asksFor (spec : FeatSpec) (k : String) : Prop :=
  (spec.hasVisName = true ∧ (k = "vis" ∨ k = "name")) ∨ spec.structKey = some k ∨ (spec.modeKind ≠ .none ∧ k = "mode")

/-- a parameter the feature does not ask for survives all three steps, with its value -/
theorem steps_keep (spec : FeatSpec) (k : String) (hk : ¬ asksFor spec k) (pm : ParamMap) :
    let pm3 := (stepMode spec (stepStruct spec (stepVisName spec pm).2.2.1).2.1).2.1
    (k ∈ pm3.map (·.1) ↔ k ∈ pm.map (·.1)) ∧ (smapRemove k pm3).1 = (smapRemove k pm).1 := by
  unfold asksFor at hk
  simp only [not_or, not_and] at hk
  obtain ⟨h1, h2, h3⟩ := hk
  -- step 1
  have s1 : (k ∈ (stepVisName spec pm).2.2.1.map (·.1) ↔ k ∈ pm.map (·.1)) ∧ (smapRemove k (stepVisName spec pm).2.2.1).1 = (smapRemove k pm).1 := by
    unfold stepVisName
    by_cases hv : spec.hasVisName = true
    · have := h1 hv
      rw [if_pos hv]
      have a := getVis_keeps k this.1 pm
      have b := getStrOpt_keeps "name" k this.2 (getVis pm).2.1
      exact ⟨b.1.trans a.1, b.2.trans a.2⟩
    · simp [hv]
  -- step 2
  have s2 : ∀ q : ParamMap, (k ∈ (stepStruct spec q).2.1.map (·.1) ↔ k ∈ q.map (·.1)) ∧ (smapRemove k (stepStruct spec q).2.1).1 = (smapRemove k q).1 := by
    intro q
    unfold stepStruct
    cases hs : spec.structKey with
    | none => exact ⟨Iff.rfl, rfl⟩
    | some sk =>
      have : k ≠ sk := fun e => h2 (by rw [hs, e])
      exact getStrOpt_keeps sk k this q
  -- step 3
  have s3 : ∀ q : ParamMap, (k ∈ (stepMode spec q).2.1.map (·.1) ↔ k ∈ q.map (·.1)) ∧ (smapRemove k (stepMode spec q).2.1).1 = (smapRemove k q).1 := by
    intro q
    unfold stepMode
    cases hm : spec.modeKind with
    | none => exact ⟨Iff.rfl, rfl⟩
    | m3 =>
      have : k ≠ "mode" := h3 (by simp [hm])
      have g := getStrOpt_keeps "mode" k this q
      simp only; split <;> exact g
    | iter =>
      have : k ≠ "mode" := h3 (by simp [hm])
      have g := getStrOpt_keeps "mode" k this q
      simp only; split <;> exact g
  exact ⟨(s3 _).1.trans ((s2 _).1.trans s1.1), (s3 _).2.trans ((s2 _).2.trans s1.2)⟩

/-- an unknown parameter (one the feature does not ask for) is never ignored: `finish` reports it -/
theorem C13_unknown_param (spec : FeatSpec) (k : String) (hk : ¬ asksFor spec k) (pm : ParamMap) (fm : FeatureMap)
    (hin : k ∈ pm.map (·.1)) :
    (parseFeature spec ((spec.key, pm) :: fm)).2.2 ≠ [] := by
  have hkeep := (steps_keep spec k hk pm).1.mpr hin
  simp only [parseFeature, smapRemove, if_true]
  intro h
  simp only [List.append_eq_nil_iff] at h
  have : finishParams (stepMode spec (stepStruct spec (stepVisName spec pm).2.2.1).2.1).2.1 = [] := h.2
  unfold finishParams at this
  rw [List.map_eq_nil_iff] at this
  rw [this] at hkeep
  simp at hkeep


/-! ### values of the wrong kind, modes and visibilities outside the documented ones -/

/-- `vis`: only `""`, `"pub(crate)"`, `"pub"` pass; a flag or a non-string value is an error too -/
theorem C13_vis (pm : ParamMap) (v : Option LitV) (h : (smapRemove "vis" pm).1 = some v) :
    (getVis pm).2.2 = [] ↔ (v = some (.str "") ∨ v = some (.str "pub(crate)") ∨ v = some (.str "pub")) := by
  unfold getVis
  cases hr : smapRemove "vis" pm with
  | mk r pm' =>
    rw [hr] at h; simp only at h; subst h
    cases v with
    | none => simp
    | some l =>
      cases l with
      | nonStr => simp
      | str s =>
        by_cases h1 : s = ""
        · subst h1; simp
        · by_cases h2 : s = "pub(crate)"
          · subst h2; simp
          · by_cases h3 : s = "pub"
            · subst h3; simp
            · simp only [Option.some.injEq, LitV.str.injEq, h1, h2, h3, or_self, iff_false]
              simp

/-- a string parameter (`name`, `mode`, `struct_name`) given as a flag or with a non-string value is an error -/
theorem C13_string_param_kind (key : String) (pm : ParamMap) (v : Option LitV) (h : (smapRemove key pm).1 = some v) :
    (getStrOpt key pm).2.2 = [] ↔ ∃ s, v = some (.str s) := by
  unfold getStrOpt
  cases hr : smapRemove key pm with
  | mk r pm' =>
    rw [hr] at h; simp only at h; subst h
    cases v with
    | none => simp
    | some l => cases l <;> simp

/-- a flag parameter of `sorted` given with a value is an error -/
theorem C13_flag_param_kind (key : String) (pm : ParamMap) (l : LitV) (h : (smapRemove key pm).1 = some (some l)) :
    (getBool key pm).2.2 ≠ [] := by
  unfold getBool
  cases hr : smapRemove key pm with
  | mk r pm' => rw [hr] at h; simp only at h; subst h; simp

/-- a mode outside the values the feature documents is an error -/
theorem C13_mode (spec : FeatSpec) (hm : spec.modeKind ≠ .none) (pm : ParamMap) (mo : String)
    (h : (smapRemove "mode" pm).1 = some (some (.str mo))) (hmo : mo ∉ spec.modes) : (stepMode spec pm).2.2 ≠ [] := by
  unfold stepMode getStrOpt
  cases hr : smapRemove "mode" pm with
  | mk r pm' =>
    rw [hr] at h; simp only at h; subst h
    cases hk : spec.modeKind with
    | none => exact absurd hk hm
    | m3 => simp [hmo]
    | iter => simp [hmo]

/-- every step's errors end up in the feature's error list -/
theorem C13_errors_collected (spec : FeatSpec) (pm : ParamMap) (fm : FeatureMap) :
    (parseFeature spec ((spec.key, pm) :: fm)).2.2 =
      (stepVisName spec pm).2.2.2 ++ (stepStruct spec (stepVisName spec pm).2.2.1).2.2 ++
        (stepMode spec (stepStruct spec (stepVisName spec pm).2.2.1).2.1).2.2 ++
          finishParams (stepMode spec (stepStruct spec (stepVisName spec pm).2.2.1).2.1).2.1 := by
  simp [parseFeature, smapRemove]

/-! ### repetitions and malformed items -/

theorem parseParams_errs : ∀ (ps : List Param) (pm : ParamMap) (errs : List Err) (r : ParamMap × List Err),
    parseParams pm errs ps = some r → ∃ e, r.2 = errs ++ e := by
  intro ps
  induction ps with
  | nil => intro pm errs r h; simp [parseParams] at h; subst h; exact ⟨[], by simp⟩
  | cons p rest ih =>
    intro pm errs r h
    cases p with
    | other =>
      obtain ⟨e, he⟩ := ih _ _ r (by simpa [parseParams] using h)
      exact ⟨Err.unsupportedAttributeType :: e, by rw [he]; simp⟩
    | flag q =>
      cases q with
      | complex => simp [parseParams] at h
      | simple n =>
        simp only [parseParams] at h
        obtain ⟨e, he⟩ := ih _ _ r h
        split at he
        · exact ⟨_, by rw [he, List.append_assoc]⟩
        · exact ⟨e, he⟩
    | nameLit q l =>
      cases q with
      | complex => simp [parseParams] at h
      | simple n =>
        simp only [parseParams] at h
        obtain ⟨e, he⟩ := ih _ _ r h
        split at he
        · exact ⟨_, by rw [he, List.append_assoc]⟩
        · exact ⟨e, he⟩

theorem parseItems_errs : ∀ (items : List CfgItem) (fm : FeatureMap) (errs : List Err) (r : FeatureMap × List Err),
    parseItems fm errs items = some r → ∃ e, r.2 = errs ++ e := by
  intro items
  induction items with
  | nil => intro fm errs r h; simp [parseItems] at h; subst h; exact ⟨[], by simp⟩
  | cons it rest ih =>
    intro fm errs r h
    cases it with
    | other =>
      obtain ⟨e, he⟩ := ih _ _ r (by simpa [parseItems] using h)
      exact ⟨Err.unsupportedAttributeType :: e, by rw [he]; simp⟩
    | path q =>
      cases q with
      | complex => simp [parseItems] at h
      | simple n =>
        simp only [parseItems] at h
        obtain ⟨e, he⟩ := ih _ _ r h
        split at he
        · exact ⟨_, by rw [he, List.append_assoc]⟩
        · exact ⟨e, he⟩
    | list q ps =>
      cases q with
      | complex => cases ps <;> simp [parseItems] at h
      | simple n =>
        cases ps with
        | none => simp [parseItems] at h
        | some l =>
          simp only [parseItems] at h
          cases hp : parseParams [] errs l with
          | none => rw [hp] at h; cases h
          | some rp =>
            rw [hp] at h
            obtain ⟨e1, he1⟩ := parseParams_errs l [] errs rp hp
            simp only at h
            obtain ⟨e2, he2⟩ := ih _ _ r h
            split at he2
            · exact ⟨e1 ++ ([Err.duplicateFeature] ++ e2), by rw [he2, he1]; simp⟩
            · exact ⟨e1 ++ e2, by rw [he2, he1]; simp⟩

theorem smapInsert_dup_iff {β : Type} (k : String) (v : β) : ∀ (l : List (String × β)), (smapInsert k v l).2 = true ↔ k ∈ l.map (·.1) := by
  intro l
  induction l with
  | nil => simp [smapInsert]
  | cons a t ih =>
    unfold smapInsert
    by_cases h : a.1 = k
    · simp [h]
    · simp only [h, if_false, List.map_cons, List.mem_cons, ih]
      constructor
      · intro hh; exact Or.inr hh
      · rintro (e | e); exact absurd e.symm h; exact e

/-- a feature that is already in the map (from this or an earlier attribute) is reported as a duplicate;
so is an item that is not a path or a list; none of this is ever dropped from the error list -/
theorem C13_duplicate_feature (n : String) (fm : FeatureMap) (errs : List Err) (rest : List CfgItem) (r : FeatureMap × List Err)
    (hin : n ∈ fm.map (·.1)) (h : parseItems fm errs (.path (.simple n) :: rest) = some r) : r.2 ≠ [] := by
  simp only [parseItems, (smapInsert_dup_iff n ([] : ParamMap) fm).mpr hin, if_true] at h
  obtain ⟨e, he⟩ := parseItems_errs rest _ _ r h
  intro hnil; rw [hnil] at he; have := he.symm; simp at this

theorem C13_malformed_item (fm : FeatureMap) (errs : List Err) (rest : List CfgItem) (r : FeatureMap × List Err)
    (h : parseItems fm errs (.other :: rest) = some r) : r.2 ≠ [] := by
  simp only [parseItems] at h
  obtain ⟨e, he⟩ := parseItems_errs rest _ _ r h
  intro hnil; rw [hnil] at he; have := he.symm; simp at this

/-- errors recorded while reading the attributes make the derive fail -/
theorem C13_attr_errors_reject (t : Target) (d : Decl) (a : AttrsOut) (ha : parseAttrs {} d.attrs = .ok a) (he : a.errs ≠ []) :
    ∀ x, expand t d ≠ .ok x := by
  intro x hx
  obtain ⟨a', _, _, _, _, _, ha', _, _, hae, _⟩ := expand_ok t d x hx
  rw [ha] at ha'; cases ha'; exact he hae

/-! ### contradictory requests -/

/-- `range` without `iter`, `range` with `iter` in table_inline mode, `iter` in range mode on an enum with
holes: `resolve` fails, whatever else is enabled -/
theorem C13_contradictory (sh : Shape) (fl : Flags) (m : Modes) :
    ((.range ∈ fl ∧ .iter ∉ fl) → ∀ r, resolve sh fl m ≠ .ok r) ∧
    ((.range ∈ fl ∧ m.iter = .tableInline) → ∀ r, resolve sh fl m ≠ .ok r) ∧
    ((.iter ∈ fl ∧ m.iter = .range ∧ sh.gapless = false) → ∀ r, resolve sh fl m ≠ .ok r) := by
  refine ⟨fun ⟨hr, hi⟩ r hres => ?_, fun ⟨hr, hm⟩ r hres => ?_, fun ⟨hi, hm, hg⟩ r hres => ?_⟩
  · obtain ⟨fl2, m2⟩ := r
    obtain ⟨_, _, _, hfl2⟩ := resolve_ok sh fl m fl2 m2 hres
    have hr2 : Flag.range ∈ fl2 := by rw [hfl2]; exact (user_flag_stable sh fl m m2 .range uo_range).1.mpr hr
    have hi2 := ((C10_resolved sh fl m fl2 m2 hres).2.2.2.2 hr2).1
    rw [hfl2] at hi2
    exact hi ((user_flag_stable sh fl m m2 .iter uo_iter).1.mp hi2)
  · obtain ⟨fl2, m2⟩ := r
    obtain ⟨_, hm2, _, hfl2⟩ := resolve_ok sh fl m fl2 m2 hres
    have hr2 : Flag.range ∈ fl2 := by rw [hfl2]; exact (user_flag_stable sh fl m m2 .range uo_range).1.mpr hr
    have := ((C10_resolved sh fl m fl2 m2 hres).2.2.2.2 hr2).2
    apply this
    rw [hm2, (autoModes_spec sh _ m).2.2.2.2.2.2.2.1 (by rw [hm]; decide), hm]
  · obtain ⟨fl2, m2⟩ := r
    obtain ⟨_, hm2, _, hfl2⟩ := resolve_ok sh fl m fl2 m2 hres
    have hi2 : Flag.iter ∈ fl2 := by rw [hfl2]; exact (user_flag_stable sh fl m m2 .iter uo_iter).1.mpr hi
    have := ((C10_resolved sh fl m fl2 m2 hres).2.2.2.1 hi2).2
    have hm2r : m2.iter = .range := by rw [hm2, (autoModes_spec sh _ m).2.2.2.2.2.2.2.1 (by rw [hm]; decide), hm]
    have := this hm2r
    rw [hg] at this; cases this

/-! ### variant-level attributes -/

/-- a variant-level `enum_tools` attribute that is anything other than `rename = "string literal"` is rejected -/
theorem C13_variant_attr (t : Target) (d : Decl) (v : Variant) (hv : v ∈ d.variants)
    (hbad : .badEmit ∈ v.attrs ∨ .badAbort ∈ v.attrs) : ∀ x, expand t d ≠ .ok x := by
  intro x hx
  have := ((C12_accept_implies_domain t d x hx).forms v hv).2.1
  rcases hbad with h | h
  · rcases this _ h with e | ⟨s, e⟩ <;> cases e
  · rcases this _ h with e | ⟨s, e⟩ <;> cases e

end ET.Thm
