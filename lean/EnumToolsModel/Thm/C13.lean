/-
C13 — Invalid or contradictory configuration is rejected, never silently ignored.   (partial)
Proved, for every attribute AST the model can express and over the regenerated catalogue / rules:
an unknown feature, an unknown parameter, a repeated feature or parameter, a malformed item, a mode
or visibility outside the documented values, a value of the wrong kind, `range` without `iter` or with
table_inline, iter mode `range` on an enum with holes, and any variant-level `enum_tools` attribute
other than `rename = "…"` each make the derive fail — errors are only ever appended, never dropped.
Not proved: `syn`'s classification of concrete attribute syntax (sampled by the probes).
-/
import EnumToolsModel.Lemmas.C13Aux
namespace ET.Thm
open ET.Generated

/-! ### the attribute engine never drops anything silently -/

/-- an unknown feature is always an error -/
theorem C13_unknown_feature (D : Derive) (sorted : Sorted) (fm : FeatureMap) (errs : List Err) (k : String)
    (hk : ∀ s ∈ catalog, s.key ≠ k) (hin : k ∈ fm.map (·.1)) : ∀ x, configStage D sorted fm errs ≠ .ok x := by
  intro x h
  unfold configStage at h
  simp only at h
  have hkeep := parseFeatures_keeps_unknown k catalog {} fm errs hk hin
  generalize parseFeatures catalog {} fm errs = pf at h hkeep
  split at h
  · cases h
  · split at h
    · rename_i hemp
      have := List.isEmpty_iff.mp hemp
      rw [List.append_eq_nil_iff] at this
      have h2 := this.2
      cases hm : pf.2.1 with
      | nil => rw [hm] at hkeep; simp at hkeep
      | cons a b => rw [hm] at h2; simp at h2
    · cases h

/-- the keys the derive knows are exactly the documented feature names (plus `sorted`, parsed first) -/
theorem C13_catalog_keys :
    catalog.map (·.key) = ["as_str", "Debug", "Display", "from_str", "FromStr", "into", "IntoStr", "Into", "iter", "MAX", "MIN",
      "names", "next_back", "next", "range", "try_from", "TryFrom"] := by decide +kernel

/-! ### parameters -/

/-- an unknown parameter (one the feature does not ask for) is never ignored: `finish` reports it -/
theorem C13_unknown_param (spec : FeatSpec) (k : String) (hk : ¬ asksFor spec k) (pm : ParamMap) (fm : FeatureMap)
    (hin : k ∈ pm.map (·.1)) :
    (parseFeature spec ((spec.key, pm) :: fm)).2.2 ≠ [] := by
  have hkeep := (steps_keep spec k hk pm).1.mpr hin
  simp only [parseFeature, smapRemove, if_true]
  intro h
  simp only [List.append_eq_nil_iff] at h
  have : finishParams (stepMode spec (stepStruct spec (stepVisName spec pm).2.2.1).2.1).2.1 = [] := h.2
  unfold finishParams at this
  rw [List.map_eq_nil_iff] at this
  rw [this] at hkeep
  simp at hkeep


/-! ### values of the wrong kind, modes and visibilities outside the documented ones -/

/-- `vis`: only `""`, `"pub(crate)"`, `"pub"` pass; a flag or a non-string value is an error too -/
theorem C13_vis (pm : ParamMap) (v : Option LitV) (h : (smapRemove "vis" pm).1 = some v) :
    (getVis pm).2.2 = [] ↔ (v = some (.str "") ∨ v = some (.str "pub(crate)") ∨ v = some (.str "pub")) := by
  unfold getVis
  cases hr : smapRemove "vis" pm with
  | mk r pm' =>
    rw [hr] at h; simp only at h; subst h
    cases v with
    | none => simp
    | some l =>
      cases l with
      | nonStr => simp
      | str s =>
        by_cases h1 : s = ""
        · subst h1; simp
        · by_cases h2 : s = "pub(crate)"
          · subst h2; simp
          · by_cases h3 : s = "pub"
            · subst h3; simp
            · simp only [Option.some.injEq, LitV.str.injEq, h1, h2, h3, or_self, iff_false]
              simp

/-- a string parameter (`name`, `mode`, `struct_name`) given as a flag or with a non-string value is an error -/
theorem C13_string_param_kind (key : String) (pm : ParamMap) (v : Option LitV) (h : (smapRemove key pm).1 = some v) :
    (getStrOpt key pm).2.2 = [] ↔ ∃ s, v = some (.str s) := by
  unfold getStrOpt
  cases hr : smapRemove key pm with
  | mk r pm' =>
    rw [hr] at h; simp only at h; subst h
    cases v with
    | none => simp
    | some l => cases l <;> simp

/-- a flag parameter of `sorted` given with a value is an error -/
theorem C13_flag_param_kind (key : String) (pm : ParamMap) (l : LitV) (h : (smapRemove key pm).1 = some (some l)) :
    (getBool key pm).2.2 ≠ [] := by
  unfold getBool
  cases hr : smapRemove key pm with
  | mk r pm' => rw [hr] at h; simp only at h; subst h; simp

/-- a mode outside the values the feature documents is an error -/
theorem C13_mode (spec : FeatSpec) (hm : spec.modeKind ≠ .none) (pm : ParamMap) (mo : String)
    (h : (smapRemove "mode" pm).1 = some (some (.str mo))) (hmo : mo ∉ spec.modes) : (stepMode spec pm).2.2 ≠ [] := by
  unfold stepMode getStrOpt
  cases hr : smapRemove "mode" pm with
  | mk r pm' =>
    rw [hr] at h; simp only at h; subst h
    cases hk : spec.modeKind with
    | none => exact absurd hk hm
    | m3 => simp [hmo]
    | iter => simp [hmo]

/-- every step's errors end up in the feature's error list -/
theorem C13_errors_collected (spec : FeatSpec) (pm : ParamMap) (fm : FeatureMap) :
    (parseFeature spec ((spec.key, pm) :: fm)).2.2 =
      (stepVisName spec pm).2.2.2 ++ (stepStruct spec (stepVisName spec pm).2.2.1).2.2 ++
        (stepMode spec (stepStruct spec (stepVisName spec pm).2.2.1).2.1).2.2 ++
          finishParams (stepMode spec (stepStruct spec (stepVisName spec pm).2.2.1).2.1).2.1 := by
  simp [parseFeature, smapRemove]

/-! ### repetitions and malformed items -/

/-- a feature that is already in the map (from this or an earlier attribute) is reported as a duplicate;
so is an item that is not a path or a list; none of this is ever dropped from the error list -/
theorem C13_duplicate_feature (n : String) (fm : FeatureMap) (errs : List Err) (rest : List CfgItem) (r : FeatureMap × List Err)
    (hin : n ∈ fm.map (·.1)) (h : parseItems fm errs (.path (.simple n) :: rest) = some r) : r.2 ≠ [] := by
  simp only [parseItems, (smapInsert_dup_iff n ([] : ParamMap) fm).mpr hin, if_true] at h
  obtain ⟨e, he⟩ := parseItems_errs rest _ _ r h
  intro hnil; rw [hnil] at he; have := he.symm; simp at this

theorem C13_malformed_item (fm : FeatureMap) (errs : List Err) (rest : List CfgItem) (r : FeatureMap × List Err)
    (h : parseItems fm errs (.other :: rest) = some r) : r.2 ≠ [] := by
  simp only [parseItems] at h
  obtain ⟨e, he⟩ := parseItems_errs rest _ _ r h
  intro hnil; rw [hnil] at he; have := he.symm; simp at this

/-- errors recorded while reading the attributes make the derive fail -/
theorem C13_attr_errors_reject (t : Target) (d : Decl) (a : AttrsOut) (ha : parseAttrs {} d.attrs = .ok a) (he : a.errs ≠ []) :
    ∀ x, expand t d ≠ .ok x := by
  intro x hx
  obtain ⟨a', _, _, _, _, _, ha', _, _, hae, _⟩ := expand_ok t d x hx
  rw [ha] at ha'; cases ha'; exact he hae

/-! ### contradictory requests -/

/-- `range` without `iter`, `range` with `iter` in table_inline mode, `iter` in range mode on an enum with
holes: `resolve` fails, whatever else is enabled -/
theorem C13_contradictory (sh : Shape) (fl : Flags) (m : Modes) :
    ((.range ∈ fl ∧ .iter ∉ fl) → ∀ r, resolve sh fl m ≠ .ok r) ∧
    ((.range ∈ fl ∧ m.iter = .tableInline) → ∀ r, resolve sh fl m ≠ .ok r) ∧
    ((.iter ∈ fl ∧ m.iter = .range ∧ sh.gapless = false) → ∀ r, resolve sh fl m ≠ .ok r) := by
  refine ⟨fun ⟨hr, hi⟩ r hres => ?_, fun ⟨hr, hm⟩ r hres => ?_, fun ⟨hi, hm, hg⟩ r hres => ?_⟩
  · obtain ⟨fl2, m2⟩ := r
    obtain ⟨_, _, _, hfl2⟩ := resolve_ok sh fl m fl2 m2 hres
    have hr2 : Flag.range ∈ fl2 := by rw [hfl2]; exact (user_flag_stable sh fl m m2 .range uo_range).1.mpr hr
    have hi2 := ((C10_resolved sh fl m fl2 m2 hres).2.2.2.2 hr2).1
    rw [hfl2] at hi2
    exact hi ((user_flag_stable sh fl m m2 .iter uo_iter).1.mp hi2)
  · obtain ⟨fl2, m2⟩ := r
    obtain ⟨_, hm2, _, hfl2⟩ := resolve_ok sh fl m fl2 m2 hres
    have hr2 : Flag.range ∈ fl2 := by rw [hfl2]; exact (user_flag_stable sh fl m m2 .range uo_range).1.mpr hr
    have := ((C10_resolved sh fl m fl2 m2 hres).2.2.2.2 hr2).2
    apply this
    rw [hm2, (autoModes_spec sh _ m).2.2.2.2.2.2.2.1 (by rw [hm]; decide), hm]
  · obtain ⟨fl2, m2⟩ := r
    obtain ⟨_, hm2, _, hfl2⟩ := resolve_ok sh fl m fl2 m2 hres
    have hi2 : Flag.iter ∈ fl2 := by rw [hfl2]; exact (user_flag_stable sh fl m m2 .iter uo_iter).1.mpr hi
    have := ((C10_resolved sh fl m fl2 m2 hres).2.2.2.1 hi2).2
    have hm2r : m2.iter = .range := by rw [hm2, (autoModes_spec sh _ m).2.2.2.2.2.2.2.1 (by rw [hm]; decide), hm]
    have := this hm2r
    rw [hg] at this; cases this

/-! ### variant-level attributes -/

/-- a variant-level `enum_tools` attribute that is anything other than `rename = "string literal"` is rejected -/
theorem C13_variant_attr (t : Target) (d : Decl) (v : Variant) (hv : v ∈ d.variants)
    (hbad : .badEmit ∈ v.attrs ∨ .badAbort ∈ v.attrs) : ∀ x, expand t d ≠ .ok x := by
  intro x hx
  have := ((C12_accept_implies_domain t d x hx).forms v hv).2.1
  rcases hbad with h | h
  · rcases this _ h with e | ⟨s, e⟩ <;> cases e
  · rcases this _ h with e | ⟨s, e⟩ <;> cases e

end ET.Thm
