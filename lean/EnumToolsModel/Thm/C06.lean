/-
C06 — iter() is a double-ended exact-size fused iterator over all variants ascending.
-/
import EnumToolsModel.Lemmas.IterSim
import EnumToolsModel.Thm.C05
import EnumToolsModel.Generated.Inventory
import EnumToolsModel.Lemmas.TemplatesRun
namespace ET.Thm

/-- the enum's `next` / `next_back`, by position (from C05) -/
theorem stepFns (D : Derive) (h : D.WF) : StepFns D.vals (nextFn D) (nextBackFn D) :=
  ⟨fun i hi => C05_next_index D h i hi, fun i hi => C05_nextBack_index D h i hi⟩

theorem mapTransmute_ok (D : Derive) (l : List Int) (h : ∀ x ∈ l, x ∈ D.vals) : mapTransmute D l = .ok l := by
  induction l with
  | nil => rfl
  | cons x rest ih =>
    simp only [mapTransmute, transmute_of_mem D x (h x (by simp)), Res.bind_ok,
      ih (fun y hy => h y (by simp [hy]))]

/-- `iter()` starts out representing all variants in ascending discriminant order — in each of the
four concrete modes (`range` only exists for gapless enums: `resolve` rejects it otherwise) -/
theorem C06_init (D : Derive) (h : D.WF) (m : IterMode) (hm : m ≠ .auto) (hr : m = .range → D.gapless = true) :
    ∃ st, iterInit D m = .ok st ∧ Sim D.vals st (spec.iter D.sem) := by
  have hspec : spec.iter D.sem = D.vals := D.sem_discs
  rw [hspec]
  cases m with
  | auto => exact absurd rfl hm
  | range =>
    have hg := hr rfl
    have hint := h.gapless_interval hg
    have hlmin : lit D.repr D.minKey = D.minKey := D.repr.wrap_of_inRange h.bits_pos _ (h.inRange _ h.minKey_mem)
    have hlmax : lit D.repr D.maxKey = D.maxKey := D.repr.wrap_of_inRange h.bits_pos _ (h.inRange _ h.maxKey_mem)
    refine ⟨.cursor D.vals, ?_, Sim.cursor _⟩
    simp only [iterInit, hlmin, hlmax, ← hint, mapTransmute_ok D D.vals (fun x hx => hx), Res.bind_ok]
  | nextAndBack =>
    refine ⟨.nb (some (minC D)) (some (maxC D)) D.numValues, rfl, ?_⟩
    have e : absList D.vals 0 D.numValues = D.vals := by
      simp [absList, ← D.vals_length]
    have hh := Sim.nb (vals := D.vals) (some (minC D)) (some (maxC D)) D.numValues 0
      ⟨by rw [D.vals_length]; omega, fun h0 => ⟨by
          rw [← List.head?_eq_getElem?, h.head?_eq]; rfl, by
          have := h.getLast?_eq
          rw [List.getLast?_eq_getElem?, D.vals_length] at this
          rw [Nat.zero_add, this]; rfl⟩⟩
    rw [e] at hh
    exact hh
  | table => exact ⟨.cursor D.vals, rfl, Sim.cursor _⟩
  | tableInline => exact ⟨.cursor D.vals, rfl, Sim.cursor _⟩

/-- Observational equality with a cursor over the sorted variant list: after *any* finite sequence
of `next`, `next_back`, `nth`, `nth_back`, `len`, `size_hint`, every output equals the cursor's, and
any consuming operation (`fold`, `rfold`, `last`, `count`, `collect`, `rev`) gives the cursor's result.
In particular no operation is UB or panics. -/
theorem C06_iter (D : Derive) (h : D.WF) (m : IterMode) (hm : m ≠ .auto) (hr : m = .range → D.gapless = true)
    (ops : List Op) (fin : Fin) :
    ∃ st st', iterInit D m = .ok st ∧
      IterState.run (nextFn D) (nextBackFn D) st ops = .ok (st', (Cursor.run (spec.iter D.sem) ops).2) ∧
      IterState.finish (nextFn D) (nextBackFn D) st' fin = .ok (Cursor.finish (Cursor.run (spec.iter D.sem) ops).1 fin) := by
  obtain ⟨st, hi, hsim⟩ := C06_init D h m hm hr
  obtain ⟨st', hrun, hsim'⟩ := run_sim (stepFns D h) ops st _ hsim
  exact ⟨st, st', hi, hrun, finish_sim (stepFns D h) st' _ hsim' fin⟩

/-- fused: an exhausted cursor stays exhausted and keeps answering `None` / 0 -/
theorem C06_fused (op : Op) : (Cursor.step ([] : List Int) op).1 = [] ∧
    (Cursor.step ([] : List Int) op).2 = (match op with | .len => .len 0 | .sizeHint => .hint 0 (some 0) | _ => .item none) := by
  cases op <;> simp [Cursor.step]

/-- exact size: the reported length is the number of remaining items, whatever happened before -/
theorem C06_len (l : List Int) (ops : List Op) :
    (Cursor.step (Cursor.run l ops).1 .len).2 = .len (Cursor.run l ops).1.length := rfl

/-- one operation leaves a contiguous piece of what was there -/
theorem cursor_step_infix {α} (l : List α) (op : Op) : (Cursor.step l op).1 <:+: l := by
  cases op with
  | next => exact (List.tail_suffix l).isInfix
  | nextBack => exact (List.dropLast_prefix l).isInfix
  | nth k => exact (List.drop_suffix _ l).isInfix
  | nthBack k =>
    have h : (l.reverse.drop (k + 1)).reverse <+: l.reverse.reverse :=
      List.reverse_prefix.mpr (List.drop_suffix _ _)
    rw [List.reverse_reverse] at h
    exact h.isInfix
  | len => exact List.infix_rfl
  | sizeHint => exact List.infix_rfl

/-- whatever the history, what remains is a contiguous piece of the original sequence: nothing is
reordered, nothing yielded from one end comes back, front and back never cross -/
theorem C06_remaining_infix {α} (ops : List Op) : ∀ (l : List α), (Cursor.run l ops).1 <:+: l := by
  induction ops with
  | nil => intro l; exact List.infix_rfl
  | cons op ops ih =>
    intro l
    simp only [Cursor.run]
    exact (ih _).trans (cursor_step_infix l op)

/-- so the remaining items of `iter()` are always ascending, and `len()` never grows -/
theorem C06_remaining_sorted (D : Derive) (h : D.WF) (ops : List Op) :
    (Cursor.run (spec.iter D.sem) ops).1.Pairwise (· < ·) ∧
    (Cursor.run (spec.iter D.sem) ops).1.length ≤ D.numValues := by
  have hi := C06_remaining_infix ops (spec.iter D.sem)
  have hs : (spec.iter D.sem).Pairwise (· < ·) := by unfold spec.iter; rw [D.sem_discs]; exact h.sorted
  refine ⟨List.Pairwise.sublist hi.sublist hs, ?_⟩
  have := hi.length_le
  simpa [spec.iter, EnumSem.discs, Derive.sem, Derive.numValues] using this

/-- the forwarding modes (range, table, table_inline — and `names()`) are what the model says they are:
over the regenerated inventory, every method of `extend_common` calls the same-named method of the inner
std iterator with the same arguments in the same order (`len` of the range mode: `size_hint().0`), and all
nine forwarders (plus both `len` variants) are present -/
theorem C06_forwarders_wired :
    (Generated.forwarders.all (fun f =>
      (f.1 == f.2.1 && f.2.2.1 == f.2.2.2.1 && f.2.2.2.2 == "") ||
      (f.1 == "len" && f.2.1 == "size_hint" && f.2.2.2.2 == ".0"))) = true ∧
    (["next", "size_hint", "nth", "fold", "last", "next_back", "nth_back", "rfold", "len"].all
      (fun n => Generated.forwarders.any (fun f => f.1 == n))) = true := by
  decide +kernel

/-- non-vacuity: a front/back interleaving that meets in the middle on the three-field state machine -/
example : exD1.WF ∧
    (iterInit exD1 .nextAndBack).bind (fun st => IterState.run (nextFn exD1) (nextBackFn exD1) st [.next, .nextBack, .nth 1, .nextBack, .nextBack, .next, .len])
      = (.ok (.nb (some 3) (some (-4)) 0, [.item (some (-10)), .item (some 127), .item (some (-4)), .item (some 126), .item (some 3), .item none, .len 0])) := by
  refine ⟨exD1_WF, by decide⟩

/-! ### the same statement about the iterator translated from /repo/src (`Generated/Templates.lean`, `TRun.lean`) -/

theorem stepFns_source (D : Derive) (tg : Target) (md : Modes) (h : D.WF) :
    StepFns D.vals (T.next D tg md) (T.nextBack D tg md) :=
  T.stepFnsT D tg md h (fun i hi => C05_next_index D h i hi) (fun i hi => C05_nextBack_index D h i hi)

/-- the function bodies the templates contain are exactly the ones the model accounts for: in particular the hand-written
`next_and_back` struct implements `next`, `size_hint`, `next_back`, `len` and nothing else, so every other `Iterator` /
`DoubleEndedIterator` method on it is `core`'s provided one (which is how `TRun.lean` and `Iter.lean` run them) -/
theorem C06_translated_functions : T.translatedFunctions =
    ["asStr_match", "asStr_table_gapless", "asStr_table_holes", "debug", "display", "fromStrFn_match", "fromStrFn_table_gapless",
     "fromStrFn_table_holes", "fromStrTrait_match", "fromStrTrait_table_gapless", "fromStrTrait_table_holes", "intoFn", "intoStr",
     "intoTrait", "iter_DoubleEnded_next_back_nextAndBack", "iter_ExactSize_len_nextAndBack", "iter_Iterator_next_nextAndBack",
     "iter_Iterator_size_hint_nextAndBack", "iter_nextAndBack", "iter_range", "iter_table", "iter_tableInline", "names",
     "nextBack_gapless", "nextBack_holes", "next_gapless", "next_holes", "range_gapless_nextAndBack", "range_gapless_range",
     "range_gapless_table", "range_holes_nextAndBack", "range_holes_table", "tryFromFn_gapless", "tryFromFn_holes",
     "tryFromTrait_gapless", "tryFromTrait_holes"] := by
  decide

/-- `iter()` as the source is written now — its constructor in each mode and the hand-written
`next_and_back` methods — is observationally a cursor over the sorted variants under every finite history -/
theorem C06_source (D : Derive) (tg : Target) (md : Modes) (h : D.WF) (ht : tg.WF)
    (hm : md.iter ≠ .auto) (hr : md.iter = .range → D.gapless = true) (ops : List Op) (fin : Fin) :
    ∃ st st', T.iter D tg md = .ok st ∧
      T.runT D tg md st ops = .ok (st', (Cursor.run (spec.iter D.sem) ops).2) ∧
      T.finishT D tg md st' fin = .ok (Cursor.finish (Cursor.run (spec.iter D.sem) ops).1 fin) := by
  obtain ⟨st, hi, hsim⟩ := C06_init D h md.iter hm hr
  have hmode : md.iter = .nextAndBack ∨ ∃ l', st = .cursor l' := by
    by_cases hnb : md.iter = .nextAndBack
    · exact Or.inl hnb
    · exact Or.inr (iterInit_cursor D md.iter hnb st hi)
  obtain ⟨st', h1, h2⟩ := T.observeT D tg md h ht (stepFns_source D tg md h) st _ hsim hmode ops fin
  exact ⟨st, st', by rw [T.iter_eq D tg md hm]; exact hi, h1, h2⟩

end ET.Thm
