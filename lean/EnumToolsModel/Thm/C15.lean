/-
C15 — name, vis and struct_name parameters are honoured; helper items stay private.   (partial)
Proved: (a) in the model of the attribute engine, the requested name / visibility / struct name is
what ends up in the item's configuration, the defaults are the documented ones, and a feature that
was not requested gets a `__` name with inherited (private) visibility; (b) over the regenerated
inventory of templates, every named item is emitted with the visibility expression `#vis` (the
user's, else the enum's), the tables with none (private), nothing with a hard-coded `pub`, and no
template refers to another feature's item other than through its (possibly renamed) identifier.
Not proved: rustc's privacy rules (sampled by the visibility probes and the structural comparison).
-/
import EnumToolsModel.Generated.Inventory
import EnumToolsModel.Generated.Catalog
import EnumToolsModel.Macro
namespace ET.Thm
open ET.Generated

/-- requested `name`, `vis` and `struct_name` reach the item configuration -/
theorem C15_params_honoured (spec : FeatSpec) (hv : spec.hasVisName = true) (sk : String) (hs : spec.structKey = some sk)
    (hm : spec.modeKind = .none) (n sn : String) (fm : FeatureMap) :
    (parseFeature spec ((spec.key, [("vis", some (.str "pub(crate)")), ("name", some (.str n)), (sk, some (.str sn))]) :: fm)).1
      = { enabled := true, item := { vis := some .pubCrate, name := n, structName := some sn }, mode := none } ∧
    (parseFeature spec ((spec.key, [("vis", some (.str "pub(crate)")), ("name", some (.str n)), (sk, some (.str sn))]) :: fm)).2.2 = [] := by
  simp [parseFeature, stepVisName, stepStruct, stepMode, finishParams, smapRemove, getVis, getStrOpt, hv, hs, hm]

/-- defaults: the feature's own name, the enum's visibility (`none`), the default struct name -/
theorem C15_defaults (spec : FeatSpec) (hv : spec.hasVisName = true) (hm : spec.modeKind = .none) (fm : FeatureMap) :
    (parseFeature spec ((spec.key, []) :: fm)).1 =
      { enabled := true, item := { vis := none, name := spec.key, structName := none }, mode := none } := by
  cases hs : spec.structKey <;> simp [parseFeature, stepVisName, stepStruct, stepMode, finishParams, smapRemove, getVis, getStrOpt, hv, hs, hm]

/-- a feature the user did not ask for: `__` name, inherited (private) visibility -/
theorem C15_not_requested (spec : FeatSpec) :
    (parseFeature spec []).1 = { enabled := false, item := { vis := some .inherited, name := spec.hiddenName } } := by
  simp [parseFeature, smapRemove]

/-- each documented visibility string selects that visibility; anything else is an error -/
theorem C15_vis_values (pm : ParamMap) :
    (getVis (("vis", some (.str "")) :: pm)).1 = some .inherited ∧
    (getVis (("vis", some (.str "pub(crate)")) :: pm)).1 = some .pubCrate ∧
    (getVis (("vis", some (.str "pub")) :: pm)).1 = some .pub ∧
    (getVis (("vis", some (.str "pub(super)")) :: pm)).2.2 = [.unsupportedVisibility] := by
  simp [getVis, smapRemove]

/-- the hidden names of the catalogue are `__` + the feature's name -/
theorem C15_hidden_names :
    (catalog.all (fun s => !s.hasVisName || s.hiddenName == "__" ++ s.key)) = true := by
  decide +kernel

/-- every item that carries a generated name is declared with `#vis` — except the three tables, which are private -/
theorem C15_item_visibility :
    (itemVisibility.all (fun r =>
      if r.2.1 == "#ident_table_enum" || r.2.1 == "#ident_table_name" || r.2.1 == "#ident_table_range"
      then r.2.2 == "" else r.2.2 == "#vis")) = true := by
  decide +kernel

/-- `#vis` is the user's `vis` if given, else the enum's, in every generator -/
theorem C15_vis_source : (visFromUserOrEnum.all (·.2)) = true ∧ visFromUserOrEnum.length = 11 := by
  decide +kernel

/-- no template names another item by a fixed path: after `Self::` only interpolations and the impl's own
associated types occur -/
theorem C15_no_hard_coded_item_names :
    ((nameOccurrences.filter (fun o => o.2.2.2 == .selfRelative)).all
      (fun o => o.2.2.1 == "Self" || o.2.2.1 == "self" || o.2.2.1 == "Item" || o.2.2.1 == "Error" || o.2.2.1 == "Err")) = true := by
  decide +kernel

end ET.Thm
