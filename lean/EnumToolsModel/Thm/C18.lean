/-
C18 — Behaviour depends only on the discriminant-to-name map, not on order or repr.
Corollaries: every schema equals a specification function of `D.sem` alone; and the meaning of a
declaration does not depend on the order of its (explicitly numbered) variants.
-/
import EnumToolsModel.Thm.C09
import EnumToolsModel.Thm.C01
import EnumToolsModel.Lemmas.ReprTableEq
namespace ET.Thm

/-- the repr table as written in `parser/mod.rs` on this run is the model's (same reprs, same size guesses, unsigned companion of
the same width): what makes the results independent of the repr also rests on it -/
theorem C18_repr_table_source (t : Target) :
    (ET.Generated.reprArms.all (armAgrees t)) = true
    ∧ (∀ r, (reprTable t r).isSome ↔ r ∈ ET.Generated.reprArms.map (·.1)) := repr_table_source t

/-- two derives (any reprs, any declaration orders, any modes) with the same discriminant-to-name map give
the same results for every item and every input -/
theorem C18_same_map_same_results (D1 D2 : Derive) (t : Target) (h1 : D1.WF) (h2 : D2.WF) (ht : t.WF) (hs : D1.sem = D2.sem) :
    (∀ n, tryFromFn D1 n = tryFromFn D2 n ∧ tryFromTrait D1 n = tryFromTrait D2 n) ∧
    (∀ v ∈ D1.vals, nextFn D1 v = nextFn D2 v ∧ nextBackFn D1 v = nextBackFn D2 v) ∧
    (minC D1 = minC D2 ∧ maxC D1 = maxC D2) ∧
    (∀ m1 m2 v, v ∈ D1.vals → asStr D1 t m1 v = asStr D2 t m2 v) ∧
    (∀ m1 m2 s, fromStr D1 m1 s = fromStr D2 m2 s) ∧
    (spec.iter D1.sem = spec.iter D2.sem ∧ spec.names D1.sem = spec.names D2.sem ∧ ∀ a b, spec.range D1.sem a b = spec.range D2.sem a b) := by
  have hvals : D1.vals = D2.vals := by rw [← D1.sem_discs, ← D2.sem_discs, hs]
  refine ⟨fun n => ?_, fun v hv => ?_, ?_, fun m1 m2 v hv => ?_, fun m1 m2 s => ?_, by rw [hs]; exact ⟨rfl, rfl, fun _ _ => rfl⟩⟩
  · rw [C01_tryFromFn D1 h1, C01_tryFromFn D2 h2, C01_tryFromTrait D1 h1, C01_tryFromTrait D2 h2, hs]; exact ⟨rfl, rfl⟩
  · have hv2 : v ∈ D2.vals := hvals ▸ hv
    rw [C05_next D1 h1 v hv, C05_next D2 h2 v hv2, C05_nextBack D1 h1 v hv, C05_nextBack D2 h2 v hv2, hs]; exact ⟨rfl, rfl⟩
  · have a1 := (C05_min_max D1 h1).1; have a2 := (C05_min_max D2 h2).1
    have b1 := (C05_min_max D1 h1).2.1; have b2 := (C05_min_max D2 h2).2.1
    rw [hs] at a1 b1; rw [a1] at a2; rw [b1] at b2
    exact ⟨Option.some.inj a2, Option.some.inj b2⟩
  · have hv2 : v ∈ D2.vals := hvals ▸ hv
    obtain ⟨n1, s1, e1⟩ := C03_asStr D1 t h1 ht m1 v hv
    obtain ⟨n2, s2, e2⟩ := C03_asStr D2 t h2 ht m2 v hv2
    rw [hs, s2] at s1; cases s1; rw [e1, e2]
  · rw [C04_fromStr D1 h1 m1 s, C04_fromStr D2 h2 m2 s, hs]

/-- the entry of a variant whose discriminant is written explicitly -/
def explicitEntry (v : Variant) : Option (Int × Name) := (v.disc.bind (·.value?)).map (fun i => (i, v.name))

/-- all discriminants written explicitly: the language's assignment is a plain map over the variants -/
theorem rustcDiscs_explicit : ∀ (vs : List Variant) (nxt : Int), (∀ v ∈ vs, ∃ e i, v.disc = some e ∧ e.value? = some i) →
    rustcDiscs nxt vs = some (vs.filterMap explicitEntry) := by
  intro vs
  induction vs with
  | nil => intro nxt _; rfl
  | cons v rest ih =>
    intro nxt hex
    obtain ⟨e, i, he, hi⟩ := hex v (by simp)
    have := ih (i + 1) (fun w hw => hex w (by simp [hw]))
    simp [rustcDiscs, he, hi, this, explicitEntry]

/-- permuting the declaration order of variants whose discriminants are all explicit (and distinct) does
not change the meaning of the declaration — hence, by `C11_sem`, not the data the derive works with -/
theorem C18_order_independent (d1 d2 : Decl) (hp : d1.variants.Perm d2.variants)
    (hex : ∀ v ∈ d1.variants, ∃ e i, v.disc = some e ∧ e.value? = some i)
    (hnd : ((d1.variants.filterMap explicitEntry).map (·.1)).Nodup) : d1.sem = d2.sem := by
  have h1 := rustcDiscs_explicit d1.variants 0 hex
  have h2 := rustcDiscs_explicit d2.variants 0 (fun v hv => hex v (hp.mem_iff.mpr hv))
  unfold Decl.sem
  rw [h1, h2]
  simp only [Option.map_some, Option.some.injEq, EnumSem.mk.injEq]
  exact sortByDisc_perm_invariant _ _ (hp.filterMap _) hnd

/-- consequently two accepted derives on declarations that differ only in the order of their (explicitly
numbered) variants — and possibly in repr — work on the same discriminant-to-name map -/
theorem C18_derive_order_repr_independent (t1 t2 : Target) (d1 d2 : Decl) (x1 x2 : Expansion)
    (h1 : expand t1 d1 = .ok x1) (h2 : expand t2 d2 = .ok x2) (hp : d1.variants.Perm d2.variants)
    (hex : ∀ v ∈ d1.variants, ∃ e i, v.disc = some e ∧ e.value? = some i)
    (hnd : ((d1.variants.filterMap explicitEntry).map (·.1)).Nodup) : x1.D.sem = x2.D.sem := by
  have e1 := C11_sem t1 d1 x1 h1
  have e2 := C11_sem t2 d2 x2 h2
  rw [C18_order_independent d1 d2 hp hex hnd] at e1
  rw [e1] at e2
  exact Option.some.inj e2

/-- the same for the function bodies translated from /repo/src: two derives with the same discriminant-to-name map
(any reprs, any declaration orders, any resolved modes, any targets) -/
theorem C18_source (D1 D2 : Derive) (t1 t2 : Target) (m1 m2 : Modes) (h1 : D1.WF) (h2 : D2.WF) (ht1 : t1.WF) (ht2 : t2.WF)
    (hs : D1.sem = D2.sem) :
    (∀ n, D1.repr.InRange n → D2.repr.InRange n → T.tryFromFn D1 t1 m1 n = T.tryFromFn D2 t2 m2 n) ∧
    (∀ v ∈ D1.vals, T.next D1 t1 m1 v = T.next D2 t2 m2 v ∧ T.nextBack D1 t1 m1 v = T.nextBack D2 t2 m2 v) ∧
    (∀ v ∈ D1.vals, m1.asStr ≠ .auto → m2.asStr ≠ .auto → T.asStr D1 t1 m1 v = T.asStr D2 t2 m2 v) ∧
    (∀ s, m1.fromStrFn ≠ .auto → m2.fromStrFn ≠ .auto → T.fromStrFn D1 t1 m1 s = T.fromStrFn D2 t2 m2 s) := by
  have hvals : D1.vals = D2.vals := by rw [← D1.sem_discs, ← D2.sem_discs, hs]
  refine ⟨fun n a b => ?_, fun v hv => ?_, fun v hv a b => ?_, fun s a b => ?_⟩
  · rw [(C01_source_tryFrom D1 t1 m1 h1 n a).1, (C01_source_tryFrom D2 t2 m2 h2 n b).1, hs]
  · have hv2 : v ∈ D2.vals := hvals ▸ hv
    rw [(C05_source D1 t1 m1 h1 v hv).1, (C05_source D2 t2 m2 h2 v hv2).1, (C05_source D1 t1 m1 h1 v hv).2, (C05_source D2 t2 m2 h2 v hv2).2, hs]
    exact ⟨rfl, rfl⟩
  · have hv2 : v ∈ D2.vals := hvals ▸ hv
    obtain ⟨n1, s1, e1, _⟩ := C03_source D1 t1 m1 h1 ht1 a v hv
    obtain ⟨n2, s2, e2, _⟩ := C03_source D2 t2 m2 h2 ht2 b v hv2
    rw [hs, s2] at s1; cases s1; rw [e1, e2]
  · rw [(C04_source D1 t1 m1 h1 s).1 a, (C04_source D2 t2 m2 h2 s).1 b, hs]

end ET.Thm
