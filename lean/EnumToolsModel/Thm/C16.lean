/-
C16 — Generated code is independent of user scope (no_std, no prelude, shadowing).   (partial)
Proved over the regenerated inventory of every identifier occurrence in every template: none of
them is resolved through the user's module scope.  rustc's name resolution itself is modelled by
the small function `resolves` below and sampled by the hostile-scope harness and probes.
-/
import EnumToolsModel.Generated.Inventory
namespace ET.Thm
open ET.Generated

/-- classes of occurrences whose meaning depends on what is in scope at the derive's call site -/
def scopeDependent : NameClass → Bool
  | .bare | .bareMacro | .barePathHead | .barePathTail | .absOther | .relativeUse | .interpRelative => true
  | _ => false

/-- no template contains a name that is looked up in the user's scope: everything is an absolute
`::core::…` path, `Self`-relative, an interpolated generated item, a binding or absolute `use`
local to the generated function, a method/field, a keyword, or a primitive type name -/
theorem C16_no_scope_dependent_name : (nameOccurrences.all (fun o => !scopeDependent o.2.2.2)) = true := by
  decide +kernel

/-- every absolute path starts at `::core` (never `::std`, never another crate) -/
theorem C16_absolute_paths_are_core : (nameOccurrences.all (fun o => o.2.2.2 != .absOther)) = true := by
  decide +kernel

/-- a model of name resolution in which only scope-dependent occurrences consult the user's environment -/
def resolves (env : String → Option String) (o : String × Nat × String × NameClass) : Option String :=
  if scopeDependent o.2.2.2 then env o.2.2.1 else some o.2.2.1

/-- in that model, what the templates mean does not depend on the user's environment -/
theorem C16_env_independent (env₁ env₂ : String → Option String) :
    nameOccurrences.map (resolves env₁) = nameOccurrences.map (resolves env₂) := by
  apply List.map_congr_left
  intro o ho
  have := List.all_eq_true.mp C16_no_scope_dependent_name o ho
  simp only [Bool.not_eq_true'] at this
  simp [resolves, this]

/-- limit, stated not hidden: primitive type names are written unqualified (a user *type* called `usize`
or `str` would capture them); these are the occurrences -/
def primitiveOccurrences : List String := (nameOccurrences.filter (fun o => o.2.2.2 == .primitive)).map (·.2.2.1) |>.eraseDups

end ET.Thm
