/-
C12 — Declarations outside the supported domain never compile.   (partial)
Contrapositive, for *every* declaration the model can express (every discriminant-expression
constructor including `other`, which stands for all forms the code does not look into; every kind
of field; struct/union; every repr-attribute shape): if the derive accepts, the declaration is in
the documented domain.  Not proved: that `syn` classifies concrete syntax into these constructors
as modelled, and that an emitted error makes rustc fail (sampled by the probes).
-/
import EnumToolsModel.Lemmas.Expand
import EnumToolsModel.Lemmas.ReprTableEq
namespace ET.Thm

/-- the repr attributes of a declaration -/
def reprAttrs (attrs : List EAttr) : List ReprArg :=
  attrs.filterMap (fun a => match a with | .repr r => some r | _ => none)

theorem parseAttrs_repr : ∀ (attrs : List EAttr) (st a : AttrsOut), parseAttrs st attrs = .ok a →
    (∀ r, a.repr = some r → (st.repr = some r ∧ reprAttrs attrs = []) ∨ (st.repr = none ∧ reprAttrs attrs = [.ident r])) ∧
    (a.repr = none → st.repr = none ∧ reprAttrs attrs = []) := by
  intro attrs
  induction attrs with
  | nil =>
    intro st a h
    simp only [parseAttrs, Except.ok.injEq] at h; subst h
    refine ⟨fun r hr => ?_, fun hr => ⟨hr, rfl⟩⟩
    exact Or.inl ⟨hr, rfl⟩
  | cons x rest ih =>
    intro st a h
    cases x with
    | foreign => simpa [parseAttrs, reprAttrs] using ih st a (by simpa [parseAttrs] using h)
    | enumToolsNotList =>
      have := ih { st with errs := st.errs ++ [.unsupportedAttributeType] } a (by simpa [parseAttrs] using h)
      simpa [reprAttrs] using this
    | enumTools items =>
      cases items with
      | none => simp [parseAttrs] at h
      | some it =>
        simp only [parseAttrs] at h
        cases hp : parseItems st.fm st.errs it with
        | none => rw [hp] at h; cases h
        | some r => rw [hp] at h; simpa [reprAttrs] using ih _ a h
    | repr ra =>
      simp only [parseAttrs] at h
      cases hs : st.repr with
      | some s => rw [hs] at h; cases h
      | none =>
        rw [hs] at h
        cases ra with
        | other => cases h
        | ident s =>
          have := ih _ a h
          simp only at this
          refine ⟨fun r hr => ?_, fun hr => ?_⟩
          · rcases this.1 r hr with ⟨e1, e2⟩ | ⟨e1, _⟩
            · right; simp only [Option.some.injEq] at e1; subst e1
              exact ⟨rfl, by simp [reprAttrs] at e2 ⊢; exact e2⟩
            · cases e1
          · have := this.2 hr; cases this.1

/-- the documented domain of a declaration, as far as the enum itself is concerned -/
structure InDomain (t : Target) (d : Decl) : Prop where
  isEnum : d.kind = .enum
  /-- exactly one repr attribute, naming one of the twelve primitive types -/
  oneRepr : ∃ r, reprAttrs d.attrs = [.ident r] ∧ (reprTable t r).isSome
  /-- every variant is a unit variant with a discriminant that is implicit or an (optionally negated)
  integer literal within i64, and only `rename = "…"` as `enum_tools` attribute -/
  forms : ∀ v ∈ d.variants, v.fields = .unit ∧ v.attrsOk ∧ (∀ e, v.disc = some e → e.InDomain)
  /-- the discriminants the language assigns exist, lie within i64 and are distinct; 1..=65534 variants -/
  discs : ∃ l, rustcDiscs 0 d.variants = some l ∧ l ≠ [] ∧ l.length < 65535 ∧ l.length = d.variants.length ∧
    (∀ p ∈ l, i64Min ≤ p.1 ∧ p.1 ≤ i64Max) ∧ (l.map (·.1)).Nodup

/-- Whatever the derive accepts lies in the documented domain — so a struct, a union, an enum without
variants, a variant with fields, a discriminant that is not a plain (optionally negated) integer
literal (any other expression form), a value outside i64, a missing / duplicated / non-identifier /
non-primitive repr, or 65535 and more variants is always rejected. -/
theorem C12_accept_implies_domain (t : Target) (d : Decl) (x : Expansion) (h : expand t d = .ok x) : InDomain t d := by
  obtain ⟨a, rname, repr, sg, ub, pv, ha, hrn, hrt, _, _, hkind, hpv, hpverrs, hne, hlen, _, _⟩ := expand_ok t d x h
  have hclean := (pvLoop_clean_iff _ d.variants { errs := [] } pv (by decide) (by decide)).mp ⟨hpv, hpverrs⟩
  obtain ⟨hforms, l, hl, hll, hvals, _, _, hnd, hrange⟩ := clean_discs _ d.variants _ pv hclean
  refine ⟨hkind, ⟨rname, ?_, by rw [hrt]; rfl⟩, fun v hv => ?_, ⟨l, by simpa using hl, ?_, ?_, hll, hrange (by decide) (by decide), hnd⟩⟩
  · rcases (parseAttrs_repr d.attrs {} a ha).1 rname hrn with ⟨e, _⟩ | ⟨_, e⟩
    · cases e
    · exact e
  · obtain ⟨h1, h2, h3⟩ := hforms v hv; exact ⟨h2, h1, h3⟩
  · intro e; apply hne; rw [hvals, e]; simp [entriesOf]
  · have : pv.values.length = l.length := by
      rw [hvals]; simp [entriesOf, hll]
    omega

/-- each way of leaving the domain, spelled out as a rejection -/
theorem C12_rejections (t : Target) (d : Decl) :
    (d.kind ≠ .enum → ∀ x, expand t d ≠ .ok x) ∧
    (d.variants = [] → ∀ x, expand t d ≠ .ok x) ∧
    ((∃ v ∈ d.variants, v.fields ≠ .unit) → ∀ x, expand t d ≠ .ok x) ∧
    ((∃ v ∈ d.variants, ∃ e, v.disc = some e ∧ ¬ e.InDomain) → ∀ x, expand t d ≠ .ok x) ∧
    (reprAttrs d.attrs = [] → ∀ x, expand t d ≠ .ok x) ∧
    (2 ≤ (reprAttrs d.attrs).length → ∀ x, expand t d ≠ .ok x) ∧
    (.other ∈ reprAttrs d.attrs → ∀ x, expand t d ≠ .ok x) ∧
    (65535 ≤ d.variants.length → ∀ x, expand t d ≠ .ok x) := by
  refine ⟨fun hk x hx => hk (C12_accept_implies_domain t d x hx).isEnum, fun hv x hx => ?_, fun ⟨v, hv, hf⟩ x hx => ?_,
    fun ⟨v, hv, e, he, hd⟩ x hx => ?_, fun hr x hx => ?_, fun hr x hx => ?_, fun hr x hx => ?_, fun hn x hx => ?_⟩
  · obtain ⟨l, hl, hne, _⟩ := (C12_accept_implies_domain t d x hx).discs
    rw [hv] at hl; simp [rustcDiscs] at hl; exact hne hl
  · exact hf ((C12_accept_implies_domain t d x hx).forms v hv).1
  · exact hd (((C12_accept_implies_domain t d x hx).forms v hv).2.2 e he)
  · obtain ⟨r, hr', _⟩ := (C12_accept_implies_domain t d x hx).oneRepr; rw [hr] at hr'; cases hr'
  · obtain ⟨r, hr', _⟩ := (C12_accept_implies_domain t d x hx).oneRepr; rw [hr'] at hr; simp at hr
  · obtain ⟨r, hr', _⟩ := (C12_accept_implies_domain t d x hx).oneRepr; rw [hr'] at hr; simp at hr
  · obtain ⟨l, _, _, hlen, hll, _⟩ := (C12_accept_implies_domain t d x hx).discs
    omega

/-- the classification is not vacuous: `other` (any non-literal expression), a parenthesised or doubly negated
literal, a literal above i64::MAX are all outside the domain -/
example : ¬ DiscExpr.other.InDomain ∧ ¬ (DiscExpr.neg true (.neg true (.intLit 1))).InDomain ∧
    ¬ (DiscExpr.intLit 9223372036854775808).InDomain ∧ (DiscExpr.neg true (.intLit 9223372036854775808)).InDomain := by
  refine ⟨by simp [DiscExpr.InDomain], by simp [DiscExpr.InDomain], by simp [DiscExpr.InDomain, i64Max], by simp [DiscExpr.InDomain, i64Min]⟩

/-- exactly the twelve primitive reprs pass the repr table written in `parser/mod.rs` on this run -/
theorem C12_repr_table_source (t : Target) :
    (ET.Generated.reprArms.all (armAgrees t)) = true
    ∧ (∀ r, (reprTable t r).isSome ↔ r ∈ ET.Generated.reprArms.map (·.1)) := repr_table_source t

end ET.Thm
