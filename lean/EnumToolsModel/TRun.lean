/-
Running the translated templates (`Generated/Templates.lean`) as an iterator: the adapter between
the translated `next_and_back` methods and the operation vocabulary of `Iter.lean`.  `nth`,
`nth_back` and the consuming operations are `core`'s defaults, written over the translated
`next` / `next_back` methods.
-/
import EnumToolsModel.Generated.Templates
namespace ET.T
open ET

variable (D : Derive) (tg : Target) (md : Modes)

def nthT : Nat → Option Int → Option Int → Nat → Res (Option Int × IterState Int)
  | 0, fwd, bwd, len => iter_Iterator_next D tg md fwd bwd len
  | k + 1, fwd, bwd, len =>
    (iter_Iterator_next D tg md fwd bwd len).bind fun (r, s) =>
      match r, s with
      | some _, .nb fwd' bwd' len' => nthT k fwd' bwd' len'
      | _, s => .ok (none, s)

def nthBackT : Nat → Option Int → Option Int → Nat → Res (Option Int × IterState Int)
  | 0, fwd, bwd, len => iter_DoubleEnded_next_back D tg md fwd bwd len
  | k + 1, fwd, bwd, len =>
    (iter_DoubleEnded_next_back D tg md fwd bwd len).bind fun (r, s) =>
      match r, s with
      | some _, .nb fwd' bwd' len' => nthBackT k fwd' bwd' len'
      | _, s => .ok (none, s)

/-- one operation on an iterator built by the translated `iter()` / `range()` -/
def stepT : IterState Int → Op → Res (IterState Int × Out Int)
  | .cursor l, op => let (l', o) := Cursor.step l op; .ok (.cursor l', o)
  | .nb fwd bwd len, .next => (iter_Iterator_next D tg md fwd bwd len).bind fun (r, s) => .ok (s, .item r)
  | .nb fwd bwd len, .nextBack => (iter_DoubleEnded_next_back D tg md fwd bwd len).bind fun (r, s) => .ok (s, .item r)
  | .nb fwd bwd len, .nth k => (nthT D tg md k fwd bwd len).bind fun (r, s) => .ok (s, .item r)
  | .nb fwd bwd len, .nthBack k => (nthBackT D tg md k fwd bwd len).bind fun (r, s) => .ok (s, .item r)
  | .nb fwd bwd len, .len => (iter_ExactSize_len D tg md fwd bwd len).bind fun n => .ok (.nb fwd bwd len, .len n.toNat)
  | .nb fwd bwd len, .sizeHint =>
    (iter_Iterator_size_hint D tg md fwd bwd len).bind fun (lo, hi) => .ok (.nb fwd bwd len, .hint lo.toNat (hi.map Int.toNat))

/-- `while let Some(x) = self.next() { … }` -/
def drainT : Nat → IterState Int → Res (List Int)
  | _, .cursor l => .ok l
  | 0, _ => .ok []
  | fuel + 1, .nb fwd bwd len =>
    (iter_Iterator_next D tg md fwd bwd len).bind fun (r, s) =>
      match r with
      | some x => (drainT fuel s).bind fun rest => .ok (x :: rest)
      | none => .ok []

def drainBackT : Nat → IterState Int → Res (List Int)
  | _, .cursor l => .ok l.reverse
  | 0, _ => .ok []
  | fuel + 1, .nb fwd bwd len =>
    (iter_DoubleEnded_next_back D tg md fwd bwd len).bind fun (r, s) =>
      match r with
      | some x => (drainBackT fuel s).bind fun rest => .ok (x :: rest)
      | none => .ok []

def fuelOf : IterState Int → Nat
  | .cursor l => l.length + 1
  | .nb _ _ len => len + 1

def finishT (s : IterState Int) : Fin → Res (OutF Int)
  | .fold => (drainT D tg md (fuelOf s) s).bind fun l => .ok (.list l)
  | .collect => (drainT D tg md (fuelOf s) s).bind fun l => .ok (.list l)
  | .last => (drainT D tg md (fuelOf s) s).bind fun l => .ok (.item l.getLast?)
  | .count => (drainT D tg md (fuelOf s) s).bind fun l => .ok (.count l.length)
  | .rfold => (drainBackT D tg md (fuelOf s) s).bind fun l => .ok (.list l)
  | .revCollect => (drainBackT D tg md (fuelOf s) s).bind fun l => .ok (.list l)

def runT : IterState Int → List Op → Res (IterState Int × List (Out Int))
  | s, [] => .ok (s, [])
  | s, op :: ops =>
    (stepT D tg md s op).bind fun (s', o) =>
      (runT s' ops).bind fun (s'', os) => .ok (s'', o :: os)

end ET.T
