/-
The whole macro-time program: `Derive::parse` followed by `Features::resolve`.
`expand` returns either the list of errors (the derive fails to compile) or the data every
generated item is instantiated with.
-/
import EnumToolsModel.Generated.Catalog
import EnumToolsModel.Generated.Resolve
namespace ET

/-- the data the generated code is instantiated with -/
structure Expansion where
  D : Derive
  flags : Flags
  modes : Modes
  items : List (Flag × ItemCfg)
  sorted : Sorted
deriving Repr, Inhabited

/-- `Features::resolve`: enable, auto, enable; `abort!`s are evaluated in both enable passes -/
def resolveWith (rules : List Rule) (aborts : List AbortRule)
    (auto : Shape → Flags → Modes → Flags × Modes)
    (sh : Shape) (fl : Flags) (m : Modes) : Except Err (Flags × Modes) :=
  match aborts.find? (abortFires m sh.gapless fl) with
  | some a => .error a.err
  | none =>
    let fl1 := runRules rules m sh.gapless fl
    let (fl1, m1) := auto sh fl1 m
    match aborts.find? (abortFires m1 sh.gapless fl1) with
    | some a => .error a.err
    | none => .ok (runRules rules m1 sh.gapless fl1, m1)

def resolve := resolveWith Generated.rules Generated.aborts Generated.resolveAuto

/-- the second half of `Derive::parse` (the `Features { … }` literal, `feature_parser.finish()`) and
`Features::resolve`, for an already parsed enum -/
def configStage (D : Derive) (sorted : Sorted) (fm : FeatureMap) (errs : List Err) : Except (List Err) Expansion :=
  let pf := parseFeatures Generated.catalog {} fm errs
  let errs := pf.2.2 ++ pf.2.1.map (fun _ => Err.unknownFeature)
  let sh : Shape := { gapless := D.gapless, numValues := D.numValues, sizeGuess := D.sizeGuess }
  match resolve sh pf.1.flags pf.1.modes with
  | .error e => .error (errs ++ [e])
  | .ok (fl, m) =>
    if errs.isEmpty then .ok { D := D, flags := fl, modes := m, items := pf.1.items, sorted := sorted }
    else .error errs

/-- `Derive::parse` + `Features::resolve`.  `π` is the order in which the `HashMap` of
`parse_values` yields its entries (any permutation; `id` in the executable). -/
def expandWith (π : List (Int × (Name × Name)) → List (Int × (Name × Name)))
    (t : Target) (d : Decl) : Except (List Err) Expansion :=
  match parseAttrs {} d.attrs with
  | .error e => .error [e]
  | .ok a =>
    match a.repr with
    | none => .error [.missingRepr]
    | some rname =>
      match reprTable t rname with
      | none => .error [.unsupportedRepr]
      | some (repr, sizeGuess, ubits) =>
        let (sorted, fm, e1) := parseSorted a.fm
        let errs := a.errs ++ e1
        if d.kind ≠ .enum then .error (errs ++ [.noEnum]) else
        match pvLoop sorted { errs := errs } d.variants with
        | none => .error (errs ++ [.metaParse])
        | some pv =>
          let values := sortByKey (π pv.values)
          if values.isEmpty then .error (pv.errs ++ [.noVariants]) else
          if values.length ≥ 65535 then .error (pv.errs ++ [.tooMany]) else
          let ranges := computeRanges (values.map (·.1))
          let D : Derive := { repr := repr, reprName := rname, sizeGuess := sizeGuess, ubits := ubits,
                              values := values, ranges := ranges }
          configStage D sorted fm pv.errs

def expand := expandWith id

end ET
