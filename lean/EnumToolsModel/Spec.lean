/-
The specification.  It mentions neither repr, nor declaration order, nor mode: an enum *is* a
list of `(discriminant, name)` pairs in ascending discriminant order, and every derived item is a
two-line function of that list.
-/
import EnumToolsModel.Iter
namespace ET

structure EnumSem where
  /-- strictly ascending by discriminant -/
  items : List (Int × Name)
deriving Repr, DecidableEq, Inhabited

namespace EnumSem
def discs (E : EnumSem) : List Int := E.items.map (·.1)
def names (E : EnumSem) : List Name := E.items.map (·.2)
end EnumSem

namespace spec
def tryFrom (E : EnumSem) (n : Int) : Option Int := if n ∈ E.discs then some n else none
def into (_ : EnumSem) (v : Int) : Int := v
def next (E : EnumSem) (v : Int) : Option Int := E.discs.find? (fun y => decide (v < y))
def nextBack (E : EnumSem) (v : Int) : Option Int := E.discs.reverse.find? (fun y => decide (y < v))
def min (E : EnumSem) : Option Int := E.discs.head?
def max (E : EnumSem) : Option Int := E.discs.getLast?
def asStr (E : EnumSem) (v : Int) : Option Name := (E.items.find? (·.1 = v)).map (·.2)
/-- the variant with the lowest discriminant among those named `s` -/
def fromStr (E : EnumSem) (s : Name) : Option Int := (E.items.find? (·.2 = s)).map (·.1)
def iter (E : EnumSem) : List Int := E.discs
def range (E : EnumSem) (a b : Int) : List Int := E.discs.filter (fun v => decide (a ≤ v) && decide (v ≤ b))
def names (E : EnumSem) : List Name := E.names
end spec

/-! ### what an enum declaration means (the language's rule, independent of the derive) -/

/-- the value of a discriminant expression of the supported forms -/
def DiscExpr.value? : DiscExpr → Option Int
  | .intLit n => some n
  | .neg true (.intLit n) => some (-(n : Int))
  | _ => none

/-- the name of a variant: the last `rename`, else the identifier -/
def Variant.name (v : Variant) : Name :=
  v.attrs.foldl (fun acc a => match a with | .rename s => s | _ => acc) v.ident

/-- rustc's discriminant assignment: explicit value, else previous + 1, first 0 -/
def rustcDiscs : Int → List Variant → Option (List (Int × Name))
  | _, [] => some []
  | nxt, v :: rest =>
    match v.disc with
    | none => (rustcDiscs (nxt + 1) rest).map (fun l => (nxt, v.name) :: l)
    | some e => match e.value? with
      | none => none
      | some d => (rustcDiscs (d + 1) rest).map (fun l => (d, v.name) :: l)

def insertByDisc (x : Int × Name) : List (Int × Name) → List (Int × Name)
  | [] => [x]
  | y :: ys => if x.1 ≤ y.1 then x :: y :: ys else y :: insertByDisc x ys

def sortByDisc (l : List (Int × Name)) : List (Int × Name) := l.foldr insertByDisc []

/-- the meaning of a declaration, when its discriminants are of the supported forms -/
def Decl.sem (d : Decl) : Option EnumSem := (rustcDiscs 0 d.variants).map (fun l => ⟨sortByDisc l⟩)

end ET
