/-
The generated program: one definition per `quote!` branch of `src/feature/**`, written to mirror
the Rust control flow (loops with early return, unchecked unwraps, wrapping arithmetic, casts),
over the tables the macro computes.  An enum value is represented by its discriminant.
-/
import EnumToolsModel.Config
namespace ET

/-! ### tables (`table_range.rs`, `table_name.rs`, `table_enum.rs`, `min_const.rs`, `max_const.rs`) -/

/-- the value of the literal `{n}{repr}` as rustc evaluates it inside derive output -/
def lit (r : Prim) (n : Int) : Int := r.wrap n

/-- entry of `__RANGES`: `(start ..= end, (start).wrapping_sub(offset))` -/
structure RangeEntry where
  start : Int
  stop : Int
  ofs : Int
deriving Repr, DecidableEq, Inhabited

def RangeEntry.contains (r : RangeEntry) (x : Int) : Bool := decide (r.start ≤ x) && decide (x ≤ r.stop)

/-- `table_range.rs:28-41`: the running `ofs` counts the variants before each run -/
def tableRangeGo (p : Prim) : Int → List (Int × Int) → List RangeEntry
  | _, [] => []
  | ofs, (b, e) :: rest =>
    { start := lit p b, stop := lit p e, ofs := p.wrap (lit p b - lit p ofs) } :: tableRangeGo p (ofs + (e - b + 1)) rest

def tableRange (D : Derive) : List RangeEntry := tableRangeGo D.repr 0 D.ranges
def tableName (D : Derive) : List Name := D.names
def tableEnum (D : Derive) : List Int := D.vals
/-- `Self::MIN as repr` -/
def minC (D : Derive) : Int := D.minKey
/-- `Self::MAX as repr` -/
def maxC (D : Derive) : Int := D.maxKey

/-- `transmute::<repr, Enum>(n)` is defined exactly when `n` is a declared discriminant -/
def transmute (D : Derive) (n : Int) : Res Int :=
  if n ∈ D.vals then .ok n else .ub .transmuteInvalid

/-- `x as repr_unsigned as usize`, as an index -/
def toIndex (D : Derive) (t : Target) (x : Int) : Nat :=
  ((asUnsigned D.ubits x) % (2 : Int) ^ t.ptrBits).toNat

/-- `TABLE[i]` -/
def index {α} (tbl : List α) (i : Nat) : Res α :=
  match tbl[i]? with
  | some a => .ok a
  | none => .panic .indexOOB

/-! ### into / Into -/

def intoFn (_ : Derive) (v : Int) : Int := v
def intoTrait (_ : Derive) (v : Int) : Int := v

/-! ### try_from / TryFrom (`try_from_fn.rs`, `try_from_trait.rs`) -/

def tryFromGapless (D : Derive) (value : Int) : Res (Option Int) :=
  if value ≥ minC D ∧ value ≤ maxC D then (transmute D value).bind (fun e => .ok (some e)) else .ok none

def tryFromScan (D : Derive) (value : Int) : List RangeEntry → Res (Option Int)
  | [] => .ok none
  | r :: rest =>
    if r.contains value then (transmute D value).bind (fun e => .ok (some e)) else tryFromScan D value rest

def tryFromHoles (D : Derive) (value : Int) : Res (Option Int) :=
  if value ≥ minC D ∧ value ≤ maxC D then tryFromScan D value (tableRange D) else .ok none

def tryFromFn (D : Derive) (value : Int) : Res (Option Int) :=
  if D.gapless then tryFromGapless D value else tryFromHoles D value

/-- the trait has its own copy of both bodies (`Result<Self, ()>` rendered as `Option`) -/
def tryFromTraitGapless (D : Derive) (value : Int) : Res (Option Int) :=
  if value ≥ minC D ∧ value ≤ maxC D then (transmute D value).bind (fun e => .ok (some e)) else .ok none

def tryFromTraitScan (D : Derive) (value : Int) : List RangeEntry → Res (Option Int)
  | [] => .ok none
  | r :: rest =>
    if r.contains value then (transmute D value).bind (fun e => .ok (some e)) else tryFromTraitScan D value rest

def tryFromTraitHoles (D : Derive) (value : Int) : Res (Option Int) :=
  if value ≥ minC D ∧ value ≤ maxC D then tryFromTraitScan D value (tableRange D) else .ok none

def tryFromTrait (D : Derive) (value : Int) : Res (Option Int) :=
  if D.gapless then tryFromTraitGapless D value else tryFromTraitHoles D value

/-! ### next / next_back (`next_fn.rs`, `next_back_fn.rs`) -/

def nextGapless (D : Derive) (v : Int) : Res (Option Int) :=
  if v = maxC D then .ok none
  else if v + 1 > D.repr.hi then .panic .arithOverflow
  else (transmute D (v + 1)).bind (fun e => .ok (some e))

/-- `loop { let r = it.next().unwrap_unchecked(); if r.0.contains(&current) {…} }` -/
def nextLoop (D : Derive) (current : Int) : List RangeEntry → Res (Option Int)
  | [] => .ub .unwrapUncheckedNone
  | r :: rest =>
    if r.contains current then
      let c' := D.repr.wrap (current + 1)
      if r.contains c' then (transmute D c').bind (fun e => .ok (some e))
      else match rest with
        | [] => .ok none
        | r2 :: _ => (transmute D r2.start).bind (fun e => .ok (some e))
    else nextLoop D current rest

def nextHoles (D : Derive) (v : Int) : Res (Option Int) := nextLoop D v (tableRange D)

def nextFn (D : Derive) (v : Int) : Res (Option Int) :=
  if D.gapless then nextGapless D v else nextHoles D v

def nextBackGapless (D : Derive) (v : Int) : Res (Option Int) :=
  if v = minC D then .ok none
  else if v - 1 < D.repr.lo then .panic .arithOverflow
  else (transmute D (v - 1)).bind (fun e => .ok (some e))

/-- the same loop driven by `next_back()` over the table: runs are visited last to first -/
def nextBackLoop (D : Derive) (current : Int) : List RangeEntry → Res (Option Int)
  | [] => .ub .unwrapUncheckedNone
  | r :: rest =>
    if r.contains current then
      let c' := D.repr.wrap (current - 1)
      if r.contains c' then (transmute D c').bind (fun e => .ok (some e))
      else match rest with
        | [] => .ok none
        | r2 :: _ => (transmute D r2.stop).bind (fun e => .ok (some e))
    else nextBackLoop D current rest

def nextBackHoles (D : Derive) (v : Int) : Res (Option Int) := nextBackLoop D v (tableRange D).reverse

def nextBackFn (D : Derive) (v : Int) : Res (Option Int) :=
  if D.gapless then nextBackGapless D v else nextBackHoles D v

/-! ### as_str (`as_str_fn.rs`), Display / Debug / IntoStr -/

/-- `match self { E::A => "a", … }` -/
def asStrMatch (D : Derive) (v : Int) : Res Name :=
  match D.values.find? (·.1 = v) with
  | some (_, (_, name)) => .ok name
  | none => .ub .invalidEnumValue

def asStrTableGapless (D : Derive) (t : Target) (v : Int) : Res Name :=
  index (tableName D) (toIndex D t (D.repr.wrap (v - minC D)))

def asStrTableHoles (D : Derive) (t : Target) (v : Int) : Res Name :=
  match (tableRange D).find? (·.contains v) with
  | none => .ub .unwrapUncheckedNone
  | some r => index (tableName D) (toIndex D t (D.repr.wrap (v - r.ofs)))

def asStr (D : Derive) (t : Target) (m : Mode3) (v : Int) : Res Name :=
  match m with
  | .table => if D.gapless then asStrTableGapless D t v else asStrTableHoles D t v
  | _ => asStrMatch D v

/-! ### from_str / FromStr (`from_str_fn.rs`, `from_str_trait.rs`) -/

/-- `match s { "a" => Some(E::A), …, _ => None }`: the first arm whose literal equals `s` -/
def fromStrMatch (D : Derive) (s : Name) : Res (Option Int) :=
  match D.values.find? (·.2.2 = s) with
  | some (d, _) => .ok (some d)
  | none => .ok none

/-- `for (i, n) in __NAME.iter().enumerate() { if s == *n { return Some(transmute((i as repr).wrapping_add(MIN))) } }` -/
def fromStrTableGaplessLoop (D : Derive) (s : Name) : Nat → List Name → Res (Option Int)
  | _, [] => .ok none
  | i, n :: rest =>
    if s = n then (transmute D (D.repr.wrap (D.repr.wrap (i : Int) + minC D))).bind (fun e => .ok (some e))
    else fromStrTableGaplessLoop D s (i + 1) rest

def fromStrTableGapless (D : Derive) (s : Name) : Res (Option Int) :=
  fromStrTableGaplessLoop D s 0 (tableName D)

/-- `for (e, n) in __ENUM.iter().zip(__NAME.iter()) { if s == *n { return Some(*e) } }` -/
def fromStrTableHolesLoop (s : Name) : List (Int × Name) → Res (Option Int)
  | [] => .ok none
  | (e, n) :: rest => if s = n then .ok (some e) else fromStrTableHolesLoop s rest

def fromStrTableHoles (D : Derive) (s : Name) : Res (Option Int) :=
  fromStrTableHolesLoop s ((tableEnum D).zip (tableName D))

def fromStr (D : Derive) (m : Mode3) (s : Name) : Res (Option Int) :=
  match m with
  | .table => if D.gapless then fromStrTableGapless D s else fromStrTableHoles D s
  | _ => fromStrMatch D s

/-! ### iterator states -/

/-- the state of a generated iterator struct -/
inductive IterState (α : Type) where
  /-- forwarding modes: `inner` is a std iterator over this list -/
  | cursor (l : List α)
  /-- `next_and_back` -/
  | nb (fwd bwd : Option α) (len : Nat)
deriving Repr, DecidableEq, Inhabited

/-- `(a..=b).map(|x| transmute(x))`: every element the iterator can yield goes through `transmute` -/
def mapTransmute (D : Derive) : List Int → Res (List Int)
  | [] => .ok []
  | x :: rest => (transmute D x).bind (fun e => (mapTransmute D rest).bind (fun es => .ok (e :: es)))

/-! ### iter() (`iter/*.rs`) -/

def iterInit (D : Derive) (m : IterMode) : Res (IterState Int) :=
  match m with
  | .range => (mapTransmute D (interval (lit D.repr D.minKey) (lit D.repr D.maxKey))).bind (fun l => .ok (.cursor l))
  | .nextAndBack => .ok (.nb (some (minC D)) (some (maxC D)) D.numValues)
  | .table => .ok (.cursor (tableEnum D))
  | .tableInline => .ok (.cursor D.vals)
  | .auto => .ok (.cursor [])   -- unreachable after `resolve`

/-! ### names() (`names.rs`) -/

def namesInit (D : Derive) : IterState Name := .cursor (tableName D)

/-! ### range(a, b) (`range_fn.rs`) -/

/-- `TABLE[s..=e]` with std's panic conditions -/
def sliceIncl {α} (tbl : List α) (s e : Nat) : Res (List α) :=
  if s > e + 1 then .panic .sliceOrder
  else if e + 1 > tbl.length then .panic .indexOOB
  else .ok ((tbl.drop s).take (e + 1 - s))

def nbLen (s e : Nat) : Nat := if s > e then 0 else e - s + 1

/-- the `for r in __RANGES.iter()` loop with its two conditional `MaybeUninit::write`s -/
def rangeIdxLoop (D : Derive) (t : Target) (s e : Int) : List RangeEntry → Option Nat × Option Nat → Option Nat × Option Nat
  | [], acc => acc
  | r :: rest, (si, ei) =>
    let si := if r.contains s then some (toIndex D t (D.repr.wrap (s - r.ofs))) else si
    let ei := if r.contains e then some (toIndex D t (D.repr.wrap (e - r.ofs))) else ei
    rangeIdxLoop D t s e rest (si, ei)

def rangeIdx (D : Derive) (t : Target) (s e : Int) : Res (Nat × Nat) :=
  match rangeIdxLoop D t s e (tableRange D) (none, none) with
  | (some si, some ei) => .ok (si, ei)
  | _ => .ub .assumeInitUninit

/-- table mode: an empty slice when the start index is above the end index -/
def rangeSlice (D : Derive) (si ei : Nat) : Res (IterState Int) :=
  if si > ei then .ok (.cursor [])
  else (sliceIncl (tableEnum D) si ei).bind (fun l => .ok (.cursor l))

def rangeInit (D : Derive) (t : Target) (m : IterMode) (a b : Int) : Res (IterState Int) :=
  if D.gapless then
    match m with
    | .range => (mapTransmute D (interval a b)).bind (fun l => .ok (.cursor l))
    | .nextAndBack =>
      let si := toIndex D t (D.repr.wrap (a - minC D))
      let ei := toIndex D t (D.repr.wrap (b - minC D))
      .ok (.nb (some a) (some b) (nbLen si ei))
    | .table =>
      let si := toIndex D t (D.repr.wrap (a - minC D))
      let ei := toIndex D t (D.repr.wrap (b - minC D))
      rangeSlice D si ei
    | _ => .ok (.cursor [])   -- rejected by `resolve`
  else
    match m with
    | .nextAndBack => (rangeIdx D t a b).bind (fun (si, ei) => .ok (.nb (some a) (some b) (nbLen si ei)))
    | .table => (rangeIdx D t a b).bind (fun (si, ei) => rangeSlice D si ei)
    | _ => .ok (.cursor [])   -- rejected by `resolve`

end ET
