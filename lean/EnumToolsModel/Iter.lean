/-
Iterator operations.  `Cursor` is the specification: a double-ended exact-size fused iterator over
a list.  `IterState.step`/`finish` is the generated struct: forwarding modes delegate to a std
iterator (trusted to be a cursor over the list it was built from); `next_and_back` is the
hand-written three-field state machine of `iter/next_and_back.rs:62-99`, with `core`'s default
methods (`nth`, `nth_back`, `fold`, `rfold`, `last`, `count`, `collect`, `rev`) derived from
`next`/`next_back` the way `core` defines them.
-/
import EnumToolsModel.Gen
namespace ET

inductive Op where
  | next | nextBack | nth (k : Nat) | nthBack (k : Nat) | len | sizeHint
deriving Repr, DecidableEq, Inhabited

inductive Fin where
  | fold | rfold | last | count | collect | revCollect
deriving Repr, DecidableEq, Inhabited

inductive Out (α : Type) where
  | item (o : Option α)
  | len (n : Nat)
  | hint (lo : Nat) (hi : Option Nat)
deriving Repr, DecidableEq, Inhabited

inductive OutF (α : Type) where
  | list (l : List α)
  | item (o : Option α)
  | count (n : Nat)
deriving Repr, DecidableEq, Inhabited

/-! ### specification: cursor over a list -/
namespace Cursor

def step {α} (l : List α) : Op → List α × Out α
  | .next => (l.tail, .item l.head?)
  | .nextBack => (l.dropLast, .item l.getLast?)
  | .nth k => (l.drop (k + 1), .item (l.drop k).head?)
  | .nthBack k => ((l.reverse.drop (k + 1)).reverse, .item (l.reverse.drop k).head?)
  | .len => (l, .len l.length)
  | .sizeHint => (l, .hint l.length (some l.length))

def finish {α} (l : List α) : Fin → OutF α
  | .fold => .list l
  | .rfold => .list l.reverse
  | .last => .item l.getLast?
  | .count => .count l.length
  | .collect => .list l
  | .revCollect => .list l.reverse

def run {α} : List α → List Op → List α × List (Out α)
  | l, [] => (l, [])
  | l, op :: ops =>
    let (l', o) := step l op
    let (l'', os) := run l' ops
    (l'', o :: os)

end Cursor

/-! ### the `next_and_back` state machine -/
section NB
variable {α : Type} (nf bf : α → Res (Option α))

/-- `Iterator::next` of `next_and_back` (`iter/next_and_back.rs:62-72`) -/
def nbNext (fwd bwd : Option α) (len : Nat) : Res (Option α × IterState α) :=
  if len = 0 then .ok (none, .nb fwd bwd len)
  else
    (match fwd with
      | none => (.ok none : Res (Option α))
      | some x => nf x).bind fun fwd' => .ok (fwd, .nb fwd' bwd (len - 1))

/-- `DoubleEndedIterator::next_back` (`iter/next_and_back.rs:82-92`) -/
def nbNextBack (fwd bwd : Option α) (len : Nat) : Res (Option α × IterState α) :=
  if len = 0 then .ok (none, .nb fwd bwd len)
  else
    (match bwd with
      | none => (.ok none : Res (Option α))
      | some x => bf x).bind fun bwd' => .ok (bwd, .nb fwd bwd' (len - 1))

/-- `core`'s default `nth`: `advance_by(n)` by repeated `next`, stop at the first `None` -/
def nbNth : Nat → Option α → Option α → Nat → Res (Option α × IterState α)
  | 0, fwd, bwd, len => nbNext nf fwd bwd len
  | k + 1, fwd, bwd, len =>
    (nbNext nf fwd bwd len).bind fun (r, s) =>
      match r, s with
      | some _, .nb fwd' bwd' len' => nbNth k fwd' bwd' len'
      | _, s => .ok (none, s)

def nbNthBack : Nat → Option α → Option α → Nat → Res (Option α × IterState α)
  | 0, fwd, bwd, len => nbNextBack bf fwd bwd len
  | k + 1, fwd, bwd, len =>
    (nbNextBack bf fwd bwd len).bind fun (r, s) =>
      match r, s with
      | some _, .nb fwd' bwd' len' => nbNthBack k fwd' bwd' len'
      | _, s => .ok (none, s)

/-- `while let Some(x) = self.next() { … }`, collecting what is yielded -/
def nbDrain : Nat → Option α → Res (List α)
  | 0, _ => .ok []
  | _ + 1, none => .ok []
  | len + 1, some x => (nf x).bind fun fwd' => (nbDrain len fwd').bind fun rest => .ok (x :: rest)

/-- `while let Some(x) = self.next_back() { … }` -/
def nbDrainBack : Nat → Option α → Res (List α)
  | 0, _ => .ok []
  | _ + 1, none => .ok []
  | len + 1, some x => (bf x).bind fun bwd' => (nbDrainBack len bwd').bind fun rest => .ok (x :: rest)

end NB

/-- one operation on a generated iterator -/
def IterState.step {α} (nf bf : α → Res (Option α)) : IterState α → Op → Res (IterState α × Out α)
  | .cursor l, op => let (l', o) := Cursor.step l op; .ok (.cursor l', o)
  | .nb fwd bwd len, .next => (nbNext nf fwd bwd len).bind fun (r, s) => .ok (s, .item r)
  | .nb fwd bwd len, .nextBack => (nbNextBack bf fwd bwd len).bind fun (r, s) => .ok (s, .item r)
  | .nb fwd bwd len, .nth k => (nbNth nf k fwd bwd len).bind fun (r, s) => .ok (s, .item r)
  | .nb fwd bwd len, .nthBack k => (nbNthBack bf k fwd bwd len).bind fun (r, s) => .ok (s, .item r)
  | .nb fwd bwd len, .len => .ok (.nb fwd bwd len, .len len)
  | .nb fwd bwd len, .sizeHint => .ok (.nb fwd bwd len, .hint len (some len))

/-- a consuming operation -/
def IterState.finish {α} (nf bf : α → Res (Option α)) : IterState α → Fin → Res (OutF α)
  | .cursor l, f => .ok (Cursor.finish l f)
  | .nb fwd _ len, .fold => (nbDrain nf len fwd).bind fun l => .ok (.list l)
  | .nb fwd _ len, .collect => (nbDrain nf len fwd).bind fun l => .ok (.list l)
  | .nb fwd _ len, .last => (nbDrain nf len fwd).bind fun l => .ok (.item l.getLast?)
  | .nb fwd _ len, .count => (nbDrain nf len fwd).bind fun l => .ok (.count l.length)
  | .nb _ bwd len, .rfold => (nbDrainBack bf len bwd).bind fun l => .ok (.list l)
  | .nb _ bwd len, .revCollect => (nbDrainBack bf len bwd).bind fun l => .ok (.list l)

def IterState.run {α} (nf bf : α → Res (Option α)) : IterState α → List Op → Res (IterState α × List (Out α))
  | s, [] => .ok (s, [])
  | s, op :: ops =>
    (IterState.step nf bf s op).bind fun (s', o) =>
      (IterState.run nf bf s' ops).bind fun (s'', os) => .ok (s'', o :: os)

end ET
