/-
The line protocol shared by the two executables: `etmodel` (schema model `M=` and specification `S=`)
and `ettrans` (additionally `T=`, the outcome of the templates translated from /repo/src).
-/
import EnumToolsModel.Spec
import EnumToolsModel.Macro
namespace ET.Drv
open ET

def hexVal (c : Char) : Nat :=
  if '0' ≤ c ∧ c ≤ '9' then c.toNat - '0'.toNat
  else if 'a' ≤ c ∧ c ≤ 'f' then c.toNat - 'a'.toNat + 10 else 0

/-- `x4142` ↦ bytes -/
def unhex (s : String) : Name :=
  let cs := (s.drop 1).toString.toList
  let rec go : List Char → List UInt8
    | a :: b :: rest => UInt8.ofNat (hexVal a * 16 + hexVal b) :: go rest
    | _ => []
  go cs

def hexDigit (n : Nat) : Char := if n < 10 then Char.ofNat (48 + n) else Char.ofNat (87 + n)
def hex (n : Name) : String :=
  "x" ++ String.ofList (n.flatMap fun b => [hexDigit (b.toNat / 16), hexDigit (b.toNat % 16)])

def unhexStr (s : String) : String :=
  match String.fromUTF8? (ByteArray.mk (unhex s).toArray) with
  | some r => r
  | none => "?"

def pathOf (s : String) : PathShape := if s.startsWith "::" then .complex else .simple s

def parseDisc (s : String) : Option DiscExpr :=
  if s = "-" then none
  else if s = "other" then some .other
  else match s.splitOn ":" with
    | ["lit", n] => some (.intLit n.toNat!)
    | ["neg", n] => some (.neg true (.intLit n.toNat!))
    | ["negattr", n] => some (.neg false (.intLit n.toNat!))
    | ["negneg", n] => some (.neg true (.neg true (.intLit n.toNat!)))
    | ["negother"] => some (.neg true .other)
    | _ => some .other

structure Subj where
  id : String := ""
  ptrBits : Nat := 64
  kind : DataKind := .enum
  attrs : Array EAttr := #[]
  variants : Array Variant := #[]
deriving Inhabited

def showOptInt : Option Int → String
  | some v => s!"S{v}"
  | none => "N"

def showRes {α} (f : α → String) : Res α → String
  | .ok a => f a
  | .panic _ => "PANIC"
  | .ub _ => "UB"

def showOptName : Option Name → String
  | some n => hex n
  | none => "NONE"

def showOut {α} (f : α → String) : Out α → String
  | .item (some a) => s!"S{f a}"
  | .item none => "N"
  | .len n => s!"L{n}"
  | .hint lo (some hi) => s!"H{lo},{hi}"
  | .hint lo none => s!"H{lo},-"

def showOutF {α} (f : α → String) : OutF α → String
  | .list l => "[" ++ ",".intercalate (l.map f) ++ "]"
  | .item (some a) => s!"S{f a}"
  | .item none => "N"
  | .count n => s!"C{n}"

def parseOp (s : String) : Option Op :=
  if s = "n" then some .next
  else if s = "b" then some .nextBack
  else if s = "l" then some .len
  else if s = "h" then some .sizeHint
  else if s.startsWith "t" then some (.nth (s.drop 1).toString.toNat!)
  else if s.startsWith "u" then some (.nthBack (s.drop 1).toString.toNat!)
  else none

def parseFin (s : String) : Option Fin :=
  match s with
  | "fold" => some .fold | "rfold" => some .rfold | "last" => some .last
  | "count" => some .count | "collect" => some .collect | "rev" => some .revCollect
  | _ => none

/-- `min` / `max` are `core`'s provided methods: a fold over everything that is left.  They are run as `collect`
followed by picking the least / greatest element (the last one among equal maxima, the first among equal minima, as `core` does). -/
def parseFinPost (s : String) : Option (Fin × Option Bool) :=
  if s = "min" then some (.collect, some true)
  else if s = "max" then some (.collect, some false)
  else (parseFin s).map (·, none)

def pickMin {α} (lt : α → α → Bool) : List α → Option α
  | [] => none
  | x :: xs => some (xs.foldl (fun m y => if lt y m then y else m) x)

def pickMax {α} (lt : α → α → Bool) : List α → Option α
  | [] => none
  | x :: xs => some (xs.foldl (fun m y => if lt y m then m else y) x)

def postFin {α} (lt : α → α → Bool) (post : Option Bool) (o : OutF α) : OutF α :=
  match post, o with
  | some true, .list l => .item (pickMin lt l)
  | some false, .list l => .item (pickMax lt l)
  | _, o => o

/-- byte-wise lexicographic order of names (`str`'s `Ord`) -/
def nameLt : Name → Name → Bool
  | [], [] => false
  | [], _ :: _ => true
  | _ :: _, [] => false
  | a :: as, b :: bs => if a < b then true else if b < a then false else nameLt as bs

/-- run ops then the finisher on the model iterator and on the cursor spec -/
def runIter {α} [Inhabited α] (f : α → String) (lt : α → α → Bool) (nf bf : α → Res (Option α)) (init : Res (IterState α)) (specList : List α)
    (toks : List String) : String :=
  let (opToks, finToks) := toks.span (· ≠ ";")
  let ops := opToks.filterMap parseOp
  let finp := (finToks.drop 1).head?.bind parseFinPost
  let model : Res String := init.bind fun st =>
    (IterState.run nf bf st ops).bind fun (st', outs) =>
      match finp with
      | none => .ok (" ".intercalate (outs.map (showOut f)))
      | some (fn, post) => (IterState.finish nf bf st' fn).bind fun o =>
          .ok (" ".intercalate (outs.map (showOut f) ++ [showOutF f (postFin lt post o)]))
  let (l', souts) := Cursor.run specList ops
  let specS := " ".intercalate (souts.map (showOut f) ++ (match finp with | none => [] | some (fn, post) => [showOutF f (postFin lt post (Cursor.finish l' fn))]))
  s!"M={showRes id model} S={specS}"

def showFlag (f : Flag) : String := (reprStr f).replace "ET.Flag." ""

def showMode3 : Mode3 → String | .auto => "auto" | .match => "match" | .table => "table"
def showIterMode : IterMode → String
  | .auto => "auto" | .range => "range" | .nextAndBack => "next_and_back" | .table => "table" | .tableInline => "table_inline"
def showVis : Option Vis → String
  | none => "enum" | some .inherited => "inherited" | some .pubCrate => "pub(crate)" | some .pub => "pub"

def execOp (t : Target) (x : Expansion) (sem : Option EnumSem) (toks : List String) : String :=
  let D := x.D
  let E := sem.getD ⟨[]⟩
  let ms (m : String) (s : String) := s!"M={m} S={s}"
  match toks with
  | ["tf", v] => let v := v.toInt!; ms (showRes showOptInt (tryFromFn D v)) (showOptInt (spec.tryFrom E v))
  | ["tt", v] => let v := v.toInt!; ms (showRes showOptInt (tryFromTrait D v)) (showOptInt (spec.tryFrom E v))
  | ["into", v] => let v := v.toInt!; ms (toString (intoFn D v)) (toString (spec.into E v))
  | ["Into", v] => let v := v.toInt!; ms (toString (intoTrait D v)) (toString (spec.into E v))
  | ["next", v] => let v := v.toInt!; ms (showRes showOptInt (nextFn D v)) (showOptInt (spec.next E v))
  | ["nb", v] => let v := v.toInt!; ms (showRes showOptInt (nextBackFn D v)) (showOptInt (spec.nextBack E v))
  | ["min"] => ms (toString (minC D)) (showOptInt (spec.min E) |>.drop 1 |>.toString)
  | ["max"] => ms (toString (maxC D)) (showOptInt (spec.max E) |>.drop 1 |>.toString)
  | [k, v] =>
    if k = "as" ∨ k = "disp" ∨ k = "dbg" ∨ k = "istr" then
      let v := v.toInt!; ms (showRes hex (asStr D t x.modes.asStr v)) (showOptName (spec.asStr E v))
    else if k = "fs" then
      let s := unhex v; ms (showRes showOptInt (fromStr D x.modes.fromStrFn s)) (showOptInt (spec.fromStr E s))
    else if k = "ft" then
      let s := unhex v; ms (showRes showOptInt (fromStr D x.modes.fromStrTrait s)) (showOptInt (spec.fromStr E s))
    else "M=? S=?"
  | "iter" :: rest =>
    runIter (fun (v : Int) => toString v) (fun a b => decide (a < b)) (nextFn D) (nextBackFn D) (iterInit D x.modes.iter) (spec.iter E) rest
  | "range" :: a :: b :: rest =>
    let a := a.toInt!; let b := b.toInt!
    runIter (fun (v : Int) => toString v) (fun a b => decide (a < b)) (nextFn D) (nextBackFn D) (rangeInit D t x.modes.iter a b) (spec.range E a b) rest
  | "names" :: rest =>
    runIter hex nameLt (fun _ => .ok none) (fun _ => .ok none) (.ok (namesInit D)) (spec.names E) rest
  | ["tables"] =>
    let rs := if D.gapless then "gapless" else
      ";".intercalate ((tableRange D).map fun r => s!"{r.start}..{r.stop}@{r.ofs}")
    let flags := ",".intercalate ((Flag.all.filter x.flags.contains).map showFlag)
    let items := ";".intercalate (x.items.map fun (f, i) =>
      s!"{showFlag f}:{i.name}:{showVis i.vis}:{i.structName.getD "-"}")
    s!"M=ranges={rs} vals={D.vals} names={D.names.map hex} min={minC D} max={maxC D} ubits={D.ubits} " ++
      s!"modes={showMode3 x.modes.asStr},{showMode3 x.modes.fromStrFn},{showMode3 x.modes.fromStrTrait},{showIterMode x.modes.iter} " ++
      s!"flags={flags} items={items} S=-"
  | _ => "M=? S=?"

structure St where
  cur : Subj := {}
  inDecl : Bool := false
  pendingItems : Nat := 0
  items : Array CfgItem := #[]
  pendingParams : Nat := 0
  params : Array Param := #[]
  curItemName : String := ""
  pendingVAttrs : Nat := 0
  exp : Option (Except (List Err) Expansion) := none
  sem : Option EnumSem := none
deriving Inhabited

def flushItem (st : St) : St :=
  -- a `list` item whose params are complete
  if st.curItemName ≠ "" ∧ st.pendingParams = 0 then
    let it := CfgItem.list (pathOf st.curItemName) (some st.params.toList)
    let st := { st with items := st.items.push it, curItemName := "", params := #[] }
    st
  else st

def flushAttr (st : St) : St :=
  if st.pendingItems = 0 ∧ st.curItemName = "" ∧ st.inDecl then st else st

def showErr (e : Err) : String := (reprStr e).replace "ET.Err." ""

def step (extra : Target → Expansion → List String → Option String) (st : St) (line : String) : St × Option String :=
  let toks := (line.trimAscii.toString.splitOn " ").filter (· ≠ "")
  match toks with
  | ["DECL", id, kind, pb] =>
    let k := if kind = "struct" then DataKind.struct else if kind = "union" then .union else .enum
    ({ cur := { id := id, ptrBits := pb.toNat!, kind := k }, inDecl := true }, none)
  | ["ATTR", "repr", "ident", n] => ({ st with cur := { st.cur with attrs := st.cur.attrs.push (.repr (.ident n)) } }, none)
  | ["ATTR", "repr", "other"] => ({ st with cur := { st.cur with attrs := st.cur.attrs.push (.repr .other) } }, none)
  | ["ATTR", "foreign"] => ({ st with cur := { st.cur with attrs := st.cur.attrs.push .foreign } }, none)
  | ["ATTR", "et-notlist"] => ({ st with cur := { st.cur with attrs := st.cur.attrs.push .enumToolsNotList } }, none)
  | ["ATTR", "et-fail"] => ({ st with cur := { st.cur with attrs := st.cur.attrs.push (.enumTools none) } }, none)
  | ["ATTR", "et", k] =>
    let k := k.toNat!
    if k = 0 then ({ st with cur := { st.cur with attrs := st.cur.attrs.push (.enumTools (some [])) } }, none)
    else ({ st with pendingItems := k, items := #[] }, none)
  | "ITEM" :: rest =>
    let fin (st : St) (it : CfgItem) : St :=
      let items := st.items.push it
      if st.pendingItems = 1 then
        { st with pendingItems := 0, items := #[], cur := { st.cur with attrs := st.cur.attrs.push (.enumTools (some items.toList)) } }
      else { st with pendingItems := st.pendingItems - 1, items := items }
    (match rest with
    | ["path", n] => (fin st (.path (pathOf n)), none)
    | ["other"] => (fin st .other, none)
    | ["listfail", n] => (fin st (.list (pathOf n) none), none)
    | ["list", n, p] =>
      if p.toNat! = 0 then (fin st (.list (pathOf n) (some [])), none)
      else ({ st with curItemName := n, pendingParams := p.toNat!, params := #[] }, none)
    | _ => (st, some "bad-item"))
  | "PARAM" :: rest =>
    let p : Param := match rest with
      | ["flag", n] => .flag (pathOf n)
      | ["str", n, h] => .nameLit (pathOf n) (.str (unhexStr h))
      | ["nonstr", n] => .nameLit (pathOf n) .nonStr
      | _ => .other
    let params := st.params.push p
    if st.pendingParams = 1 then
      let it := CfgItem.list (pathOf st.curItemName) (some params.toList)
      let items := st.items.push it
      let st := { st with pendingParams := 0, params := #[], curItemName := "" }
      if st.pendingItems = 1 then
        ({ st with pendingItems := 0, items := #[], cur := { st.cur with attrs := st.cur.attrs.push (.enumTools (some items.toList)) } }, none)
      else ({ st with pendingItems := st.pendingItems - 1, items := items }, none)
    else ({ st with pendingParams := st.pendingParams - 1, params := params }, none)
  | ["VAR", ident, fields, disc, _n] =>
    let f := if fields = "n" then Fields.named else if fields = "t" then .unnamed else .unit
    let v : Variant := { ident := unhex ident, fields := f, disc := parseDisc disc, attrs := [] }
    ({ st with cur := { st.cur with variants := st.cur.variants.push v } }, none)
  | "VATTR" :: rest =>
    let a : VAttr := match rest with
      | ["rename", h] => .rename (unhex h)
      | ["bademit"] => .badEmit
      | ["badabort"] => .badAbort
      | _ => .foreign
    let vs := st.cur.variants
    let vs := if h : vs.size > 0 then
        let v := vs[vs.size - 1]
        vs.set (vs.size - 1) { v with attrs := v.attrs ++ [a] }
      else vs
    ({ st with cur := { st.cur with variants := vs } }, none)
  | ["END"] =>
    let d : Decl := { kind := st.cur.kind, attrs := st.cur.attrs.toList, variants := st.cur.variants.toList }
    let r := expand { ptrBits := st.cur.ptrBits } d
    let verdict := match r with
      | .ok _ => "accept"
      | .error es => "reject " ++ ",".intercalate (es.map showErr)
    ({ st with inDecl := false, exp := some r, sem := d.sem }, some s!"{st.cur.id} DECL {verdict}")
  | "OP" :: opid :: rest =>
    match st.exp with
    | some (.ok x) =>
      let tcol := match extra { ptrBits := st.cur.ptrBits } x rest with
        | some r => s!" T={r}"
        | none => ""
      (st, some s!"{st.cur.id} {opid} {execOp { ptrBits := st.cur.ptrBits } x st.sem rest}{tcol}")
    | _ => (st, some s!"{st.cur.id} {opid} M=REJECTED S=?")
  | [] => (st, none)
  | _ => (st, some s!"bad-line {line}")


partial def loop (extra : Target → Expansion → List String → Option String) (h : IO.FS.Stream) (out : IO.FS.Stream) (st : St) : IO Unit := do
  let line ← h.getLine
  if line.isEmpty then return ()
  let (st', o) := step extra st line
  match o with
  | some s => out.putStrLn s
  | none => pure ()
  loop extra h out st'

end ET.Drv
