/-
The macro-time program, part 2: the attribute engine (`parser/feature.rs`, `parser/params.rs`),
feature flags and modes, and the rule engine that interprets the dependency propagation.
The *data* (catalogue of features, propagation rules) lives in `Generated/*.lean`, which the
translator regenerates from `/repo/src` on every run.
-/
import EnumToolsModel.Parse
namespace ET

/-- every feature struct of `generator/features.rs`, plus the `with_offset` bit of `table_range` -/
inductive Flag where
  | asStr | debug | display | fromStrFn | fromStrTrait | intoFn | intoStr | intoTrait | iter
  | maxC | minC | names | nextBack | next | range | tableEnum | tableName | tableRange
  | tableRangeOfs | tryFromFn | tryFromTrait
deriving Repr, DecidableEq, Inhabited

def Flag.all : List Flag :=
  [.asStr, .debug, .display, .fromStrFn, .fromStrTrait, .intoFn, .intoStr, .intoTrait, .iter,
   .maxC, .minC, .names, .nextBack, .next, .range, .tableEnum, .tableName, .tableRange,
   .tableRangeOfs, .tryFromFn, .tryFromTrait]

inductive Mode3 | auto | «match» | table
deriving Repr, DecidableEq, Inhabited

inductive IterMode | auto | range | nextAndBack | table | tableInline
deriving Repr, DecidableEq, Inhabited

structure Modes where
  asStr : Mode3 := .auto
  fromStrFn : Mode3 := .auto
  fromStrTrait : Mode3 := .auto
  iter : IterMode := .auto
deriving Repr, DecidableEq, Inhabited

def Mode3.all : List Mode3 := [.auto, .match, .table]
def IterMode.all : List IterMode := [.auto, .range, .nextAndBack, .table, .tableInline]
def Modes.all : List Modes :=
  Mode3.all.flatMap fun a => Mode3.all.flatMap fun b => Mode3.all.flatMap fun c =>
    IterMode.all.map fun d => ⟨a, b, c, d⟩

/-- the enum's shape as far as the propagation is concerned -/
structure Shape where
  gapless : Bool
  numValues : Nat := 0
  sizeGuess : Nat := 0
deriving Repr, DecidableEq, Inhabited

/-- guard atoms over modes and shape (never over flags: that is checked by the translator) -/
inductive Atom where
  | gapless | holes
  | asStrIs (m : Mode3) | fromStrFnIs (m : Mode3) | fromStrTraitIs (m : Mode3)
  | iterIn (ms : List IterMode)
deriving Repr, DecidableEq, Inhabited

def Atom.eval (m : Modes) (gapless : Bool) : Atom → Bool
  | .gapless => gapless
  | .holes => !gapless
  | .asStrIs x => m.asStr == x
  | .fromStrFnIs x => m.fromStrFn == x
  | .fromStrTraitIs x => m.fromStrTrait == x
  | .iterIn xs => xs.contains m.iter

/-- "if `src` is enabled and the guard holds, enable `sets`" -/
structure Rule where
  src : Flag
  guard : List Atom
  sets : List Flag
deriving Repr, DecidableEq, Inhabited

/-- "if `src` is enabled, the guard holds and (when given) `unless` is not enabled: `abort!`" -/
structure AbortRule where
  src : Flag
  guard : List Atom
  unlessFlag : Option Flag
  err : Err
deriving Repr, DecidableEq, Inhabited

abbrev Flags := List Flag

def guardHolds (m : Modes) (gapless : Bool) (g : List Atom) : Bool := g.all (Atom.eval m gapless)

def applyRule (m : Modes) (gapless : Bool) (fl : Flags) (r : Rule) : Flags :=
  if fl.contains r.src && guardHolds m gapless r.guard then fl ++ r.sets.filter (fun f => !fl.contains f) else fl

def runRules (rules : List Rule) (m : Modes) (gapless : Bool) (fl : Flags) : Flags :=
  rules.foldl (applyRule m gapless) fl

def abortFires (m : Modes) (gapless : Bool) (fl : Flags) (a : AbortRule) : Bool :=
  fl.contains a.src && guardHolds m gapless a.guard &&
    (match a.unlessFlag with | none => true | some f => !fl.contains f)

/-! ### visibility / names -/

inductive Vis | inherited | pubCrate | pub
deriving Repr, DecidableEq, Inhabited

/-- what `parse` of one feature yields beyond `enabled` and `mode` -/
structure ItemCfg where
  /-- `none` = the enum's own visibility -/
  vis : Option Vis
  name : String
  structName : Option String := none
deriving Repr, DecidableEq, Inhabited

inductive ModeKind | none | m3 | iter
deriving Repr, DecidableEq, Inhabited

/-- one row of the catalogue: how `FeatureX::parse` treats its parameters -/
structure FeatSpec where
  key : String
  flag : Flag
  hasVisName : Bool
  hiddenName : String
  structKey : Option String
  modeKind : ModeKind
  /-- accepted mode strings, in the order of the `match` -/
  modes : List String
deriving Repr, DecidableEq, Inhabited

abbrev ParamMap := List (String × Option LitV)
abbrev FeatureMap := List (String × ParamMap)

def smapInsert {β} (k : String) (v : β) : List (String × β) → List (String × β) × Bool
  | [] => ([(k, v)], false)
  | (k', v') :: rest =>
    if k' = k then ((k, v) :: rest, true)
    else let (r, b) := smapInsert k v rest; ((k', v') :: r, b)

def smapRemove {β} (k : String) : List (String × β) → Option β × List (String × β)
  | [] => (none, [])
  | (k', v') :: rest =>
    if k' = k then (some v', rest)
    else let (r, l) := smapRemove k rest; (r, (k', v') :: l)

/-- the nested loop of `FeatureParser::parse` for one `feature(p, q = "..")`; `none` = abort -/
def parseParams : ParamMap → List Err → List Param → Option (ParamMap × List Err)
  | pm, errs, [] => some (pm, errs)
  | pm, errs, .flag (.simple n) :: rest =>
    let (pm, dup) := smapInsert n none pm
    parseParams pm (if dup then errs ++ [.duplicateParameter] else errs) rest
  | pm, errs, .nameLit (.simple n) l :: rest =>
    let (pm, dup) := smapInsert n (some l) pm
    parseParams pm (if dup then errs ++ [.duplicateParameter] else errs) rest
  | _, _, .flag .complex :: _ => none
  | _, _, .nameLit .complex _ :: _ => none
  | pm, errs, .other :: rest => parseParams pm (errs ++ [.unsupportedAttributeType]) rest

/-- `FeatureParser::parse` for the items of one attribute; `none` = abort -/
def parseItems : FeatureMap → List Err → List CfgItem → Option (FeatureMap × List Err)
  | fm, errs, [] => some (fm, errs)
  | fm, errs, .path (.simple n) :: rest =>
    let (fm, dup) := smapInsert n [] fm
    parseItems fm (if dup then errs ++ [.duplicateFeature] else errs) rest
  | _, _, .path .complex :: _ => none
  | _, _, .list _ none :: _ => none
  | _, _, .list .complex (some _) :: _ => none
  | fm, errs, .list (.simple n) (some ps) :: rest =>
    match parseParams [] errs ps with
    | none => none
    | some (pm, errs) =>
      let (fm, dup) := smapInsert n pm fm
      parseItems fm (if dup then errs ++ [.duplicateFeature] else errs) rest
  | fm, errs, .other :: rest => parseItems fm (errs ++ [.unsupportedAttributeType]) rest

/-- result of `parse_attrs` -/
structure AttrsOut where
  repr : Option String := none
  fm : FeatureMap := []
  errs : List Err := []
deriving Repr, Inhabited

/-- `parser/attr.rs`; `.error` = abort -/
def parseAttrs : AttrsOut → List EAttr → Except Err AttrsOut
  | st, [] => .ok st
  | st, .foreign :: rest => parseAttrs st rest
  | st, .repr a :: rest =>
    match st.repr with
    | some _ => .error .duplicateRepr
    | none => match a with
      | .ident s => parseAttrs { st with repr := some s } rest
      | .other => .error .metaParse
  | _, .enumTools none :: _ => .error .metaParse
  | st, .enumTools (some items) :: rest =>
    match parseItems st.fm st.errs items with
    | none => .error .unsupportedPath
    | some (fm, errs) => parseAttrs { st with fm := fm, errs := errs } rest
  | st, .enumToolsNotList :: rest => parseAttrs { st with errs := st.errs ++ [.unsupportedAttributeType] } rest

/-- `Params::get_vis_name`'s `vis` half -/
def getVis (pm : ParamMap) : Option Vis × ParamMap × List Err :=
  match smapRemove "vis" pm with
  | (none, pm) => (none, pm, [])
  | (some (some (.str "")), pm) => (some .inherited, pm, [])
  | (some (some (.str "pub(crate)")), pm) => (some .pubCrate, pm, [])
  | (some (some (.str "pub")), pm) => (some .pub, pm, [])
  | (some (some (.str _)), pm) => (none, pm, [.unsupportedVisibility])
  | (some _, pm) => (none, pm, [.expectedLiteral])

/-- `Params::get_str_opt` -/
def getStrOpt (key : String) (pm : ParamMap) : Option String × ParamMap × List Err :=
  match smapRemove key pm with
  | (none, pm) => (none, pm, [])
  | (some (some (.str s)), pm) => (some s, pm, [])
  | (some _, pm) => (none, pm, [.expectedLiteral])

/-- `Params::get_bool` -/
def getBool (key : String) (pm : ParamMap) : Bool × ParamMap × List Err :=
  match smapRemove key pm with
  | (none, pm) => (false, pm, [])
  | (some none, pm) => (true, pm, [])
  | (some (some _), pm) => (false, pm, [.unexpectedLiteral])

/-- what one `FeatureX::parse` returns -/
structure FeatOut where
  enabled : Bool
  item : ItemCfg
  /-- the mode string after defaulting (`"auto"`), when the feature has modes and it was valid -/
  mode : Option String := none
deriving Repr, DecidableEq, Inhabited

/-- `params.get_vis_name(key)` when the feature has a name and a visibility -/
def stepVisName (spec : FeatSpec) (pm : ParamMap) : Option Vis × String × ParamMap × List Err :=
  if spec.hasVisName then
    let r1 := getVis pm
    let r2 := getStrOpt "name" r1.2.1
    (r1.1, r2.1.getD spec.key, r2.2.1, r1.2.2 ++ r2.2.2)
  else (none, spec.key, pm, [])

/-- `params.get_str_opt("struct_name")` for the iterator features -/
def stepStruct (spec : FeatSpec) (pm : ParamMap) : Option String × ParamMap × List Err :=
  match spec.structKey with
  | some k => getStrOpt k pm
  | none => (none, pm, [])

/-- the `match params.get_str_opt("mode").unwrap_or("auto") { … _ => emit_error!("invalid mode") }` -/
def stepMode (spec : FeatSpec) (pm : ParamMap) : Option String × ParamMap × List Err :=
  match spec.modeKind with
  | .none => (none, pm, [])
  | _ =>
    let r := getStrOpt "mode" pm
    let m := r.1.getD "auto"
    if spec.modes.contains m then (some m, r.2.1, r.2.2) else (some "auto", r.2.1, r.2.2 ++ [Err.invalidMode])

/-- `params.finish(..)`: every parameter nobody asked for is an error -/
def finishParams (pm : ParamMap) : List Err := pm.map (fun _ => Err.unknownParameter)

/-- generic `FeatureX::parse` driven by its catalogue row -/
def parseFeature (spec : FeatSpec) (fm : FeatureMap) : FeatOut × FeatureMap × List Err :=
  match smapRemove spec.key fm with
  | (none, fm) =>
    ({ enabled := false, item := { vis := some .inherited, name := spec.hiddenName } }, fm, [])
  | (some pm, fm) =>
    let r1 := stepVisName spec pm
    let r2 := stepStruct spec r1.2.2.1
    let r3 := stepMode spec r2.2.1
    ({ enabled := true, item := { vis := r1.1, name := r1.2.1, structName := r2.1 }, mode := r3.1 },
      fm, r1.2.2.2 ++ r2.2.2 ++ r3.2.2 ++ finishParams r3.2.1)

/-- `FeatureSorted::parse` -/
def parseSorted (fm : FeatureMap) : Sorted × FeatureMap × List Err :=
  match smapRemove "sorted" fm with
  | (none, fm) => ({}, fm, [])
  | (some pm, fm) =>
    let (n, pm, e1) := getBool "name" pm
    let (v, pm, e2) := getBool "value" pm
    ({ name := n, value := v }, fm, e1 ++ e2 ++ pm.map (fun _ => Err.unknownParameter))

def mode3OfString : String → Mode3
  | "match" => .match
  | "table" => .table
  | _ => .auto

def iterModeOfString : String → IterMode
  | "range" => .range
  | "next_and_back" => .nextAndBack
  | "table" => .table
  | "table_inline" => .tableInline
  | _ => .auto

/-- everything `Features { … }` holds after parsing (before `resolve`) -/
structure Features where
  flags : Flags := []
  modes : Modes := {}
  items : List (Flag × ItemCfg) := []
deriving Repr, Inhabited

def Features.item (f : Features) (fl : Flag) : ItemCfg :=
  match f.items.find? (·.1 = fl) with
  | some (_, i) => i
  | none => { vis := some .inherited, name := "?" }

/-- `Features { as_str_fn: FeatureAsStrFn::parse(..), … }` in catalogue order -/
def parseFeatures : List FeatSpec → Features → FeatureMap → List Err → Features × FeatureMap × List Err
  | [], fs, fm, errs => (fs, fm, errs)
  | spec :: rest, fs, fm, errs =>
    let (o, fm, e) := parseFeature spec fm
    let modes := match spec.flag, o.mode with
      | .asStr, some m => { fs.modes with asStr := mode3OfString m }
      | .fromStrFn, some m => { fs.modes with fromStrFn := mode3OfString m }
      | .fromStrTrait, some m => { fs.modes with fromStrTrait := mode3OfString m }
      | .iter, some m => { fs.modes with iter := iterModeOfString m }
      | _, _ => fs.modes
    parseFeatures rest
      { flags := if o.enabled then fs.flags ++ [spec.flag] else fs.flags,
        modes := modes, items := fs.items ++ [(spec.flag, o.item)] } fm (errs ++ e)

end ET
