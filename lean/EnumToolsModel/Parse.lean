/-
The macro-time program, part 1: `parser/values.rs`, `parser/mod.rs` (repr table, limit, run table).
Mirrors the Rust statement by statement; `i64` arithmetic is explicit.
-/
import EnumToolsModel.Decl
namespace ET

def i64Min : Int := -9223372036854775808
def i64Max : Int := 9223372036854775807
def wrapI64 (x : Int) : Int := Int.bmod x (2 ^ 64)

inductive Err where
  | duplicateFeature | duplicateParameter | duplicateRepr | duplicateValue | expectedLiteral
  | notNameSorted | notValueSorted | i64Overflow | metaParse | missingRepr | noEnum | noI64
  | noVariants | notInteger | onlyUnitField | unexpectedLiteral | unknownFeature | unknownParameter
  | unsupportedAttributeType | unsupportedPath | unsupportedVisibility | unsupportedRepr | tooMany
  | invalidMode | rangeNeedsIter | rangeTableInline | iterRangeHoles
deriving Repr, DecidableEq, Inhabited

structure Sorted where
  name : Bool := false
  value : Bool := false
deriving Repr, DecidableEq, Inhabited

/-- `HashMap::insert` on an association list: replaces an existing key in place, reports whether it existed. -/
def assocInsert {β} (k : Int) (v : β) : List (Int × β) → List (Int × β) × Bool
  | [] => ([(k, v)], false)
  | (k', v') :: rest =>
    if k' = k then ((k, v) :: rest, true)
    else let (r, b) := assocInsert k v rest; ((k', v') :: r, b)

/-- state threaded through the `for mut v in data.variants` loop of `parse_values` -/
structure PV where
  values : List (Int × (Name × Name)) := []
  last : Int := -1
  lastName : Option Name := none
  errs : List Err := []
deriving Repr, Inhabited

/-- `for a in v.attrs { … }` : the rename processing; `none` = `abort!`.  Returns the name and the errors emitted. -/
def processAttrs : Name → List Err → List VAttr → Option (Name × List Err)
  | name, errs, [] => some (name, errs)
  | name, errs, .foreign :: rest => processAttrs name errs rest
  | _, errs, .rename s :: rest => processAttrs s errs rest
  | name, errs, .badEmit :: rest => processAttrs name (errs ++ [.unsupportedAttributeType]) rest
  | _, _, .badAbort :: _ => none

/-- `if !matches!(v.fields, Fields::Unit) { emit_error!(…) }` -/
def fieldErrs (v : Variant) : List Err := if v.fields ≠ .unit then [.onlyUnitField] else []

/-- the `sorted.name` check (`values.rs:54-61`): errors, and the new `last_name` -/
def nameSortErrs (sorted : Sorted) (lastName : Option Name) (name : Name) : List Err :=
  if sorted.name then
    (match lastName with
      | some ln => if ¬ (ln < name) then [.notNameSorted] else []
      | none => [])
  else []

def nextLastName (sorted : Sorted) (lastName : Option Name) (name : Name) : Option Name :=
  if sorted.name then some name else lastName

/-- how the code reads an explicit discriminant (`values.rs:62-95`): peel one unary minus without
attributes, require an integer literal, parse the digits as i128, negate, range-check against i64 -/
def readDisc (d : DiscExpr) : Except Err Int :=
  let (negate, num) := match d with
    | .neg true e => (true, e)
    | e => (false, e)
  match num with
  | .intLit n =>
    let i : Int := if negate then -(n : Int) else n
    if i64Min ≤ i ∧ i ≤ i64Max then .ok i else .error .noI64
  | _ => .error .notInteger

/-- `values.insert(i, (ident, name))` with the duplicate check, and `last = i` -/
def insertValue (st : PV) (errs : List Err) (lastName : Option Name) (i : Int) (ident name : Name) : PV :=
  let (vals, dup) := assocInsert i (ident, name) st.values
  { values := vals, last := i, lastName := lastName, errs := if dup then errs ++ [.duplicateValue] else errs }

/-- the `sorted.value` check of an explicit discriminant -/
def valueSortErrs (sorted : Sorted) (st : PV) (i : Int) : List Err :=
  if sorted.value ∧ ¬ st.values.isEmpty ∧ i < st.last then [.notValueSorted] else []

/-- one iteration of the loop body (`values.rs:20-104`); `none` = `abort!` -/
def pvStep (sorted : Sorted) (st : PV) (v : Variant) : Option PV :=
  match processAttrs v.ident [] v.attrs with
  | none => none
  | some (name, aerrs) =>
    let errs := st.errs ++ fieldErrs v ++ aerrs ++ nameSortErrs sorted st.lastName name
    let lastName := nextLastName sorted st.lastName name
    match v.disc with
    | some d =>
      match readDisc d with
      | .ok i => some (insertValue st (errs ++ valueSortErrs sorted st i) lastName i v.ident name)
      | .error e => some { st with lastName := lastName, errs := errs ++ [e] }
    | none =>
      let errs := errs ++ (if st.last = i64Max then [.i64Overflow] else [])
      some (insertValue st errs lastName (wrapI64 (st.last + 1)) v.ident name)

def pvLoop (sorted : Sorted) : PV → List Variant → Option PV
  | st, [] => some st
  | st, v :: rest => match pvStep sorted st v with
    | none => none
    | some st' => pvLoop sorted st' rest

/-- `values.sort_by_key(|v| v.0)` applied to the map's entries in whatever order the map yields them -/
def sortByKey {β} (l : List (Int × β)) : List (Int × β) := l.mergeSort (fun a b => decide (a.1 ≤ b.1))

/-- `mod.rs:67-80` -/
def rangesLoop : (b l : Int) → List Int → List (Int × Int)
  | b, l, [] => [(b, l)]
  | b, l, i :: rest => if i ≠ l + 1 then (b, l) :: rangesLoop i i rest else rangesLoop b i rest

def computeRanges : List Int → List (Int × Int)
  | [] => []
  | m :: rest => rangesLoop m m rest

/-- the target: only the pointer width matters -/
structure Target where
  ptrBits : Nat := 64
deriving Repr, DecidableEq, Inhabited

/-- `mod.rs:41-49`: repr ident ↦ (repr, size guess, width of the unsigned companion) -/
def reprTable (t : Target) : String → Option (Prim × Nat × Nat)
  | "u8" => some (⟨false, 8⟩, 1, 8)
  | "i8" => some (⟨true, 8⟩, 1, 8)
  | "u16" => some (⟨false, 16⟩, 2, 16)
  | "i16" => some (⟨true, 16⟩, 2, 16)
  | "u32" => some (⟨false, 32⟩, 4, 32)
  | "i32" => some (⟨true, 32⟩, 4, 32)
  | "usize" => some (⟨false, t.ptrBits⟩, 4, t.ptrBits)
  | "isize" => some (⟨true, t.ptrBits⟩, 4, t.ptrBits)
  | "u64" => some (⟨false, 64⟩, 8, 64)
  | "i64" => some (⟨true, 64⟩, 8, 64)
  | "u128" => some (⟨false, 128⟩, 16, 128)
  | "i128" => some (⟨true, 128⟩, 16, 128)
  | _ => none

/-- What the rest of the macro and the generated code depend on (`generator/mod.rs:27-38`). -/
structure Derive where
  repr : Prim
  reprName : String
  sizeGuess : Nat
  ubits : Nat
  /-- `(discriminant, (ident, name))`, value-sorted -/
  values : List (Int × (Name × Name))
  /-- `value_ranges` (kept for the gapless shape too; the Rust drops it there) -/
  ranges : List (Int × Int)
deriving Repr, Inhabited

def Derive.vals (D : Derive) : List Int := D.values.map (·.1)
def Derive.names (D : Derive) : List Name := D.values.map (·.2.2)
def Derive.numValues (D : Derive) : Nat := D.values.length
def Derive.gapless (D : Derive) : Bool := D.ranges.length == 1
def Derive.minKey (D : Derive) : Int := (D.vals.head?).getD 0
def Derive.maxKey (D : Derive) : Int := (D.vals.getLast?).getD 0

end ET
