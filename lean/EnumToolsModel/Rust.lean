/-
The target vocabulary of the template translator (`/verif/translate/translate_templates.py`):
one Lean definition per Rust construct that occurs inside the `quote!` templates of
`src/feature/**`.  `Generated/Templates.lean` is written in terms of these and of the tables of
`Gen.lean`; nothing here knows about a particular template.

Conventions: every Rust integer is an `Int` (the mathematical value); an enum value is its
discriminant; `&'static str` is a `Name`; a slice, an array or a std iterator over one is the
list of the elements it still yields (front first); `MaybeUninit<T>` is an `Option`.
Overflow checks are on (`+`/`-` panic), as in the dev/test profile the harness builds with.
-/
import EnumToolsModel.Iter
namespace ET.Rust

/-- the integer types a template mentions -/
inductive ITy | repr | urepr | usize
deriving Repr, DecidableEq, Inhabited

def ITy.prim (D : Derive) (t : Target) : ITy → Prim
  | .repr => D.repr
  | .urepr => ⟨false, D.ubits⟩
  | .usize => ⟨false, t.ptrBits⟩

/-- `x as T` (integer to integer, or field-less enum to integer) -/
def cast (p : Prim) (x : Int) : Int := p.wrap x
/-- `a.wrapping_add(b)` -/
def wrappingAdd (p : Prim) (a b : Int) : Int := p.wrap (a + b)
/-- `a.wrapping_sub(b)` -/
def wrappingSub (p : Prim) (a b : Int) : Int := p.wrap (a - b)
/-- `a + b` -/
def add (p : Prim) (a b : Int) : Res Int := if p.InRange (a + b) then .ok (a + b) else .panic .arithOverflow
/-- `a - b` -/
def sub (p : Prim) (a b : Int) : Res Int := if p.InRange (a - b) then .ok (a - b) else .panic .arithOverflow

/-- `TABLE[i]` -/
def index {α} (tbl : List α) (i : Int) : Res α := ET.index tbl i.toNat

/-- `TABLE[lo..hi]` with std's two panics -/
def sliceExcl {α} (tbl : List α) (lo hi : Int) : Res (List α) :=
  if lo > hi then .panic .sliceOrder
  else if hi > tbl.length then .panic .indexOOB
  else .ok ((tbl.drop lo.toNat).take (hi - lo).toNat)

/-- `o.unwrap_unchecked()` -/
def unwrapUnchecked {α} : Option α → Res α
  | some a => .ok a
  | none => .ub .unwrapUncheckedNone

/-- `m.assume_init()` -/
def assumeInit {α} : Option α → Res α
  | some a => .ok a
  | none => .ub .assumeInitUninit

/-- `o.map(|x| …)` whose closure can itself misbehave -/
def optMapM {α β} (o : Option α) (f : α → Res β) : Res (Option β) :=
  match o with
  | none => .ok none
  | some a => (f a).bind fun b => .ok (some b)

/-- `o.and_then(|x| …)` -/
def optAndThenM {α β} (o : Option α) (f : α → Res (Option β)) : Res (Option β) :=
  match o with
  | none => .ok none
  | some a => f a

/-- `iter.map(|x| …)`: the closure is applied to everything the iterator can yield -/
def mapM {α β} (f : α → Res β) : List α → Res (List β)
  | [] => .ok []
  | x :: rest => (f x).bind fun y => (mapM f rest).bind fun ys => .ok (y :: ys)

/-- `l.iter().enumerate()` -/
def enumFrom {α} : Nat → List α → List (Int × α)
  | _, [] => []
  | i, x :: xs => ((i : Int), x) :: enumFrom (i + 1) xs
def enumerate {α} (l : List α) : List (Int × α) := enumFrom 0 l

/-- `l.iter().position(p)` -/
def positionFrom {α} (p : α → Bool) : Nat → List α → Option Int
  | _, [] => none
  | k, x :: xs => if p x then some (k : Int) else positionFrom p (k + 1) xs
def position {α} (p : α → Bool) (l : List α) : Option Int := positionFrom p 0 l

/-- `for x in l { body }` where `body` can `return v` (`some v`) or fall through (`none`); `rest` is what follows the loop -/
def forRet {α β} : List α → (α → Res (Option β)) → (Unit → Res β) → Res β
  | [], _, rest => rest ()
  | x :: xs, body, rest =>
    match body x with
    | .ok (some v) => .ok v
    | .ok none => forRet xs body rest
    | .panic w => .panic w
    | .ub w => .ub w

/-- `for x in l { body }` where `body` only updates the variables in `σ` -/
def forFold {α σ} : List α → σ → (σ → α → Res σ) → Res σ
  | [], s, _ => .ok s
  | x :: xs, s, body => (body s x).bind fun s' => forFold xs s' body

/-- `loop { let r = it.next().unwrap_unchecked(); body }`: `body` sees `r`, the advanced iterator and
the loop-carried variables; it returns from the function (`.inl v`) or goes round again (`.inr σ`).
Running off the end of the iterator is the unchecked unwrap of a `None`. -/
def loopNext {α σ β} : List α → σ → (α → List α → σ → Res (Sum β σ)) → Res β
  | [], _, _ => .ub .unwrapUncheckedNone
  | r :: rest, s, body =>
    match body r rest s with
    | .ok (.inl v) => .ok v
    | .ok (.inr s') => loopNext rest s' body
    | .panic w => .panic w
    | .ub w => .ub w

/-- the same loop driven by `it.next_back()`: `revIt` is the iterator's content back to front, and
`body` receives the advanced iterator front to back again -/
def loopNextBackRev {α σ β} : List α → σ → (α → List α → σ → Res (Sum β σ)) → Res β
  | [], _, _ => .ub .unwrapUncheckedNone
  | r :: rest, s, body =>
    match body r rest.reverse s with
    | .ok (.inl v) => .ok v
    | .ok (.inr s') => loopNextBackRev rest s' body
    | .panic w => .panic w
    | .ub w => .ub w

def loopNextBack {α σ β} (it : List α) (s : σ) (body : α → List α → σ → Res (Sum β σ)) : Res β :=
  loopNextBackRev it.reverse s body

/-- `match x { p₁ => e₁, …, }`: the first arm whose pattern equals the scrutinee -/
def matchFirst {κ β} [DecidableEq κ] (arms : List (κ × β)) (x : κ) : Option β :=
  (arms.find? (fun a => decide (a.1 = x))).map (·.2)

/-- an exhaustive `match` on an enum value: no arm means the value is not a variant -/
def matchEnum {β} (arms : List (Int × β)) (x : Int) : Res β :=
  match matchFirst arms x with
  | some b => .ok b
  | none => .ub .invalidEnumValue

end ET.Rust
