/-
The macro's input: exactly the parts of `syn::DeriveInput` that `src/parser/**` inspects,
with catch-all constructors for everything it does not look into.
-/
import EnumToolsModel.Basic
namespace ET

/-- A discriminant expression as `parser/values.rs:62-95` sees it. -/
inductive DiscExpr where
  /-- `Expr::Lit(Lit::Int)`: the mathematical value of the digits (any base, `_`, suffix) -/
  | intLit (value : Nat)
  /-- `Expr::Unary` with `UnOp::Neg`; `attrsEmpty = false` when the unary expression carries attributes -/
  | neg (attrsEmpty : Bool) (e : DiscExpr)
  /-- every other expression form: paren, group, `!x`, non-integer literal, path, binary, cast, call, block, macro … -/
  | other
deriving Repr, DecidableEq, Inhabited

inductive Fields | unit | named | unnamed
deriving Repr, DecidableEq, Inhabited

/-- An attribute on a variant, classified as `parser/values.rs:25-53` classifies it. -/
inductive VAttr where
  /-- path is not `enum_tools` -/
  | foreign
  /-- `#[enum_tools(rename = "…")]` -/
  | rename (s : Name)
  /-- `enum_tools` attribute of a form that reaches one of the three `emit_error!`s
      (not a list; a list whose single Meta is not `ident = "str"`; a key other than `rename`) -/
  | badEmit
  /-- `#[enum_tools(…)]` whose argument is not a single `Meta` (`parse_args` fails ⇒ `abort!`) -/
  | badAbort
deriving Repr, DecidableEq, Inhabited

structure Variant where
  ident : Name
  fields : Fields := .unit
  disc : Option DiscExpr := none
  attrs : List VAttr := []
deriving Repr, DecidableEq, Inhabited

inductive DataKind | enum | struct | union
deriving Repr, DecidableEq, Inhabited

/-- A path used as feature or parameter name (`Params::path_to_name_span`). -/
inductive PathShape where
  | simple (name : String)
  /-- leading `::`, several segments, or generic arguments ⇒ `abort!(UnsupportedPath)` -/
  | complex
deriving Repr, DecidableEq, Inhabited

inductive LitV where
  | str (s : String)
  | nonStr
deriving Repr, DecidableEq, Inhabited

/-- One nested meta inside `feature(...)`. -/
inductive Param where
  | flag (p : PathShape)
  | nameLit (p : PathShape) (l : LitV)
  /-- nested list, or name-value whose value is not a literal ⇒ `emit_error!` -/
  | other
deriving Repr, DecidableEq, Inhabited

/-- One entry of `#[enum_tools(a, b(..), ..)]`. -/
inductive CfgItem where
  | path (p : PathShape)
  /-- `none`: the parenthesised arguments do not parse as `Meta,*` ⇒ `abort!` -/
  | list (p : PathShape) (params : Option (List Param))
  /-- `name = value` at feature level ⇒ `emit_error!` -/
  | other
deriving Repr, DecidableEq, Inhabited

inductive ReprArg where
  | ident (s : String)
  /-- anything `parse_args::<Ident>()` rejects: `C, u8`, `u8,`, `align(4)`, empty … -/
  | other
deriving Repr, DecidableEq, Inhabited

/-- An attribute on the enum itself (`parser/attr.rs`). -/
inductive EAttr where
  | repr (a : ReprArg)
  /-- `#[enum_tools(...)]`; `none` when the arguments do not parse as `Meta,*` ⇒ `abort!` -/
  | enumTools (items : Option (List CfgItem))
  /-- `#[enum_tools]` or `#[enum_tools = ..]` ⇒ `emit_error!` -/
  | enumToolsNotList
  | foreign
deriving Repr, DecidableEq, Inhabited

structure Decl where
  kind : DataKind := .enum
  attrs : List EAttr
  variants : List Variant
deriving Repr, DecidableEq, Inhabited

end ET
