/-
Basic vocabulary of the model: fixed-width integers of a primitive repr, outcomes
(value / panic / undefined behaviour), names.

Core Lean only: this file is linked into the `etmodel` executable.
-/
namespace ET

/-- A primitive representation type: signedness and width.  `i8 = ⟨true, 8⟩ … u128 = ⟨false, 128⟩`;
`usize`/`isize` are `⟨·, ptrBits⟩` of the target. -/
structure Prim where
  signed : Bool
  bits : Nat
deriving Repr, DecidableEq, Inhabited

/-- type MIN -/
def Prim.lo (r : Prim) : Int := if r.signed then -((2 : Int) ^ (r.bits - 1)) else 0
/-- type MAX -/
def Prim.hi (r : Prim) : Int := if r.signed then (2 : Int) ^ (r.bits - 1) - 1 else (2 : Int) ^ r.bits - 1

def Prim.InRange (r : Prim) (x : Int) : Prop := r.lo ≤ x ∧ x ≤ r.hi
instance (r : Prim) (x : Int) : Decidable (r.InRange x) := by unfold Prim.InRange; infer_instance

/-- two's-complement reduction of a mathematical integer into the repr (`as`, `wrapping_*`, literals) -/
def Prim.wrap (r : Prim) (x : Int) : Int :=
  if r.signed then Int.bmod x (2 ^ r.bits) else x % (2 : Int) ^ r.bits

/-- `x as <unsigned type of ubits bits>` -/
def asUnsigned (ubits : Nat) (x : Int) : Int := x % (2 : Int) ^ ubits

/-- Why a derived function panicked. -/
inductive PanicKind | indexOOB | sliceOrder | arithOverflow
  /-- a configuration for which the macro generates no code at all (it panics or aborts at expansion time) -/
  | unreachableConfig
deriving Repr, DecidableEq, Inhabited

/-- Which unchecked assumption was false. -/
inductive UBKind | transmuteInvalid | unwrapUncheckedNone | assumeInitUninit | invalidEnumValue
deriving Repr, DecidableEq, Inhabited

/-- Outcome of running generated code: a value, a panic, or undefined behaviour. -/
inductive Res (α : Type) where
  | ok (a : α)
  | panic (why : PanicKind)
  | ub (why : UBKind)
deriving Repr, DecidableEq, Inhabited

namespace Res
def bind {α β} : Res α → (α → Res β) → Res β
  | .ok a, f => f a
  | .panic w, _ => .panic w
  | .ub w, _ => .ub w
instance : Monad Res where
  pure := .ok
  bind := Res.bind
def map' {α β} (f : α → β) (r : Res α) : Res β := r.bind (fun a => .ok (f a))
def isOk {α} : Res α → Bool | .ok _ => true | _ => false
def isUB {α} : Res α → Bool | .ub _ => true | _ => false
@[simp] theorem bind_ok {α β} (a : α) (f : α → Res β) : (Res.ok a).bind f = f a := rfl
@[simp] theorem bind_panic {α β} (w) (f : α → Res β) : (Res.panic w : Res α).bind f = .panic w := rfl
@[simp] theorem bind_ub {α β} (w) (f : α → Res β) : (Res.ub w : Res α).bind f = .ub w := rfl
@[simp] theorem pure_eq {α} (a : α) : (pure a : Res α) = .ok a := rfl
@[simp] theorem bind_eq {α β} (r : Res α) (f : α → Res β) : (r >>= f) = r.bind f := rfl
end Res

/-- A variant name: the UTF-8 bytes of the string (`str` equality and order are byte-wise). -/
abbrev Name := List UInt8

/-- closed integer interval as a list -/
def interval (b e : Int) : List Int :=
  (List.range (e - b + 1).toNat).map (fun (k : Nat) => b + (k : Int))

end ET
