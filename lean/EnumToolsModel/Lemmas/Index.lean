/-
Table modes: the index computed by the generated code is the position of the variant in value order.
-/
import EnumToolsModel.Lemmas.Next
namespace ET

/-- in a list with strictly ascending keys, looking a key up finds the entry at its position -/
theorem find_key_of_getElem {β : Type} (l : List (Int × β)) (hs : (l.map (·.1)).Pairwise (· < ·))
    (k : Nat) (x : Int × β) (hk : l[k]? = some x) : l.find? (fun y => decide (y.1 = x.1)) = some x := by
  induction l generalizing k with
  | nil => simp at hk
  | cons a t ih =>
    simp only [List.map_cons] at hs
    have hp := List.pairwise_cons.mp hs
    cases k with
    | zero =>
      simp at hk; subst hk; simp
    | succ k' =>
      simp only [List.getElem?_cons_succ] at hk
      have hxm : x.1 ∈ t.map (·.1) := List.mem_map.mpr ⟨x, List.mem_of_getElem? hk, rfl⟩
      have hlt := hp.1 x.1 hxm
      have hne : ¬ (a.1 = x.1) := by omega
      rw [List.find?_cons]
      simp only [hne, decide_false]
      exact ih hp.2 k' hk

/-- position of a member of the run table: entry found by `find`, its offset, and the index -/
theorem table_find_index (p : Prim) (v : Int) :
    ∀ (tbl : List RangeEntry) (k0 : Int) (pre : List Int), WFTable tbl → OfsOK p k0 tbl → (pre.length : Int) = k0 →
      v ∈ expandT tbl →
      ∃ r kr, tbl.find? (fun r => r.contains v) = some r ∧ r.start ≤ v ∧ v ≤ r.stop ∧
        r.ofs = p.wrap (r.start - p.wrap kr) ∧ 0 ≤ kr ∧
        (pre ++ expandT tbl)[(kr + (v - r.start)).toNat]? = some v := by
  intro tbl
  induction tbl with
  | nil => intro _ _ _ _ _ hv; simp [expandT] at hv
  | cons r rest ih =>
    intro k0 pre hwf hofs hpre hv
    rw [expandT_cons, List.mem_append] at hv
    by_cases hc : r.contains v = true
    · have hcv := (r.contains_iff v).mp hc
      refine ⟨r, k0, by simp [hc], hcv.1, hcv.2, hofs.1, by omega, ?_⟩
      rw [expandT_cons, ← List.append_assoc]
      have hidx : (k0 + (v - r.start)).toNat = pre.length + (v - r.start).toNat := by omega
      rw [hidx, List.getElem?_append_left (by simp [interval_length]; omega),
        List.getElem?_append_right (by omega)]
      simp only [Nat.add_sub_cancel_left]
      rw [interval_getElem? _ _ _ (by omega)]
      congr 1; omega
    · have hvrest : v ∈ expandT rest := by
        rcases hv with hv | hv
        · exfalso; apply hc; exact (r.contains_iff v).mpr ((mem_interval _ _ _).mp hv)
        · exact hv
      have hbe := hwf.head
      obtain ⟨r', kr, hf, h1, h2, h3, h4, h5⟩ := ih (k0 + (r.stop - r.start + 1)) (pre ++ interval r.start r.stop) hwf.tail hofs.2
        (by simp [interval_length]; omega) hvrest
      refine ⟨r', kr, ?_, h1, h2, h3, h4, ?_⟩
      · rw [List.find?_cons]; simp only [hc]; exact hf
      · rw [expandT_cons, ← List.append_assoc]; exact h5

/-- the index expression of the table modes evaluates to the position `k` -/
theorem toIndex_of_pos (D : Derive) (t : Target) (h : D.WF) (ht : t.WF) (y : Int) (k : Nat)
    (hk : k < D.numValues) (hy : y % (2 : Int) ^ D.repr.bits = (k : Int) % (2 : Int) ^ D.repr.bits) :
    toIndex D t (D.repr.wrap y) = k := by
  have h1 : (k : Int) < (2 : Int) ^ D.ubits := by have := h.count_le; omega
  have h2 : (k : Int) < (2 : Int) ^ t.ptrBits := by
    have : (2 : Int) ^ 16 ≤ (2 : Int) ^ t.ptrBits := by
      have := Nat.pow_le_pow_right (n := 2) (by decide) ht
      exact_mod_cast this
    have := h.count_lt
    omega
  have := toIndex_eq D t y k h.ubits_le (by omega) h1 h2 hy
  simpa using this

/-- names are aligned with values: the entry at position `k` of `values` carries `vals[k]` and `names[k]` -/
theorem Derive.values_getElem? (D : Derive) (k : Nat) :
    D.values[k]?.map (·.1) = D.vals[k]? ∧ D.values[k]?.map (·.2.2) = D.names[k]? := by
  simp [Derive.vals, Derive.names]

/-- the specification's name lookup, by position -/
theorem spec_asStr_of_pos (D : Derive) (h : D.WF) (k : Nat) (v : Int) (hv : D.vals[k]? = some v) :
    ∃ n, D.names[k]? = some n ∧ spec.asStr D.sem v = some n := by
  have hk : k < D.values.length := by
    have := (List.getElem?_eq_some_iff.mp hv).1; simpa [Derive.vals] using this
  let x := D.values[k]
  have hx : D.values[k]? = some x := List.getElem?_eq_getElem hk
  have hx1 : x.1 = v := by
    have := (D.values_getElem? k).1; rw [hx, hv] at this; simpa using this
  refine ⟨x.2.2, ?_, ?_⟩
  · have := (D.values_getElem? k).2; rw [hx] at this; simpa using this.symm
  · have hf := find_key_of_getElem D.values (by simpa [Derive.vals] using h.sorted) k x hx
    unfold spec.asStr Derive.sem
    simp only
    rw [List.find?_map]
    have : (fun (y : Int × Name) => decide (y.1 = v)) ∘ (fun (x : Int × (Name × Name)) => (x.1, x.2.2)) = fun y => decide (y.1 = x.1) := by
      funext y; simp [hx1]
    rw [this, hf]
    simp

end ET
