/-
Concrete well-formed derives used by the non-vacuity `example`s next to the property theorems.
-/
import EnumToolsModel.Lemmas.WF
namespace ET

def nm (s : String) : Name := s.toUTF8.toList

/-- `#[repr(i8)] enum { A = -10, B = -5, C = -4, D = 3, E = 126, F = 127 }` (three later runs, one at the type's MAX) -/
def exD1 : Derive :=
  { repr := ⟨true, 8⟩, reprName := "i8", sizeGuess := 1, ubits := 8,
    values := [(-10, ([65], [65])), (-5, ([66], [98, 98])), (-4, ([67], [67])), (3, ([68], [68])), (126, ([69], [69])), (127, ([70], [70]))],
    ranges := [(-10, -10), (-5, -4), (3, 3), (126, 127)] }

theorem exD1_WF : exD1.WF := by
  constructor <;> decide

/-- `#[repr(u8)] enum { A = 253, B = 254, C = 255 }` gapless at the type's MAX -/
def exD2 : Derive :=
  { repr := ⟨false, 8⟩, reprName := "u8", sizeGuess := 1, ubits := 8,
    values := [(253, ([65], [65])), (254, ([66], [66])), (255, ([67], [67]))],
    ranges := [(253, 255)] }

theorem exD2_WF : exD2.WF := by
  constructor <;> decide

/-- `#[repr(i8)] enum { A = -128, B = -127, C = 5 }` first run at the type's MIN -/
def exD3 : Derive :=
  { repr := ⟨true, 8⟩, reprName := "i8", sizeGuess := 1, ubits := 8,
    values := [(-128, ([65], [65])), (-127, ([66], [66])), (5, ([67], [67]))],
    ranges := [(-128, -127), (5, 5)] }

theorem exD3_WF : exD3.WF := by
  constructor <;> decide

end ET
