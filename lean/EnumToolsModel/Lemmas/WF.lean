/-
Well-formedness of the macro's output (`Derive.WF`) — what `Derive::parse` establishes and what
every schema proof starts from — and its first consequences.
-/
import EnumToolsModel.Lemmas.Runs
import EnumToolsModel.Spec
namespace ET

/-- What the generated code may rely on.  Established by `parse` (theorem `expand_WF`, C11). -/
structure Derive.WF (D : Derive) : Prop where
  nonempty : D.values ≠ []
  sorted : D.vals.Pairwise (· < ·)
  inRange : ∀ v ∈ D.vals, D.repr.InRange v
  ranges_eq : D.ranges = computeRanges D.vals
  bits_pos : 1 ≤ D.repr.bits
  ubits_le : D.ubits ≤ D.repr.bits
  count_le : (D.numValues : Int) ≤ (2 : Int) ^ D.ubits
  count_lt : D.numValues < 65535

/-- pointer width of any Rust target -/
def Target.WF (t : Target) : Prop := 16 ≤ t.ptrBits

/-- the enum the derive believes it is looking at, as a specification-level object -/
def Derive.sem (D : Derive) : EnumSem := ⟨D.values.map (fun x => (x.1, x.2.2))⟩

@[simp] theorem Derive.sem_discs (D : Derive) : D.sem.discs = D.vals := by
  simp [Derive.sem, EnumSem.discs, Derive.vals, List.map_map, Function.comp_def]

@[simp] theorem Derive.sem_names (D : Derive) : D.sem.names = D.names := by
  simp [Derive.sem, EnumSem.names, Derive.names, List.map_map, Function.comp_def]

theorem Derive.vals_length (D : Derive) : D.vals.length = D.numValues := by
  simp [Derive.vals, Derive.numValues]

theorem Derive.names_length (D : Derive) : D.names.length = D.numValues := by
  simp [Derive.names, Derive.numValues]

theorem WFRuns.mem_le {rs : List Run} (hwf : WFRuns rs) {r : Run} (hr : r ∈ rs) : r.1 ≤ r.2 := by
  induction rs with
  | nil => cases hr
  | cons a rest ih =>
    rcases List.mem_cons.mp hr with e | e
    · subst e; exact hwf.head
    · exact ih hwf.tail e

namespace Derive.WF
variable {D : Derive} (h : D.WF)
include h

theorem vals_ne_nil : D.vals ≠ [] := by
  intro e; apply h.nonempty; simpa [Derive.vals] using e

theorem runs : WFRuns D.ranges ∧ expandR D.ranges = D.vals := by
  rw [h.ranges_eq]; exact computeRanges_spec D.vals h.sorted

theorem runs_inRange : ∀ r ∈ D.ranges, D.repr.InRange r.1 ∧ D.repr.InRange r.2 := by
  intro r hr
  obtain ⟨hwf, hex⟩ := h.runs
  -- both endpoints of a well-formed run are members of the expansion
  have hrle : r.1 ≤ r.2 := hwf.mem_le hr
  have m1 : r.1 ∈ D.vals := by rw [← hex, mem_expandR]; exact ⟨r, hr, Int.le_refl _, hrle⟩
  have m2 : r.2 ∈ D.vals := by rw [← hex, mem_expandR]; exact ⟨r, hr, hrle, Int.le_refl _⟩
  exact ⟨h.inRange _ m1, h.inRange _ m2⟩

/-- the `__RANGES` table -/
theorem table : WFTable (tableRange D) ∧ expandT (tableRange D) = D.vals ∧ OfsOK D.repr 0 (tableRange D)
    ∧ (tableRange D).map (fun r => (r.start, r.stop)) = D.ranges := by
  obtain ⟨hwf, hex⟩ := h.runs
  have := tableRangeGo_spec D.repr h.bits_pos D.ranges 0 hwf h.runs_inRange
  rw [hex] at this
  exact this

theorem minKey_mem : D.minKey ∈ D.vals := by
  have := h.vals_ne_nil
  cases hv : D.vals with
  | nil => exact absurd hv this
  | cons a rest => simp [Derive.minKey, hv]

theorem maxKey_mem : D.maxKey ∈ D.vals := by
  have := h.vals_ne_nil
  unfold Derive.maxKey
  cases hl : D.vals.getLast? with
  | none => simp [List.getLast?_eq_none_iff] at hl; exact absurd hl this
  | some x => simpa using List.mem_of_getLast? hl

theorem head?_eq : D.vals.head? = some D.minKey := by
  have := h.vals_ne_nil
  cases hv : D.vals with
  | nil => exact absurd hv this
  | cons a rest => simp [Derive.minKey, hv]

theorem getLast?_eq : D.vals.getLast? = some D.maxKey := by
  have := h.vals_ne_nil
  unfold Derive.maxKey
  cases hl : D.vals.getLast? with
  | none => simp [List.getLast?_eq_none_iff] at hl; exact absurd hl this
  | some x => simp

theorem minKey_le (v : Int) (hv : v ∈ D.vals) : D.minKey ≤ v := by
  have hs := h.sorted
  have hh := h.head?_eq
  cases hvs : D.vals with
  | nil => rw [hvs] at hv; cases hv
  | cons a rest =>
    rw [hvs] at hs hv hh
    simp at hh; subst hh
    rcases List.mem_cons.mp hv with e | e
    · omega
    · have := (List.pairwise_cons.mp hs).1 v e; omega

theorem le_maxKey (v : Int) (hv : v ∈ D.vals) : v ≤ D.maxKey := by
  have hs := h.sorted
  have hl := h.getLast?_eq
  obtain ⟨i, hi, rfl⟩ := List.getElem_of_mem hv
  rw [List.getLast?_eq_getElem?] at hl
  have hlen : 0 < D.vals.length := List.length_pos_of_mem hv
  have hl' : D.vals[D.vals.length - 1] = D.maxKey := by
    have := List.getElem?_eq_getElem (l := D.vals) (i := D.vals.length - 1) (by omega)
    rw [this] at hl; exact Option.some.inj hl
  by_cases hlast : i = D.vals.length - 1
  · subst hlast; omega
  · have := List.pairwise_iff_getElem.mp hs i (D.vals.length - 1) hi (by omega) (by omega)
    omega

/-- gapless: the discriminants are exactly the integers from the smallest to the largest -/
theorem gapless_interval (hg : D.gapless = true) : D.vals = interval D.minKey D.maxKey := by
  obtain ⟨hwf, hex⟩ := h.runs
  have hlen : D.ranges.length = 1 := by simpa [Derive.gapless] using hg
  match hr : D.ranges, hlen with
  | [r], _ =>
    rw [hr, expandR_single] at hex
    rw [hr] at hwf
    have hle : r.1 ≤ r.2 := hwf
    have hmin : D.minKey = r.1 := by
      unfold Derive.minKey; rw [← hex, interval_cons _ _ hle]; rfl
    have hmax : D.maxKey = r.2 := by
      unfold Derive.maxKey; rw [← hex]
      have : r.2 = r.1 + ((r.2 - r.1).toNat : Int) := by omega
      have hl : (interval r.1 r.2).getLast? = some r.2 := by
        rw [List.getLast?_eq_getElem?, interval_length]
        have : (r.2 - r.1 + 1).toNat - 1 = (r.2 - r.1).toNat := by omega
        rw [this, interval_getElem? _ _ _ (by omega)]
        congr 1; omega
      rw [hl]; rfl
    rw [hmin, hmax, hex]

theorem mem_gapless (hg : D.gapless = true) (x : Int) : x ∈ D.vals ↔ D.minKey ≤ x ∧ x ≤ D.maxKey := by
  rw [h.gapless_interval hg, mem_interval]

end Derive.WF
end ET
