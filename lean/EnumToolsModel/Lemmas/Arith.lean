/-
Fixed-width arithmetic: `wrap` algebra and the index law behind every table mode.
All statements are over a symbolic width.
-/
import EnumToolsModel.Gen
namespace ET

theorem two_pow_pos (n : Nat) : (0 : Int) < (2 : Int) ^ n := Int.pow_pos (by decide)

theorem natCast_two_pow (n : Nat) : ((2 ^ n : Nat) : Int) = (2 : Int) ^ n := by simp

/-- `wrap` does not change the residue modulo `2^bits` -/
theorem Prim.wrap_emod (p : Prim) (x : Int) : (p.wrap x) % (2 : Int) ^ p.bits = x % (2 : Int) ^ p.bits := by
  unfold Prim.wrap
  split
  · rw [← natCast_two_pow, Int.bmod_emod]
  · exact Int.emod_emod_of_dvd x (Int.dvd_refl _)

theorem two_pow_pred_double (n : Nat) (h : 1 ≤ n) : (2 : Int) ^ n = 2 * (2 : Int) ^ (n - 1) := by
  have : n = (n - 1) + 1 := by omega
  conv => lhs; rw [this, Int.pow_succ]
  omega

/-- `wrap` is the identity on values of the type -/
theorem Prim.wrap_of_inRange (p : Prim) (hb : 1 ≤ p.bits) (x : Int) (h : p.InRange x) : p.wrap x = x := by
  unfold Prim.InRange Prim.lo Prim.hi at h
  unfold Prim.wrap
  have hpos := two_pow_pos (p.bits - 1)
  have hd := two_pow_pred_double p.bits hb
  split
  · rename_i hs
    simp only [hs, if_true] at h
    rw [← natCast_two_pow] at hd
    apply Int.bmod_eq_of_le <;> omega
  · rename_i hs
    have hs' : p.signed = false := by cases hh : p.signed <;> simp_all
    simp only [hs'] at h
    apply Int.emod_eq_of_lt <;> simp at h <;> omega

/-- the result of `wrap` is a value of the type -/
theorem Prim.wrap_inRange (p : Prim) (hb : 1 ≤ p.bits) (x : Int) : p.InRange (p.wrap x) := by
  unfold Prim.InRange Prim.lo Prim.hi Prim.wrap
  have hpos := two_pow_pos (p.bits - 1)
  have hd := two_pow_pred_double p.bits hb
  split
  · have h1 := @Int.le_bmod x (2 ^ p.bits) (Nat.two_pow_pos _)
    have h2 := @Int.bmod_lt x (2 ^ p.bits) (Nat.two_pow_pos _)
    rw [natCast_two_pow] at h1 h2
    constructor <;> omega
  · have h1 := Int.emod_nonneg x (Int.ne_of_gt (two_pow_pos p.bits))
    have h2 := Int.emod_lt_of_pos x (two_pow_pos p.bits)
    constructor <;> omega

theorem Prim.lo_le_hi (p : Prim) : p.lo ≤ p.hi := by
  unfold Prim.lo Prim.hi
  have := two_pow_pos (p.bits - 1)
  have := two_pow_pos p.bits
  split <;> omega

/-- size of the type -/
theorem Prim.hi_sub_lo (p : Prim) (hb : 1 ≤ p.bits) : p.hi - p.lo + 1 = (2 : Int) ^ p.bits := by
  unfold Prim.lo Prim.hi
  have hd := two_pow_pred_double p.bits hb
  split <;> omega

/-- `wrapping_add(1)`: the successor, except at the type's MAX where it is the type's MIN -/
theorem Prim.wrap_succ (p : Prim) (hb : 1 ≤ p.bits) (v : Int) (h : p.InRange v) :
    p.wrap (v + 1) = if v = p.hi then p.lo else v + 1 := by
  split
  · rename_i hv
    -- v + 1 = lo + 2^bits
    have hsz := p.hi_sub_lo hb
    have hlo : p.InRange p.lo := ⟨Int.le_refl _, p.lo_le_hi⟩
    have : p.wrap (v + 1) = p.wrap p.lo := by
      have e : v + 1 = p.lo + (2 : Int) ^ p.bits := by omega
      unfold Prim.wrap
      split
      · rw [e, ← natCast_two_pow, Int.add_bmod_right]
      · rw [e, Int.add_emod_right]
    rw [this, p.wrap_of_inRange hb _ hlo]
  · rename_i hv
    apply p.wrap_of_inRange hb
    unfold Prim.InRange at *; omega

/-- `wrapping_sub(1)`: the predecessor, except at the type's MIN where it is the type's MAX -/
theorem Prim.wrap_pred (p : Prim) (hb : 1 ≤ p.bits) (v : Int) (h : p.InRange v) :
    p.wrap (v - 1) = if v = p.lo then p.hi else v - 1 := by
  split
  · rename_i hv
    have hsz := p.hi_sub_lo hb
    have hhi : p.InRange p.hi := ⟨p.lo_le_hi, Int.le_refl _⟩
    have : p.wrap (v - 1) = p.wrap p.hi := by
      have e : v - 1 = p.hi - (2 : Int) ^ p.bits := by omega
      unfold Prim.wrap
      split
      · rw [e, ← natCast_two_pow, Int.sub_bmod_right]
      · rw [e, Int.sub_emod_right]
    rw [this, p.wrap_of_inRange hb _ hhi]
  · rename_i hv
    apply p.wrap_of_inRange hb
    unfold Prim.InRange at *; omega

/-- The index law: if `y ≡ k (mod 2^bits)` and `k` is a legal index, then `wrap y as unsigned as usize` is `k`.
Needs only that the unsigned companion is no wider than the repr. -/
theorem toIndex_eq (D : Derive) (t : Target) (y k : Int)
    (hub : D.ubits ≤ D.repr.bits) (hk0 : 0 ≤ k) (hk1 : k < (2 : Int) ^ D.ubits) (hk2 : k < (2 : Int) ^ t.ptrBits)
    (hy : y % (2 : Int) ^ D.repr.bits = k % (2 : Int) ^ D.repr.bits) :
    toIndex D t (D.repr.wrap y) = k.toNat := by
  unfold toIndex asUnsigned
  have hdvd : (2 : Int) ^ D.ubits ∣ (2 : Int) ^ D.repr.bits := by
    rw [← natCast_two_pow, ← natCast_two_pow]; exact Int.natCast_dvd_natCast.mpr (Nat.pow_dvd_pow 2 hub)
  have h1 : (D.repr.wrap y) % (2 : Int) ^ D.ubits = k := by
    rw [← Int.emod_emod_of_dvd (D.repr.wrap y) hdvd, Prim.wrap_emod, hy, Int.emod_emod_of_dvd k hdvd]
    exact Int.emod_eq_of_lt hk0 hk1
  rw [h1, Int.emod_eq_of_lt hk0 hk2]

/-- residue of `v - wrap (b - wrap o)` -/
theorem sub_wrap_sub_wrap_emod (p : Prim) (v b o : Int) :
    (v - p.wrap (b - p.wrap o)) % (2 : Int) ^ p.bits = (v - (b - o)) % (2 : Int) ^ p.bits := by
  rw [Int.sub_emod, Prim.wrap_emod, Int.sub_emod b, Prim.wrap_emod, ← Int.sub_emod b, ← Int.sub_emod]

end ET
