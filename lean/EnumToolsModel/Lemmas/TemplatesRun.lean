/-
Any finite history of iterator operations on the translated `iter()` / `range()` — run through the
translated `next_and_back` methods (`TRun.lean`) — against the specification cursor.
-/
import EnumToolsModel.Lemmas.TemplatesEq
import EnumToolsModel.Lemmas.IterSim
namespace ET.T
open ET ET.Rust

variable (D : Derive) (tg : Target) (md : Modes)

theorem runT_cursor (ops : List Op) : ∀ (l : List Int),
    runT D tg md (.cursor l) ops = .ok (.cursor (Cursor.run l ops).1, (Cursor.run l ops).2) := by
  induction ops with
  | nil => intro l; rfl
  | cons op ops ih =>
    intro l
    simp only [runT, stepT, Res.bind_ok, ih, Cursor.run]

theorem finishT_cursor (l : List Int) (f : Fin) : finishT D tg md (.cursor l) f = .ok (Cursor.finish l f) := by
  cases f <;> simp [finishT, drainT, drainBackT, Cursor.finish]

theorem drainT_eq (hm : md.iter = .nextAndBack) : ∀ (len fuel : Nat) (fwd bwd : Option Int), len + 1 ≤ fuel →
    (len : Int) ≤ usizeMax tg + 1 → drainT D tg md fuel (.nb fwd bwd len) = nbDrain (T.next D tg md) len fwd := by
  intro len
  induction len with
  | zero =>
    intro fuel fwd bwd hf hn
    obtain ⟨f, rfl⟩ : ∃ f, fuel = f + 1 := ⟨fuel - 1, by omega⟩
    simp only [drainT]
    rw [iter_next_eq D tg md hm fwd bwd 0 hn]
    simp [nbNext, nbDrain]
  | succ n ih =>
    intro fuel fwd bwd hf hn
    obtain ⟨f, rfl⟩ : ∃ f, fuel = f + 1 := ⟨fuel - 1, by omega⟩
    simp only [drainT, iter_next_eq D tg md hm fwd bwd (n + 1) hn, nbNext]
    cases fwd with
    | none => simp [nbDrain]
    | some x =>
      simp only [Nat.add_one_ne_zero, if_false, nbDrain, Nat.add_sub_cancel]
      cases hx : T.next D tg md x with
      | ok fwd' =>
        simp only [Res.bind_ok]
        rw [ih f fwd' bwd (by omega) (by omega)]
      | panic w => rfl
      | ub w => rfl

theorem drainBackT_eq (hm : md.iter = .nextAndBack) : ∀ (len fuel : Nat) (fwd bwd : Option Int), len + 1 ≤ fuel →
    (len : Int) ≤ usizeMax tg + 1 → drainBackT D tg md fuel (.nb fwd bwd len) = nbDrainBack (T.nextBack D tg md) len bwd := by
  intro len
  induction len with
  | zero =>
    intro fuel fwd bwd hf hn
    obtain ⟨f, rfl⟩ : ∃ f, fuel = f + 1 := ⟨fuel - 1, by omega⟩
    simp only [drainBackT]
    rw [iter_next_back_eq D tg md hm fwd bwd 0 hn]
    simp [nbNextBack, nbDrainBack]
  | succ n ih =>
    intro fuel fwd bwd hf hn
    obtain ⟨f, rfl⟩ : ∃ f, fuel = f + 1 := ⟨fuel - 1, by omega⟩
    simp only [drainBackT, iter_next_back_eq D tg md hm fwd bwd (n + 1) hn, nbNextBack]
    cases bwd with
    | none => simp [nbDrainBack]
    | some x =>
      simp only [Nat.add_one_ne_zero, if_false, nbDrainBack, Nat.add_sub_cancel]
      cases hx : T.nextBack D tg md x with
      | ok bwd' =>
        simp only [Res.bind_ok]
        rw [ih f fwd bwd' (by omega) (by omega)]
      | panic w => rfl
      | ub w => rfl

theorem finishT_eq (hm : md.iter = .nextAndBack) (st : IterState Int) (hl : LenOK tg st) (f : Fin) :
    finishT D tg md st f = IterState.finish (T.next D tg md) (T.nextBack D tg md) st f := by
  cases st with
  | cursor l => rw [finishT_cursor]; rfl
  | nb fwd bwd n =>
    have hn : (n : Int) ≤ usizeMax tg + 1 := hl
    cases f <;>
      simp [finishT, IterState.finish, fuelOf, drainT_eq D tg md hm n (n + 1) fwd bwd (by omega) hn,
        drainBackT_eq D tg md hm n (n + 1) fwd bwd (by omega) hn]

/-- the translated `next` / `next_back`, by position -/
theorem stepFnsT (h : D.WF) (hnx : ∀ i (hi : i < D.vals.length), nextFn D D.vals[i] = .ok D.vals[i + 1]?)
    (hpv : ∀ i (hi : i < D.vals.length), nextBackFn D D.vals[i] = .ok (if i = 0 then none else D.vals[i - 1]?)) :
    StepFns D.vals (T.next D tg md) (T.nextBack D tg md) :=
  ⟨fun i hi => by rw [next_eq D tg md h _ (List.getElem_mem hi)]; exact hnx i hi,
   fun i hi => by rw [nextBack_eq D tg md h _ (List.getElem_mem hi)]; exact hpv i hi⟩

theorem lenOK_of_sim (h : D.WF) (ht : tg.WF) (st : IterState Int) (l : List Int) (hs : Sim D.vals st l) : LenOK tg st := by
  cases hs with
  | cursor l => trivial
  | nb fwd bwd len i hinv =>
    have := hinv.bound
    have := h.count_lt
    have := usizeMax_ge tg ht
    rw [D.vals_length] at *
    show (len : Int) ≤ usizeMax tg + 1
    omega

/-- any finite history on a state that represents `l`: same outputs as the cursor, and the state keeps representing the rest -/
theorem runT_sim (h : D.WF) (ht : tg.WF) (hm : md.iter = .nextAndBack)
    (hs : StepFns D.vals (T.next D tg md) (T.nextBack D tg md)) (ops : List Op) :
    ∀ (st : IterState Int) (l : List Int), Sim D.vals st l →
      ∃ st', runT D tg md st ops = .ok (st', (Cursor.run l ops).2) ∧ Sim D.vals st' (Cursor.run l ops).1 := by
  induction ops with
  | nil => intro st l hsim; exact ⟨st, rfl, hsim⟩
  | cons op ops ih =>
    intro st l hsim
    obtain ⟨st1, h1, h2⟩ := step_sim hs st l hsim op
    obtain ⟨st2, h3, h4⟩ := ih st1 _ h2
    refine ⟨st2, ?_, ?_⟩
    · simp only [runT, stepT_eq D tg md hm st (lenOK_of_sim D tg h ht st l hsim) op, h1, Res.bind_ok, h3, Cursor.run]
    · simpa [Cursor.run] using h4

/-- the whole observation: a history and a consuming operation, on an initial state that represents `l` -/
theorem observeT (h : D.WF) (ht : tg.WF)
    (hs : StepFns D.vals (T.next D tg md) (T.nextBack D tg md))
    (st : IterState Int) (l : List Int) (hsim : Sim D.vals st l)
    (hmode : md.iter = .nextAndBack ∨ ∃ l', st = .cursor l') (ops : List Op) (fin : Fin) :
    ∃ st', runT D tg md st ops = .ok (st', (Cursor.run l ops).2) ∧
      finishT D tg md st' fin = .ok (Cursor.finish (Cursor.run l ops).1 fin) := by
  rcases hmode with hm | ⟨l', rfl⟩
  · obtain ⟨st', h1, h2⟩ := runT_sim D tg md h ht hm hs ops st l hsim
    refine ⟨st', h1, ?_⟩
    rw [finishT_eq D tg md hm st' (lenOK_of_sim D tg h ht st' _ h2)]
    exact finish_sim hs st' _ h2 fin
  · cases hsim with
    | cursor l => exact ⟨_, runT_cursor D tg md ops l, finishT_cursor D tg md _ fin⟩

end ET.T

namespace ET

/-! ### which initial states are cursors (every mode but `next_and_back`) -/

theorem cursor_of_bind {α : Type} (r : Res α) (f : α → List Int) (st : IterState Int)
    (hr : (r.bind fun x => Res.ok (IterState.cursor (f x))) = .ok st) : ∃ l, st = .cursor l := by
  cases r with
  | ok a => simp only [Res.bind_ok] at hr; injection hr with e; exact ⟨f a, e.symm⟩
  | panic w => simp at hr
  | ub w => simp at hr

theorem iterInit_cursor (D : Derive) (m : IterMode) (hm : m ≠ .nextAndBack) (st : IterState Int) (hi : iterInit D m = .ok st) :
    ∃ l, st = .cursor l := by
  cases m with
  | nextAndBack => exact absurd rfl hm
  | range => exact cursor_of_bind _ (fun l => l) st hi
  | auto => simp only [iterInit] at hi; injection hi with e; exact ⟨_, e.symm⟩
  | table => simp only [iterInit] at hi; injection hi with e; exact ⟨_, e.symm⟩
  | tableInline => simp only [iterInit] at hi; injection hi with e; exact ⟨_, e.symm⟩

theorem rangeSlice_cursor (D : Derive) (si ei : Nat) (st : IterState Int) (hs : rangeSlice D si ei = .ok st) : ∃ l, st = .cursor l := by
  unfold rangeSlice at hs
  split at hs
  · injection hs with e; exact ⟨_, e.symm⟩
  · exact cursor_of_bind _ (fun l => l) st hs

theorem rangeInit_cursor (D : Derive) (t : Target) (m : IterMode) (hm : m ≠ .nextAndBack) (a b : Int) (st : IterState Int)
    (hi : rangeInit D t m a b = .ok st) : ∃ l, st = .cursor l := by
  unfold rangeInit at hi
  split at hi
  · cases m with
    | nextAndBack => exact absurd rfl hm
    | range => exact cursor_of_bind _ (fun l => l) st hi
    | table => exact rangeSlice_cursor D _ _ st hi
    | auto => simp only at hi; injection hi with e; exact ⟨_, e.symm⟩
    | tableInline => simp only at hi; injection hi with e; exact ⟨_, e.symm⟩
  · cases m with
    | nextAndBack => exact absurd rfl hm
    | table =>
      simp only at hi
      cases hx : rangeIdx D t a b with
      | ok p => rw [hx] at hi; exact rangeSlice_cursor D _ _ st hi
      | panic w => rw [hx] at hi; simp at hi
      | ub w => rw [hx] at hi; simp at hi
    | range => simp only at hi; injection hi with e; exact ⟨_, e.symm⟩
    | auto => simp only at hi; injection hi with e; exact ⟨_, e.symm⟩
    | tableInline => simp only at hi; injection hi with e; exact ⟨_, e.symm⟩


end ET
