/-
The dependency propagation as guarded "set these flags" rules (`Config.lean`), executed once in
list order.  Generic facts: flags are only ever added; a flag no rule sets is untouched; and if no
rule at or after position i sets rule i's source flag, one pass leaves every rule satisfied.
-/
import EnumToolsModel.Macro
namespace ET

theorem mem_applyRule (m : Modes) (g : Bool) (fl : Flags) (r : Rule) (f : Flag) :
    f ∈ applyRule m g fl r ↔ f ∈ fl ∨ (r.src ∈ fl ∧ guardHolds m g r.guard = true ∧ f ∈ r.sets) := by
  unfold applyRule
  split
  · rename_i hc
    simp only [Bool.and_eq_true, List.contains_iff_mem] at hc
    simp only [List.mem_append, List.mem_filter, Bool.not_eq_true', List.contains_eq_mem, decide_eq_false_iff_not] at *
    constructor
    · rintro (h | ⟨h1, h2⟩)
      · exact Or.inl h
      · exact Or.inr ⟨hc.1, hc.2, h1⟩
    · rintro (h | ⟨_, _, h3⟩)
      · exact Or.inl h
      · by_cases hf : f ∈ fl
        · exact Or.inl hf
        · exact Or.inr ⟨h3, hf⟩
  · rename_i hc
    simp only [Bool.and_eq_true, List.contains_iff_mem, not_and] at hc
    constructor
    · intro h; exact Or.inl h
    · rintro (h | ⟨h1, h2, _⟩)
      · exact h
      · exact absurd h2 (hc h1)

theorem apply_mono (m : Modes) (g : Bool) (fl : Flags) (r : Rule) (f : Flag) (h : f ∈ fl) : f ∈ applyRule m g fl r :=
  (mem_applyRule m g fl r f).mpr (Or.inl h)

theorem run_mono (m : Modes) (g : Bool) (rs : List Rule) : ∀ (fl : Flags) (f : Flag), f ∈ fl → f ∈ runRules rs m g fl := by
  induction rs with
  | nil => intro fl f h; exact h
  | cons r rs ih => intro fl f h; exact ih _ f (apply_mono m g fl r f h)

theorem apply_frame (m : Modes) (g : Bool) (fl : Flags) (r : Rule) (f : Flag) (h : f ∉ r.sets) :
    f ∈ applyRule m g fl r ↔ f ∈ fl := by
  rw [mem_applyRule]
  constructor
  · rintro (h1 | ⟨_, _, h3⟩); exact h1; exact absurd h3 h
  · intro h1; exact Or.inl h1

theorem run_frame (m : Modes) (g : Bool) (rs : List Rule) : ∀ (fl : Flags) (f : Flag), (∀ r ∈ rs, f ∉ r.sets) →
    (f ∈ runRules rs m g fl ↔ f ∈ fl) := by
  induction rs with
  | nil => intro fl f _; exact Iff.rfl
  | cons r rs ih =>
    intro fl f h
    have h1 : f ∉ r.sets := h r (by simp)
    have h2 : ∀ r' ∈ rs, f ∉ r'.sets := fun r' hr' => h r' (by simp [hr'])
    show f ∈ runRules rs m g (applyRule m g fl r) ↔ f ∈ fl
    rw [ih _ f h2, apply_frame m g fl r f h1]

/-- where a flag of the result comes from -/
theorem run_origin (m : Modes) (g : Bool) (rs : List Rule) : ∀ (fl : Flags) (f : Flag), f ∈ runRules rs m g fl →
    f ∈ fl ∨ ∃ r ∈ rs, f ∈ r.sets ∧ guardHolds m g r.guard = true ∧ r.src ∈ runRules rs m g fl := by
  induction rs with
  | nil => intro fl f h; exact Or.inl h
  | cons r rs ih =>
    intro fl f h
    rcases ih (applyRule m g fl r) f h with h1 | ⟨r', hr', h2, h3, h4⟩
    · rcases (mem_applyRule m g fl r f).mp h1 with h5 | ⟨h5, h6, h7⟩
      · exact Or.inl h5
      · exact Or.inr ⟨r, by simp, h7, h6, run_mono m g rs _ _ (apply_mono m g fl r _ h5)⟩
    · exact Or.inr ⟨r', by simp [hr'], h2, h3, h4⟩

/-- a rule is satisfied in a flag set -/
def Sat (m : Modes) (g : Bool) (fl : Flags) (r : Rule) : Prop :=
  r.src ∈ fl → guardHolds m g r.guard = true → ∀ f ∈ r.sets, f ∈ fl

/-- no rule at or after the position of a rule sets that rule's source flag -/
def ordered : List Rule → Bool
  | [] => true
  | r :: rs => (r :: rs).all (fun r' => !r'.sets.contains r.src) && ordered rs

theorem run_sat (m : Modes) (g : Bool) (rs : List Rule) : ∀ (fl : Flags), ordered rs = true → ∀ r ∈ rs, Sat m g (runRules rs m g fl) r := by
  induction rs with
  | nil => intro fl _ r hr; cases hr
  | cons r0 rs ih =>
    intro fl hord r hr
    simp only [ordered, Bool.and_eq_true, List.all_eq_true, Bool.not_eq_true', List.contains_eq_mem, decide_eq_false_iff_not] at hord
    obtain ⟨h0, hrest⟩ := hord
    rcases List.mem_cons.mp hr with rfl | hr'
    · intro hsrc hg f hf
      have hsrc0 : r.src ∈ fl := (run_frame m g (r :: rs) fl r.src (fun r' hr' => by
        have := h0 r' hr'; simpa using this)).mp hsrc
      show f ∈ runRules rs m g (applyRule m g fl r)
      apply run_mono
      exact (mem_applyRule m g fl r f).mpr (Or.inr ⟨hsrc0, hg, hf⟩)
    · exact ih _ hrest r hr'

end ET
