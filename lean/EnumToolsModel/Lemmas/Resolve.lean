/-
Facts about `Features::resolve` over the regenerated rules: structure of a successful run, the
flags and modes `resolve_auto` touches, closure under the rules.
-/
import EnumToolsModel.Lemmas.Horn
import EnumToolsModel.Generated.Resolve
namespace ET
open Generated

/-- `resolve_auto` only ever adds the flag `tableName` -/
theorem autoFlags_spec (sh : Shape) (fl : Flags) (m : Modes) (f : Flag) :
    (f ∈ fl → f ∈ autoFlags sh fl m) ∧ (f ∈ autoFlags sh fl m → f ∈ fl ∨ f = .tableName) := by
  unfold autoFlags
  simp only
  constructor
  · intro hf; (repeat' split) <;> simp_all
  · intro hf; (repeat' split at hf) <;> simp_all

/-- the modes picked: no enabled feature stays in auto, explicit modes are kept, the mode picked for `iter` is legal -/
theorem autoModes_spec (sh : Shape) (fl : Flags) (m : Modes) :
    (.asStr ∈ fl → (autoModes sh fl m).asStr ≠ .auto) ∧ (.fromStrFn ∈ fl → (autoModes sh fl m).fromStrFn ≠ .auto) ∧
    (.fromStrTrait ∈ fl → (autoModes sh fl m).fromStrTrait ≠ .auto) ∧ (.iter ∈ fl → (autoModes sh fl m).iter ≠ .auto) ∧
    (m.asStr ≠ .auto → (autoModes sh fl m).asStr = m.asStr) ∧ (m.fromStrFn ≠ .auto → (autoModes sh fl m).fromStrFn = m.fromStrFn) ∧
    (m.fromStrTrait ≠ .auto → (autoModes sh fl m).fromStrTrait = m.fromStrTrait) ∧ (m.iter ≠ .auto → (autoModes sh fl m).iter = m.iter) ∧
    (m.iter = .auto → (autoModes sh fl m).iter = .range → sh.gapless = true) ∧
    (m.iter = .auto → (autoModes sh fl m).iter = .tableInline → .range ∉ fl) := by
  unfold autoModes
  simp only [List.contains_eq_mem]
  refine ⟨?_, ?_, ?_, ?_, ?_, ?_, ?_, ?_, ?_, ?_⟩
  · intro h; (repeat' split) <;> simp_all
  · intro h; (repeat' split) <;> simp_all
  · intro h; (repeat' split) <;> simp_all
  · intro h; (repeat' split) <;> simp_all
  · intro h; simp [h]
  · intro h; simp [h]
  · intro h; simp [h]
  · intro h; simp [h]
  · intro h1 h2; (repeat' split at h2) <;> simp_all
  · intro h1 h2 hr; (repeat' split at h2) <;> simp_all

/-- the rules are layered: no rule at or after a rule's position sets that rule's source -/
theorem rules_ordered : ordered Generated.rules = true := by decide +kernel

/-- anatomy of a successful `resolve` -/
theorem resolve_ok (sh : Shape) (fl : Flags) (m : Modes) (fl2 : Flags) (m2 : Modes) (h : resolve sh fl m = .ok (fl2, m2)) :
    aborts.find? (abortFires m sh.gapless fl) = none ∧
    m2 = autoModes sh (autoFlags sh (runRules rules m sh.gapless fl) m) m ∧
    aborts.find? (abortFires m2 sh.gapless (autoFlags sh (runRules rules m sh.gapless fl) m)) = none ∧
    fl2 = runRules rules m2 sh.gapless (autoFlags sh (runRules rules m sh.gapless fl) m) := by
  unfold resolve resolveWith at h
  simp only [resolveAuto] at h
  split at h
  · cases h
  · rename_i h1
    split at h
    · cases h
    · rename_i h2
      simp only [Except.ok.injEq, Prod.mk.injEq] at h
      obtain ⟨e1, e2⟩ := h
      subst e2
      exact ⟨h1, rfl, h2, e1.symm⟩

/-- a set of flags in which every rule is satisfied contains the consequences of any of its subsets -/
theorem closed_subset (m : Modes) (g : Bool) (fl : Flags) (rs : List Rule) (hsat : ∀ r ∈ rs, Sat m g fl r) :
    ∀ (S : Flags), (∀ f ∈ S, f ∈ fl) → ∀ f ∈ runRules rs m g S, f ∈ fl := by
  induction rs with
  | nil => intro S hS f hf; exact hS f hf
  | cons r rs ih =>
    intro S hS f hf
    apply ih (fun r' hr' => hsat r' (by simp [hr'])) (applyRule m g S r) _ f hf
    intro x hx
    rcases (mem_applyRule m g S r x).mp hx with h1 | ⟨h1, h2, h3⟩
    · exact hS x h1
    · exact hsat r (by simp) (hS _ h1) h2 x h3

theorem runRules_nil (m : Modes) (g : Bool) (rs : List Rule) : runRules rs m g [] = [] := by
  induction rs with
  | nil => rfl
  | cons r rs ih => simp only [runRules, List.foldl_cons, applyRule, List.contains_nil, Bool.false_and, Bool.false_eq_true, if_false] at *; exact ih

/-- with no feature requested nothing aborts -/
theorem resolve_empty (sh : Shape) (m : Modes) : ∃ r, resolve sh [] m = .ok r := by
  have hab : ∀ (mm : Modes), aborts.find? (abortFires mm sh.gapless []) = none := by
    intro mm; rw [List.find?_eq_none]; intro a _; simp [abortFires]
  unfold resolve resolveWith
  rw [hab m]
  simp only [resolveAuto, runRules_nil]
  have : autoFlags sh [] m = [] := by simp [autoFlags]
  rw [this, hab]
  exact ⟨_, rfl⟩

theorem Modes.mem_all (m : Modes) : m ∈ Modes.all := by
  obtain ⟨a, b, c, d⟩ := m
  cases a <;> cases b <;> cases c <;> cases d <;> decide

theorem Flag.mem_all (f : Flag) : f ∈ Flag.all := by cases f <;> decide

end ET
