/-
`next_back` with holes (`next_back_fn.rs:72-95`): the same loop driven from the end of the table.
-/
import EnumToolsModel.Lemmas.Next
namespace ET

theorem expandT_append (a b : List RangeEntry) : expandT (a ++ b) = expandT a ++ expandT b := by
  simp [expandT]

theorem expandT_single (r : RangeEntry) : expandT [r] = interval r.start r.stop := by simp [expandT]

/-- peeling the last entry off a well-formed table -/
theorem WFTable.append_single (init : List RangeEntry) (r : RangeEntry) (h : WFTable (init ++ [r])) :
    WFTable init ∧ r.start ≤ r.stop ∧ ∀ y ∈ expandT init, y + 1 < r.start := by
  induction init with
  | nil => exact ⟨trivial, h, by intro y hy; simp [expandT] at hy⟩
  | cons a init' ih =>
    have htail : WFTable (init' ++ [r]) := WFTable.tail (r := a) h
    obtain ⟨hw, hr, hlt⟩ := ih htail
    have habove := WFTable.above (r := a) (rs := init' ++ [r]) h
    have hrmem : r.start ∈ expandT (init' ++ [r]) := by
      rw [expandT_append, List.mem_append]; right
      rw [expandT_single, mem_interval]; exact ⟨Int.le_refl _, hr⟩
    have ha : a.start ≤ a.stop := WFTable.head (r := a) h
    refine ⟨?_, hr, ?_⟩
    · cases init' with
      | nil => exact ha
      | cons b init'' => exact ⟨ha, h.2.1, hw⟩
    · intro y hy
      rw [expandT_cons, List.mem_append] at hy
      rcases hy with hy | hy
      · have := (mem_interval _ _ _).mp hy
        have := habove r.start hrmem
        omega
      · exact hlt y hy

theorem find_rev_interval_none (b e v : Int) (h : v ≤ b) :
    (interval b e).reverse.find? (fun y => decide (y < v)) = none := by
  rw [List.find?_eq_none]; intro y hy
  have := (mem_interval _ _ _).mp (List.mem_reverse.mp hy); simp; omega

theorem find_rev_interval_pred (b e v : Int) (h1 : b ≤ v - 1) (h2 : v ≤ e) :
    (interval b e).reverse.find? (fun y => decide (y < v)) = some (v - 1) := by
  -- split the interval at v: [b .. v-1] ++ [v .. e]
  have hsplit : interval b e = interval b (v - 1) ++ interval v e := by
    unfold interval
    have e1 : (e - b + 1).toNat = (v - 1 - b + 1).toNat + (e - v + 1).toNat := by omega
    rw [e1, List.range_add, List.map_append, List.map_map]
    congr 1
    apply List.map_congr_left
    intro k _
    simp only [Function.comp]
    omega
  rw [hsplit, List.reverse_append, List.find?_append]
  have hnone : (interval v e).reverse.find? (fun y => decide (y < v)) = none := find_rev_interval_none v e v (Int.le_refl _)
  rw [hnone]
  have hlast : interval b (v - 1) = interval b (v - 1 - 1) ++ [v - 1] := by
    have := interval_succ_right b (v - 1 - 1) (by omega)
    have e2 : v - 1 - 1 + 1 = v - 1 := by omega
    rw [e2] at this; exact this
  rw [hlast, List.reverse_append]
  simp
  omega

/-- the top of the (prefix of the) table either ends below the type's MAX or is not the only entry -/
def LastOK (hi : Int) : List RangeEntry → Prop
  | [] => True
  | r :: rest => r.stop < hi ∨ rest ≠ []

/-- the loop on a reversed prefix `l` of the table (entries from high to low) -/
theorem nextBackLoop_spec (D : Derive) (hb : 1 ≤ D.repr.bits) (v : Int) (hvr : D.repr.InRange v) :
    ∀ (l : List RangeEntry), WFTable l.reverse → (∀ y ∈ expandT l.reverse, y ∈ D.vals) →
      (∀ r ∈ l, D.repr.InRange r.start ∧ D.repr.InRange r.stop) →
      LastOK D.repr.hi l →
      v ∈ expandT l.reverse →
      nextBackLoop D v l = .ok ((expandT l.reverse).reverse.find? (fun y => decide (y < v))) := by
  intro l
  induction l with
  | nil => intro _ _ _ _ hv; simp [expandT] at hv
  | cons r rest ih =>
    intro hwf hsub hrange hlastok hv
    rw [List.reverse_cons] at hwf hsub hv ⊢
    obtain ⟨hwinit, hbe, hbelow⟩ := WFTable.append_single rest.reverse r hwf
    have hr := hrange r (by simp)
    rw [expandT_append, expandT_single, List.mem_append] at hv
    rw [expandT_append, expandT_single, List.reverse_append, List.find?_append]
    unfold nextBackLoop
    by_cases hc : r.contains v = true
    · simp only [hc, if_true]
      have hcv := (r.contains_iff v).mp hc
      by_cases hfirst : v = r.start
      · -- first of the run: fall back to the previous run (or None)
        have hc' : r.contains (D.repr.wrap (v - 1)) = false := by
          rw [D.repr.wrap_pred hb v hvr]
          split
          · rename_i hvlo
            rcases hlastok with hhi | hne
            · cases hcc : r.contains D.repr.hi with
              | false => rfl
              | true => have := (r.contains_iff _).mp hcc; omega
            · exfalso
              cases rest with
              | nil => exact hne rfl
              | cons r2 rest2 =>
                -- r2 lies entirely below the type's MIN: impossible
                have hr2 := hrange r2 (by simp)
                have hm : r2.stop ∈ expandT (r2 :: rest2).reverse := by
                  rw [List.reverse_cons, expandT_append, List.mem_append]; right
                  rw [expandT_single, mem_interval]
                  have := (WFTable.append_single rest2.reverse r2 (by simpa using hwinit) |>.2.1)
                  exact ⟨this, Int.le_refl _⟩
                have := hbelow r2.stop hm
                have h2 := hr2.2; unfold Prim.InRange at h2; omega
          · cases hcc : r.contains (v - 1) with
            | false => rfl
            | true => have := (r.contains_iff _).mp hcc; omega
        simp only [hc']
        have hnone : (interval r.start r.stop).reverse.find? (fun y => decide (y < v)) = none :=
          find_rev_interval_none _ _ _ (by omega)
        rw [hnone]
        cases rest with
        | nil => simp [expandT]
        | cons r2 rest2 =>
          have hw2 := WFTable.append_single rest2.reverse r2 (by simpa using hwinit)
          have hm : r2.stop ∈ expandT (r2 :: rest2).reverse := by
            rw [List.reverse_cons, expandT_append, List.mem_append]; right
            rw [expandT_single, mem_interval]; exact ⟨hw2.2.1, Int.le_refl _⟩
          have hlt : r2.stop < v := by have := hbelow r2.stop hm; omega
          have hmem : r2.stop ∈ expandT (rest2.reverse ++ [r2] ++ [r]) := by
            rw [expandT_append, List.mem_append]; left
            simpa [List.reverse_cons] using hm
          have hmem' : r2.stop ∈ D.vals := hsub _ (by simpa [List.reverse_cons] using hmem)
          simp only [Bool.false_eq_true, if_false, transmute_of_mem D _ hmem', Res.bind_ok]
          -- the reversed expansion of the prefix starts with r2.stop
          rw [List.reverse_cons, expandT_append, expandT_single, List.reverse_append]
          have hl : (interval r2.start r2.stop).reverse = r2.stop :: (interval r2.start (r2.stop - 1)).reverse := by
            have := interval_succ_right r2.start (r2.stop - 1) (by have := hw2.2.1; omega)
            have e2 : r2.stop - 1 + 1 = r2.stop := by omega
            rw [e2] at this; rw [this, List.reverse_append]; rfl
          rw [hl]
          simp [hlt]
      · -- predecessor inside the run
        have hgt : r.start ≤ v - 1 := by omega
        have hne : v ≠ D.repr.lo := by have := hr.1; unfold Prim.InRange at this; omega
        have hsw : D.repr.wrap (v - 1) = v - 1 := by rw [D.repr.wrap_pred hb v hvr]; simp [hne]
        have hc' : r.contains (v - 1) = true := (r.contains_iff _).mpr ⟨hgt, by omega⟩
        have hmem : v - 1 ∈ expandT (rest.reverse ++ [r]) := by
          rw [expandT_append, List.mem_append]; right
          rw [expandT_single, mem_interval]; exact ⟨hgt, by omega⟩
        simp only [hsw, hc', if_true, transmute_of_mem D _ (hsub _ hmem), Res.bind_ok]
        rw [find_rev_interval_pred r.start r.stop v hgt hcv.2]; simp
    · -- v is in an earlier run
      simp only [hc, Bool.false_eq_true, if_false]
      have hvrest : v ∈ expandT rest.reverse := by
        rcases hv with hv | hv
        · exact hv
        · exfalso; apply hc; exact (r.contains_iff v).mpr ((mem_interval _ _ _).mp hv)
      have hlt := hbelow v hvrest
      have hnone : (interval r.start r.stop).reverse.find? (fun y => decide (y < v)) = none :=
        find_rev_interval_none _ _ _ (by omega)
      have hlast' : LastOK D.repr.hi rest := by
        cases rest with
        | nil => trivial
        | cons r2 rest2 =>
          left
          have hw2 := WFTable.append_single rest2.reverse r2 (by simpa using hwinit)
          have hm : r2.stop ∈ expandT (r2 :: rest2).reverse := by
            rw [List.reverse_cons, expandT_append, List.mem_append]; right
            rw [expandT_single, mem_interval]; exact ⟨hw2.2.1, Int.le_refl _⟩
          have h1 := hbelow r2.stop hm
          have h2 := hr.2; unfold Prim.InRange at h2
          have h3 := hr.1; unfold Prim.InRange at h3
          omega
      rw [ih hwinit (fun y hy => hsub y (by rw [expandT_append, List.mem_append]; exact Or.inl hy))
            (fun r' hr' => hrange r' (by simp [hr'])) hlast' hvrest, hnone]
      simp

/-- `next_back` on an enum with holes -/
theorem nextBackHoles_spec (D : Derive) (h : D.WF) (hg : D.gapless = false) (v : Int) (hv : v ∈ D.vals) :
    nextBackHoles D v = .ok (D.vals.reverse.find? (fun y => decide (y < v))) := by
  obtain ⟨hwf, hex, _, _⟩ := h.table
  unfold nextBackHoles
  have hlen : (tableRange D).length ≠ 1 := by
    rw [h.table_length]; simpa [Derive.gapless] using hg
  have hlast : LastOK D.repr.hi (tableRange D).reverse := by
    cases ht : (tableRange D).reverse with
    | nil => trivial
    | cons r rest =>
      right; intro hn; apply hlen
      have : ((tableRange D).reverse).length = 1 := by rw [ht, hn]; rfl
      simpa using this
  have := nextBackLoop_spec D h.bits_pos v (h.inRange v hv) (tableRange D).reverse
    (by simpa using hwf) (by simp only [List.reverse_reverse]; rw [hex]; exact fun y hy => hy)
    (fun r hr => h.table_inRange r (List.mem_reverse.mp hr)) hlast (by simp only [List.reverse_reverse]; rw [hex]; exact hv)
  rw [this]; simp only [List.reverse_reverse]; rw [hex]

end ET
