/-
The run table: `computeRanges` (a transcription of `parser/mod.rs:67-80`) splits a strictly
ascending list into maximal runs of consecutive integers; `__RANGES` (`table_range.rs`) lists the
runs with offsets that count the variants before each run.
-/
import EnumToolsModel.Lemmas.Arith
namespace ET

/-! ### intervals -/

theorem mem_interval (b e x : Int) : x ∈ interval b e ↔ b ≤ x ∧ x ≤ e := by
  unfold interval
  simp only [List.mem_map, List.mem_range]
  constructor
  · rintro ⟨k, hk, rfl⟩; omega
  · intro h; exact ⟨(x - b).toNat, by omega, by omega⟩

theorem interval_length (b e : Int) : (interval b e).length = (e - b + 1).toNat := by
  simp [interval]

theorem interval_getElem? (b e : Int) (k : Nat) (hk : (k : Int) < e - b + 1) :
    (interval b e)[k]? = some (b + k) := by
  unfold interval
  rw [List.getElem?_map, List.getElem?_range (by omega)]
  rfl

theorem interval_self (i : Int) : interval i i = [i] := by
  simp [interval]

theorem interval_empty (b e : Int) (h : e < b) : interval b e = [] := by
  unfold interval
  have : (e - b + 1).toNat = 0 := by omega
  rw [this]; rfl

theorem interval_succ_right (b l : Int) (h : b ≤ l + 1) : interval b (l + 1) = interval b l ++ [l + 1] := by
  unfold interval
  have : (l + 1 - b + 1).toNat = (l - b + 1).toNat + 1 := by omega
  rw [this, List.range_succ, List.map_append]
  simp
  omega

theorem interval_cons (b e : Int) (h : b ≤ e) : interval b e = b :: interval (b + 1) e := by
  unfold interval
  have : (e - b + 1).toNat = (e - (b + 1) + 1).toNat + 1 := by omega
  rw [this, List.range_succ_eq_map]
  simp [List.map_map, Function.comp_def]
  intro a _; omega

theorem interval_pairwise (b e : Int) : (interval b e).Pairwise (· < ·) := by
  unfold interval
  rw [List.pairwise_map]
  have := List.pairwise_lt_range (n := (e - b + 1).toNat)
  exact this.imp (fun h => by omega)

/-! ### runs -/

abbrev Run := Int × Int

def expandR (rs : List Run) : List Int := rs.flatMap (fun r => interval r.1 r.2)

/-- runs are non-empty, ascending, and separated by at least one missing integer -/
def WFRuns : List Run → Prop
  | [] => True
  | [r] => r.1 ≤ r.2
  | r :: r2 :: rest => r.1 ≤ r.2 ∧ r.2 + 1 < r2.1 ∧ WFRuns (r2 :: rest)

theorem WFRuns.tail {r : Run} {rs : List Run} (h : WFRuns (r :: rs)) : WFRuns rs := by
  cases rs with
  | nil => trivial
  | cons r2 rest => exact h.2.2

theorem WFRuns.head {r : Run} {rs : List Run} (h : WFRuns (r :: rs)) : r.1 ≤ r.2 := by
  cases rs with
  | nil => exact h
  | cons r2 rest => exact h.1

theorem mem_expandR (rs : List Run) (x : Int) : x ∈ expandR rs ↔ ∃ r ∈ rs, r.1 ≤ x ∧ x ≤ r.2 := by
  simp [expandR, mem_interval]

theorem expandR_cons (r : Run) (rest : List Run) : expandR (r :: rest) = interval r.1 r.2 ++ expandR rest := by
  simp [expandR]

/-- everything in later runs is above the end of the first run by at least 2 -/
theorem WFRuns.above {r : Run} {rs : List Run} (h : WFRuns (r :: rs)) : ∀ y ∈ expandR rs, r.2 + 1 < y := by
  induction rs generalizing r with
  | nil => intro y hy; simp [expandR] at hy
  | cons r2 rest ih =>
    intro y hy
    rw [expandR_cons, List.mem_append] at hy
    rcases hy with hy | hy
    · have := (mem_interval _ _ _).mp hy; have := h.2.1; omega
    · have h2 : WFRuns (r2 :: rest) := h.2.2
      have := ih h2 y hy
      have := h.2.1; have := h2.head; omega

/-- shape of the loop's output: it starts with a run beginning at `b` -/
theorem rangesLoop_head (rest : List Int) : ∀ (b l : Int), ∃ e tl, rangesLoop b l rest = (b, e) :: tl ∧ l ≤ e := by
  induction rest with
  | nil => intro b l; exact ⟨l, [], rfl, Int.le_refl _⟩
  | cons i rest ih =>
    intro b l
    unfold rangesLoop
    split
    · exact ⟨l, _, rfl, Int.le_refl _⟩
    · rename_i h
      obtain ⟨e, tl, he, hle⟩ := ih b i
      exact ⟨e, tl, he, by omega⟩

theorem rangesLoop_spec (rest : List Int) : ∀ (b l : Int), b ≤ l → (∀ y ∈ rest, l < y) → rest.Pairwise (· < ·) →
    WFRuns (rangesLoop b l rest) ∧ expandR (rangesLoop b l rest) = interval b l ++ rest := by
  induction rest with
  | nil =>
    intro b l hbl _ _
    simp [rangesLoop, WFRuns, expandR, hbl]
  | cons i rest ih =>
    intro b l hbl hgt hp
    have hi : l < i := hgt i (by simp)
    have hp' := List.pairwise_cons.mp hp
    unfold rangesLoop
    split
    · -- a gap: close the run, start a new one at i
      rename_i hne
      obtain ⟨hwf, hex⟩ := ih i i (Int.le_refl _) (fun y hy => hp'.1 y hy) hp'.2
      obtain ⟨e, tl, hshape, _⟩ := rangesLoop_head rest i i
      constructor
      · rw [hshape] at hwf ⊢
        exact ⟨hbl, by show l + 1 < i; omega, hwf⟩
      · rw [expandR_cons, hex, interval_self]; rfl
    · -- consecutive: extend the run
      rename_i hne
      have hil : i = l + 1 := by omega
      obtain ⟨hwf, hex⟩ := ih b i (by omega) (fun y hy => hp'.1 y hy) hp'.2
      refine ⟨hwf, ?_⟩
      rw [hex, hil, interval_succ_right b l (by omega)]
      simp

/-- `computeRanges` of a strictly ascending non-empty list: well-formed runs that expandR to the list -/
theorem computeRanges_spec (vals : List Int) (hp : vals.Pairwise (· < ·)) :
    WFRuns (computeRanges vals) ∧ expandR (computeRanges vals) = vals := by
  cases vals with
  | nil => simp [computeRanges, WFRuns, expandR]
  | cons m rest =>
    have hp' := List.pairwise_cons.mp hp
    have := rangesLoop_spec rest m m (Int.le_refl _) hp'.1 hp'.2
    simpa [computeRanges, interval_self] using this

theorem computeRanges_ne_nil (vals : List Int) (h : vals ≠ []) : computeRanges vals ≠ [] := by
  cases vals with
  | nil => exact absurd rfl h
  | cons m rest =>
    obtain ⟨e, tl, hs, _⟩ := rangesLoop_head rest m m
    simp [computeRanges, hs]

/-- a single well-formed run expands to an interval -/
theorem expandR_single (r : Run) : expandR [r] = interval r.1 r.2 := by simp [expandR]

/-! ### the `__RANGES` table -/

def expandT (tbl : List RangeEntry) : List Int := tbl.flatMap (fun r => interval r.start r.stop)

def WFTable : List RangeEntry → Prop
  | [] => True
  | [r] => r.start ≤ r.stop
  | r :: r2 :: rest => r.start ≤ r.stop ∧ r.stop + 1 < r2.start ∧ WFTable (r2 :: rest)

/-- entry offsets: `start.wrapping_sub(k)` where `k` counts the values in earlier runs -/
def OfsOK (p : Prim) : Int → List RangeEntry → Prop
  | _, [] => True
  | k, r :: rest => r.ofs = p.wrap (r.start - p.wrap k) ∧ OfsOK p (k + (r.stop - r.start + 1)) rest

theorem WFTable.tail {r : RangeEntry} {rs : List RangeEntry} (h : WFTable (r :: rs)) : WFTable rs := by
  cases rs with
  | nil => trivial
  | cons r2 rest => exact h.2.2

theorem WFTable.head {r : RangeEntry} {rs : List RangeEntry} (h : WFTable (r :: rs)) : r.start ≤ r.stop := by
  cases rs with
  | nil => exact h
  | cons r2 rest => exact h.1

theorem expandT_cons (r : RangeEntry) (rest : List RangeEntry) :
    expandT (r :: rest) = interval r.start r.stop ++ expandT rest := by
  simp [expandT]

theorem mem_expandT (tbl : List RangeEntry) (x : Int) : x ∈ expandT tbl ↔ ∃ r ∈ tbl, r.start ≤ x ∧ x ≤ r.stop := by
  simp [expandT, mem_interval]

theorem RangeEntry.contains_iff (r : RangeEntry) (x : Int) : r.contains x = true ↔ r.start ≤ x ∧ x ≤ r.stop := by
  simp [RangeEntry.contains]

theorem WFTable.above {r : RangeEntry} {rs : List RangeEntry} (h : WFTable (r :: rs)) :
    ∀ y ∈ expandT rs, r.stop + 1 < y := by
  induction rs generalizing r with
  | nil => intro y hy; simp [expandT] at hy
  | cons r2 rest ih =>
    intro y hy
    rw [expandT_cons, List.mem_append] at hy
    rcases hy with hy | hy
    · have := (mem_interval _ _ _).mp hy; have := h.2.1; omega
    · have h2 : WFTable (r2 :: rest) := h.2.2
      have := ih h2 y hy
      have := h.2.1; have := h2.head; omega

/-- the emitted table has the runs' bounds (all inside the repr), is well-formed, expands to the
same list and carries the counting offsets -/
theorem tableRangeGo_spec (p : Prim) (hb : 1 ≤ p.bits) (runs : List Run) :
    ∀ (k : Int), WFRuns runs → (∀ r ∈ runs, p.InRange r.1 ∧ p.InRange r.2) →
      WFTable (tableRangeGo p k runs) ∧ expandT (tableRangeGo p k runs) = expandR runs ∧ OfsOK p k (tableRangeGo p k runs)
      ∧ (tableRangeGo p k runs).map (fun r => (r.start, r.stop)) = runs := by
  induction runs with
  | nil => intro k _ _; simp [tableRangeGo, WFTable, expandT, expandR, OfsOK]
  | cons r rest ih =>
    intro k hwf hin
    obtain ⟨b, e⟩ := r
    have hr := hin (b, e) (by simp)
    have hlb : lit p b = b := p.wrap_of_inRange hb b hr.1
    have hle : lit p e = e := p.wrap_of_inRange hb e hr.2
    obtain ⟨ihwf, ihex, ihofs, ihmap⟩ := ih (k + (e - b + 1)) hwf.tail (fun r' hr' => hin r' (by simp [hr']))
    simp only [tableRangeGo, hlb, hle]
    refine ⟨?_, ?_, ?_, ?_⟩
    · cases rest with
      | nil => simpa [tableRangeGo, WFTable] using hwf.head
      | cons r2 rest2 =>
        obtain ⟨b2, e2⟩ := r2
        have hr2 := hin (b2, e2) (by simp)
        have hlb2 : lit p b2 = b2 := p.wrap_of_inRange hb b2 hr2.1
        simp only [tableRangeGo, hlb2] at ihwf ⊢
        exact ⟨hwf.1, hwf.2.1, ihwf⟩
    · rw [expandT_cons, expandR_cons, ihex]
    · refine ⟨?_, ihofs⟩
      show p.wrap (b - lit p k) = p.wrap (b - p.wrap k)
      rfl
    · simp [ihmap]

end ET
