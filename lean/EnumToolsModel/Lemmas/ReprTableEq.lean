/-
The repr table of `Derive::parse` (translated on every run into Generated/ReprTable.lean) against the model's `reprTable`.
-/
import EnumToolsModel.Parse
import EnumToolsModel.Generated.ReprTable
namespace ET

/-- what one arm `(r, size, u)` of the source's repr table must say for the model's `reprTable`: `r` is a repr of the model with that
guessed size, and `u` names the *unsigned* type of exactly `r`'s width -- the companion every index computation goes through
(`.. as #repr_unsigned as usize`); a wider or signed companion sign-extends, a narrower one truncates -/
def armAgrees (t : Target) (a : String × Nat × String) : Bool :=
  match reprTable t a.1, reprTable t a.2.2 with
  | some (p, sg, ub), some (q, _, _) => sg == a.2.1 && p.bits == ub && q.bits == ub && !q.signed
  | _, _ => false

/-- the repr table as written in `parser/mod.rs` on this run is the model's: the same twelve reprs, the same size guesses, and for
every repr the unsigned companion of the same width (for every pointer width of the target) -/
theorem repr_table_source (t : Target) :
    (ET.Generated.reprArms.all (armAgrees t)) = true
    ∧ (∀ r, (reprTable t r).isSome ↔ r ∈ ET.Generated.reprArms.map (·.1)) := by
  refine ⟨?_, ?_⟩
  · simp [ET.Generated.reprArms, armAgrees, reprTable]
  · intro r
    constructor
    · intro h
      unfold reprTable at h
      split at h <;> simp_all [ET.Generated.reprArms]
    · intro h
      simp [ET.Generated.reprArms] at h
      rcases h with h | h | h | h | h | h | h | h | h | h | h | h <;> subst h <;> simp [reprTable]


end ET
