/-
Successor / predecessor in a strictly sorted list, by index.
-/
import EnumToolsModel.Lemmas.WF
namespace ET

/-- in a list sorted by an asymmetric relation, the first element related to `l[i]` is `l[i+1]` -/
theorem find_rel_getElem {α : Type} (R : α → α → Prop) [DecidableRel R] (hasym : ∀ a b, R a b → ¬ R b a)
    (l : List α) (hs : l.Pairwise R) (i : Nat) (hi : i < l.length) :
    l.find? (fun y => decide (R l[i] y)) = l[i + 1]? := by
  induction l generalizing i with
  | nil => simp at hi
  | cons a t ih =>
    have hp := List.pairwise_cons.mp hs
    cases i with
    | zero =>
      simp only [List.getElem_cons_zero]
      have hirr : ¬ R a a := fun h => hasym a a h h
      rw [List.find?_cons]
      simp only [hirr, decide_false]
      cases t with
      | nil => simp
      | cons b t' =>
        have : R a b := hp.1 b (by simp)
        simp [this]
    | succ i' =>
      have hi' : i' < t.length := by simpa using hi
      have hr : R a t[i'] := hp.1 _ (List.getElem_mem hi')
      have hn : ¬ R t[i'] a := hasym _ _ hr
      simp only [List.getElem_cons_succ]
      rw [List.find?_cons]
      simp only [hn, decide_false]
      rw [ih hp.2 i' hi']
      simp

theorem sorted_find_gt (l : List Int) (hs : l.Pairwise (· < ·)) (i : Nat) (hi : i < l.length) :
    l.find? (fun y => decide (l[i] < y)) = l[i + 1]? :=
  find_rel_getElem (· < ·) (fun a b h => by omega) l hs i hi

theorem sorted_rfind_lt (l : List Int) (hs : l.Pairwise (· < ·)) (i : Nat) (hi : i < l.length) :
    l.reverse.find? (fun y => decide (y < l[i])) = if i = 0 then none else l[i - 1]? := by
  have hr : l.reverse.Pairwise (fun a b => b < a) := List.pairwise_reverse.mpr hs
  have hlen : l.length - 1 - i < l.reverse.length := by simp; omega
  have := find_rel_getElem (fun a b : Int => b < a) (fun a b h => by omega) l.reverse hr (l.length - 1 - i) hlen
  have hget : l.reverse[l.length - 1 - i] = l[i] := by
    rw [List.getElem_reverse]; congr 1; omega
  rw [hget] at this
  rw [this]
  split
  · rename_i h0; subst h0
    simp
    omega
  · rename_i h0
    rw [List.getElem?_reverse (by omega)]
    congr 1; omega

end ET
