/-
Helper definitions and lemmas for Thm/C13.lean (the property theorems live there).
-/
import EnumToolsModel.Thm.C11
import EnumToolsModel.Thm.C10
namespace ET.Thm
open ET.Generated

theorem smapRemove_cons_eq {β : Type} (k : String) (a : String × β) (t : List (String × β)) (h : a.1 = k) :
    smapRemove k (a :: t) = (some a.2, t) := by
  obtain ⟨k0, v0⟩ := a; simp only at h; simp [smapRemove, h]

theorem smapRemove_cons_ne {β : Type} (k : String) (a : String × β) (t : List (String × β)) (h : a.1 ≠ k) :
    smapRemove k (a :: t) = ((smapRemove k t).1, a :: (smapRemove k t).2) := by
  obtain ⟨k0, v0⟩ := a; simp only at h; simp [smapRemove, h]

theorem smapRemove_other {β : Type} (k k' : String) (hne : k' ≠ k) : ∀ (l : List (String × β)),
    (k' ∈ (smapRemove k l).2.map (·.1) ↔ k' ∈ l.map (·.1)) ∧ (smapRemove k' (smapRemove k l).2).1 = (smapRemove k' l).1 := by
  intro l
  induction l with
  | nil => simp [smapRemove]
  | cons a t ih =>
    by_cases h : a.1 = k
    · have h' : a.1 ≠ k' := fun e => hne (e.symm.trans h)
      rw [smapRemove_cons_eq k a t h, smapRemove_cons_ne k' a t h']
      simp only [List.map_cons, List.mem_cons]
      refine ⟨⟨fun hh => Or.inr hh, ?_⟩, trivial⟩
      rintro (e | e)
      · exact absurd (e.trans h) hne
      · exact e
    · rw [smapRemove_cons_ne k a t h]
      simp only [List.map_cons, List.mem_cons, ih.1, true_and]
      by_cases h' : a.1 = k'
      · rw [smapRemove_cons_eq k' a _ h', smapRemove_cons_eq k' a t h']
      · rw [smapRemove_cons_ne k' a _ h', smapRemove_cons_ne k' a t h']
        exact ih.2

/-- a feature key that no `FeatureX::parse` asks for stays in the map (and `finish()` reports it) -/
theorem parseFeatures_keeps_unknown (k : String) : ∀ (specs : List FeatSpec) (fs : Features) (fm : FeatureMap) (errs : List Err),
    (∀ s ∈ specs, s.key ≠ k) → k ∈ fm.map (·.1) → k ∈ (parseFeatures specs fs fm errs).2.1.map (·.1) := by
  intro specs
  induction specs with
  | nil => intro fs fm errs _ h; simpa [parseFeatures] using h
  | cons s rest ih =>
    intro fs fm errs hk h
    unfold parseFeatures
    simp only
    apply ih _ _ _ (fun s' hs' => hk s' (by simp [hs']))
    have hne : k ≠ s.key := fun e => hk s (by simp) e.symm
    unfold parseFeature
    cases hr : smapRemove s.key fm with
    | mk r fm' =>
      have := (smapRemove_other s.key k hne fm).1.mpr h
      rw [hr] at this
      cases r <;> simpa using this

theorem getVis_snd (pm : ParamMap) : (getVis pm).2.1 = (smapRemove "vis" pm).2 := by
  unfold getVis
  split <;> simp_all

theorem getStrOpt_snd (key : String) (pm : ParamMap) : (getStrOpt key pm).2.1 = (smapRemove key pm).2 := by
  unfold getStrOpt
  split <;> simp_all

theorem getStrOpt_keeps (key k : String) (hne : k ≠ key) (pm : ParamMap) :
    (k ∈ (getStrOpt key pm).2.1.map (·.1) ↔ k ∈ pm.map (·.1)) ∧ (smapRemove k (getStrOpt key pm).2.1).1 = (smapRemove k pm).1 := by
  rw [getStrOpt_snd]; exact smapRemove_other key k hne pm

theorem getVis_keeps (k : String) (hne : k ≠ "vis") (pm : ParamMap) :
    (k ∈ (getVis pm).2.1.map (·.1) ↔ k ∈ pm.map (·.1)) ∧ (smapRemove k (getVis pm).2.1).1 = (smapRemove k pm).1 := by
  rw [getVis_snd]; exact smapRemove_other "vis" k hne pm

/-- which parameter names a feature asks for -/
def asksFor (spec : FeatSpec) (k : String) : Prop :=
  (spec.hasVisName = true ∧ (k = "vis" ∨ k = "name")) ∨ spec.structKey = some k ∨ (spec.modeKind ≠ .none ∧ k = "mode")

/-- a parameter the feature does not ask for survives all three steps, with its value -/
theorem steps_keep (spec : FeatSpec) (k : String) (hk : ¬ asksFor spec k) (pm : ParamMap) :
    let pm3 := (stepMode spec (stepStruct spec (stepVisName spec pm).2.2.1).2.1).2.1
    (k ∈ pm3.map (·.1) ↔ k ∈ pm.map (·.1)) ∧ (smapRemove k pm3).1 = (smapRemove k pm).1 := by
  unfold asksFor at hk
  simp only [not_or, not_and] at hk
  obtain ⟨h1, h2, h3⟩ := hk
  -- step 1
  have s1 : (k ∈ (stepVisName spec pm).2.2.1.map (·.1) ↔ k ∈ pm.map (·.1)) ∧ (smapRemove k (stepVisName spec pm).2.2.1).1 = (smapRemove k pm).1 := by
    unfold stepVisName
    by_cases hv : spec.hasVisName = true
    · have := h1 hv
      rw [if_pos hv]
      have a := getVis_keeps k this.1 pm
      have b := getStrOpt_keeps "name" k this.2 (getVis pm).2.1
      exact ⟨b.1.trans a.1, b.2.trans a.2⟩
    · simp [hv]
  -- step 2
  have s2 : ∀ q : ParamMap, (k ∈ (stepStruct spec q).2.1.map (·.1) ↔ k ∈ q.map (·.1)) ∧ (smapRemove k (stepStruct spec q).2.1).1 = (smapRemove k q).1 := by
    intro q
    unfold stepStruct
    cases hs : spec.structKey with
    | none => exact ⟨Iff.rfl, rfl⟩
    | some sk =>
      have : k ≠ sk := fun e => h2 (by rw [hs, e])
      exact getStrOpt_keeps sk k this q
  -- step 3
  have s3 : ∀ q : ParamMap, (k ∈ (stepMode spec q).2.1.map (·.1) ↔ k ∈ q.map (·.1)) ∧ (smapRemove k (stepMode spec q).2.1).1 = (smapRemove k q).1 := by
    intro q
    unfold stepMode
    cases hm : spec.modeKind with
    | none => exact ⟨Iff.rfl, rfl⟩
    | m3 =>
      have : k ≠ "mode" := h3 (by simp [hm])
      have g := getStrOpt_keeps "mode" k this q
      simp only; split <;> exact g
    | iter =>
      have : k ≠ "mode" := h3 (by simp [hm])
      have g := getStrOpt_keeps "mode" k this q
      simp only; split <;> exact g
  exact ⟨(s3 _).1.trans ((s2 _).1.trans s1.1), (s3 _).2.trans ((s2 _).2.trans s1.2)⟩

theorem parseParams_errs : ∀ (ps : List Param) (pm : ParamMap) (errs : List Err) (r : ParamMap × List Err),
    parseParams pm errs ps = some r → ∃ e, r.2 = errs ++ e := by
  intro ps
  induction ps with
  | nil => intro pm errs r h; simp [parseParams] at h; subst h; exact ⟨[], by simp⟩
  | cons p rest ih =>
    intro pm errs r h
    cases p with
    | other =>
      obtain ⟨e, he⟩ := ih _ _ r (by simpa [parseParams] using h)
      exact ⟨Err.unsupportedAttributeType :: e, by rw [he]; simp⟩
    | flag q =>
      cases q with
      | complex => simp [parseParams] at h
      | simple n =>
        simp only [parseParams] at h
        obtain ⟨e, he⟩ := ih _ _ r h
        split at he
        · exact ⟨_, by rw [he, List.append_assoc]⟩
        · exact ⟨e, he⟩
    | nameLit q l =>
      cases q with
      | complex => simp [parseParams] at h
      | simple n =>
        simp only [parseParams] at h
        obtain ⟨e, he⟩ := ih _ _ r h
        split at he
        · exact ⟨_, by rw [he, List.append_assoc]⟩
        · exact ⟨e, he⟩

theorem parseItems_errs : ∀ (items : List CfgItem) (fm : FeatureMap) (errs : List Err) (r : FeatureMap × List Err),
    parseItems fm errs items = some r → ∃ e, r.2 = errs ++ e := by
  intro items
  induction items with
  | nil => intro fm errs r h; simp [parseItems] at h; subst h; exact ⟨[], by simp⟩
  | cons it rest ih =>
    intro fm errs r h
    cases it with
    | other =>
      obtain ⟨e, he⟩ := ih _ _ r (by simpa [parseItems] using h)
      exact ⟨Err.unsupportedAttributeType :: e, by rw [he]; simp⟩
    | path q =>
      cases q with
      | complex => simp [parseItems] at h
      | simple n =>
        simp only [parseItems] at h
        obtain ⟨e, he⟩ := ih _ _ r h
        split at he
        · exact ⟨_, by rw [he, List.append_assoc]⟩
        · exact ⟨e, he⟩
    | list q ps =>
      cases q with
      | complex => cases ps <;> simp [parseItems] at h
      | simple n =>
        cases ps with
        | none => simp [parseItems] at h
        | some l =>
          simp only [parseItems] at h
          cases hp : parseParams [] errs l with
          | none => rw [hp] at h; cases h
          | some rp =>
            rw [hp] at h
            obtain ⟨e1, he1⟩ := parseParams_errs l [] errs rp hp
            simp only at h
            obtain ⟨e2, he2⟩ := ih _ _ r h
            split at he2
            · exact ⟨e1 ++ ([Err.duplicateFeature] ++ e2), by rw [he2, he1]; simp⟩
            · exact ⟨e1 ++ e2, by rw [he2, he1]; simp⟩

theorem smapInsert_dup_iff {β : Type} (k : String) (v : β) : ∀ (l : List (String × β)), (smapInsert k v l).2 = true ↔ k ∈ l.map (·.1) := by
  intro l
  induction l with
  | nil => simp [smapInsert]
  | cons a t ih =>
    unfold smapInsert
    by_cases h : a.1 = k
    · simp [h]
    · simp only [h, if_false, List.map_cons, List.mem_cons, ih]
      constructor
      · intro hh; exact Or.inr hh
      · rintro (e | e); exact absurd e.symm h; exact e


end ET.Thm
