/-
`values.sort_by_key(|v| v.0)` applied to the entries of a map whose keys are distinct: the result
does not depend on the order in which the map yields them.
-/
import EnumToolsModel.Lemmas.SortedExt
import EnumToolsModel.Parse
namespace ET

def keyLt {β : Type} (a b : Int × β) : Prop := a.1 < b.1

theorem sortByKey_perm {β : Type} (l : List (Int × β)) : (sortByKey l).Perm l := List.mergeSort_perm _ _

theorem sortByKey_le {β : Type} (l : List (Int × β)) : (sortByKey l).Pairwise (fun a b => a.1 ≤ b.1) := by
  have := List.pairwise_mergeSort (le := fun (a b : Int × β) => decide (a.1 ≤ b.1))
    (fun a b c h1 h2 => by simp only [decide_eq_true_eq] at *; omega)
    (fun a b => by simp only [Bool.or_eq_true, decide_eq_true_eq]; omega) l
  exact this.imp (fun h => by simpa using h)

/-- distinct keys: the sort is strict -/
theorem sortByKey_lt {β : Type} (l : List (Int × β)) (hn : (l.map (·.1)).Nodup) : (sortByKey l).Pairwise keyLt := by
  have hle := sortByKey_le l
  have hnd : ((sortByKey l).map (·.1)).Nodup := ((sortByKey_perm l).map _).nodup_iff.mpr hn
  have hne : (sortByKey l).Pairwise (fun a b => a.1 ≠ b.1) := by
    rw [List.Nodup, List.pairwise_map] at hnd; exact hnd
  exact (hle.and hne).imp (fun ⟨h1, h2⟩ => by unfold keyLt; omega)

/-- the sorted vector is a function of the *set* of entries -/
theorem sortByKey_perm_invariant {β : Type} (l1 l2 : List (Int × β)) (hp : l1.Perm l2) (hn : (l1.map (·.1)).Nodup) :
    sortByKey l1 = sortByKey l2 := by
  have hn2 : (l2.map (·.1)).Nodup := (hp.map _).nodup_iff.mp hn
  apply sorted_ext keyLt (fun a b h => by unfold keyLt at *; omega) _ _ (sortByKey_lt l1 hn) (sortByKey_lt l2 hn2)
  intro x
  rw [(sortByKey_perm l1).mem_iff, (sortByKey_perm l2).mem_iff, hp.mem_iff]

/-- `HashMap::insert` keeps keys distinct -/
theorem assocInsert_keys {β : Type} (k : Int) (v : β) (l : List (Int × β)) :
    (assocInsert k v l).1.map (·.1) = if (assocInsert k v l).2 then l.map (·.1) else l.map (·.1) ++ [k] := by
  induction l with
  | nil => simp [assocInsert]
  | cons a t ih =>
    unfold assocInsert
    by_cases h : a.1 = k
    · simp [h]
    · simp only [h, if_false]
      split at ih <;> simp_all

theorem assocInsert_dup_iff {β : Type} (k : Int) (v : β) (l : List (Int × β)) :
    (assocInsert k v l).2 = true ↔ k ∈ l.map (·.1) := by
  induction l with
  | nil => simp [assocInsert]
  | cons a t ih =>
    unfold assocInsert
    by_cases h : a.1 = k
    · simp [h]
    · simp only [h, if_false, List.map_cons, List.mem_cons]
      rw [ih]
      constructor
      · intro hh; exact Or.inr hh
      · rintro (e | e)
        · exact absurd e.symm h
        · exact e

theorem assocInsert_nodup {β : Type} (k : Int) (v : β) (l : List (Int × β)) (hn : (l.map (·.1)).Nodup) :
    ((assocInsert k v l).1.map (·.1)).Nodup := by
  rw [assocInsert_keys]
  split
  · exact hn
  · rename_i hd
    have : k ∉ l.map (·.1) := fun hh => hd ((assocInsert_dup_iff k v l).mpr hh)
    exact List.nodup_append.mpr ⟨hn, by simp, by intro a ha b hb; simp at hb; subst hb; intro e; subst e; exact this ha⟩

/-- a loop iteration either leaves the map alone or inserts one entry -/
theorem pvStep_values (sorted : Sorted) (st st' : PV) (v : Variant) (h : pvStep sorted st v = some st') :
    st'.values = st.values ∨ ∃ i x, st'.values = (assocInsert i x st.values).1 := by
  unfold pvStep at h
  cases hp : processAttrs v.ident [] v.attrs with
  | none => rw [hp] at h; cases h
  | some r =>
    obtain ⟨name, aerrs⟩ := r
    rw [hp] at h
    simp only at h
    cases hd : v.disc with
    | none =>
      rw [hd] at h
      simp only [Option.some.injEq] at h
      subst h
      exact Or.inr ⟨wrapI64 (st.last + 1), (v.ident, name), by simp [insertValue]⟩
    | some d =>
      rw [hd] at h
      simp only at h
      cases hr : readDisc d with
      | error e =>
        rw [hr] at h
        simp only [Option.some.injEq] at h
        subst h; exact Or.inl rfl
      | ok i =>
        rw [hr] at h
        simp only [Option.some.injEq] at h
        subst h
        exact Or.inr ⟨i, (v.ident, name), by simp [insertValue]⟩

theorem pvStep_nodup (sorted : Sorted) (st st' : PV) (v : Variant) (h : pvStep sorted st v = some st')
    (hn : (st.values.map (·.1)).Nodup) : (st'.values.map (·.1)).Nodup := by
  rcases pvStep_values sorted st st' v h with e | ⟨i, x, e⟩
  · rw [e]; exact hn
  · rw [e]; exact assocInsert_nodup _ _ _ hn

theorem pvLoop_nodup (sorted : Sorted) : ∀ (vs : List Variant) (st st' : PV), pvLoop sorted st vs = some st' →
    (st.values.map (·.1)).Nodup → (st'.values.map (·.1)).Nodup := by
  intro vs
  induction vs with
  | nil => intro st st' h hn; simp [pvLoop] at h; subst h; exact hn
  | cons v rest ih =>
    intro st st' h hn
    unfold pvLoop at h
    cases hs : pvStep sorted st v with
    | none => rw [hs] at h; cases h
    | some st1 => rw [hs] at h; exact ih st1 st' h (pvStep_nodup sorted st st1 v hs hn)

end ET
