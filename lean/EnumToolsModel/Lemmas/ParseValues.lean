import EnumToolsModel.Lemmas.SortKey
import EnumToolsModel.Spec
namespace ET

/-- the documented domain of a discriminant expression: an (optionally negated) integer literal within i64 -/
def DiscExpr.InDomain : DiscExpr → Prop
  | .intLit n => (n : Int) ≤ i64Max
  | .neg true (.intLit n) => -(n : Int) ≥ i64Min
  | _ => False

theorem readDisc_intLit (n : Nat) (i : Int) : readDisc (.intLit n) = .ok i ↔ (n : Int) ≤ i64Max ∧ (n : Int) = i := by
  unfold readDisc
  simp only [Bool.false_eq_true, if_false]
  by_cases hc : i64Min ≤ (n : Int) ∧ (n : Int) ≤ i64Max
  · simp [hc]
  · simp only [hc, if_false]
    constructor
    · intro h; cases h
    · intro h; exfalso; apply hc; unfold i64Min at *; exact ⟨by omega, h.1⟩

theorem readDisc_neg (n : Nat) (i : Int) : readDisc (.neg true (.intLit n)) = .ok i ↔ -(n : Int) ≥ i64Min ∧ -(n : Int) = i := by
  unfold readDisc
  simp only [if_true]
  by_cases hc : i64Min ≤ -(n : Int) ∧ -(n : Int) ≤ i64Max
  · simp [hc]
  · simp only [hc, if_false]
    constructor
    · intro h; cases h
    · intro h; exfalso; apply hc; unfold i64Max at *; exact ⟨h.1, by omega⟩

theorem readDisc_ok_iff (d : DiscExpr) (i : Int) : readDisc d = .ok i ↔ d.InDomain ∧ d.value? = some i := by
  cases d with
  | intLit n => rw [readDisc_intLit]; simp [DiscExpr.InDomain, DiscExpr.value?]
  | other => simp [readDisc, DiscExpr.InDomain, DiscExpr.value?]
  | neg a e =>
    cases a with
    | false => cases e <;> simp [readDisc, DiscExpr.InDomain, DiscExpr.value?]
    | true =>
      cases e with
      | intLit n => rw [readDisc_neg]; simp [DiscExpr.InDomain, DiscExpr.value?]
      | other => simp [readDisc, DiscExpr.InDomain, DiscExpr.value?]
      | neg a' e' => simp [readDisc, DiscExpr.InDomain, DiscExpr.value?]

end ET

namespace ET

def Variant.attrsOk (v : Variant) : Prop := ∀ a ∈ v.attrs, a = .foreign ∨ ∃ s, a = .rename s

theorem processAttrs_spec (attrs : List VAttr) : ∀ (name : Name) (errs : List Err),
    (∀ r, processAttrs name errs attrs = some r →
      r.1 = attrs.foldl (fun acc a => match a with | .rename s => s | _ => acc) name ∧ ∃ e, r.2 = errs ++ e ∧
        (e = [] ↔ ∀ a ∈ attrs, a = .foreign ∨ ∃ s, a = .rename s)) ∧
    ((∀ a ∈ attrs, a = .foreign ∨ ∃ s, a = .rename s) → ∃ r, processAttrs name errs attrs = some r) := by
  induction attrs with
  | nil =>
    intro name errs
    refine ⟨fun r h => ?_, fun _ => ⟨_, rfl⟩⟩
    simp [processAttrs] at h; subst h; exact ⟨rfl, [], by simp, by simp⟩
  | cons a rest ih =>
    intro name errs
    cases a with
    | foreign =>
      obtain ⟨h1, h2⟩ := ih name errs
      refine ⟨fun r h => ?_, fun hok => h2 (fun a ha => hok a (by simp [ha]))⟩
      obtain ⟨e1, e, e2, e3⟩ := h1 r (by simpa [processAttrs] using h)
      exact ⟨by simpa using e1, e, e2, by rw [e3]; simp⟩
    | rename s =>
      obtain ⟨h1, h2⟩ := ih s errs
      refine ⟨fun r h => ?_, fun hok => by simpa [processAttrs] using h2 (fun a ha => hok a (by simp [ha]))⟩
      obtain ⟨e1, e, e2, e3⟩ := h1 r (by simpa [processAttrs] using h)
      exact ⟨by simpa using e1, e, e2, by rw [e3]; simp⟩
    | badEmit =>
      obtain ⟨h1, _⟩ := ih name (errs ++ [.unsupportedAttributeType])
      refine ⟨fun r h => ?_, fun hok => by have := hok .badEmit (by simp); simp at this⟩
      obtain ⟨e1, e, e2, _⟩ := h1 r (by simpa [processAttrs] using h)
      refine ⟨by simpa using e1, .unsupportedAttributeType :: e, by rw [e2]; simp, ?_⟩
      constructor
      · intro h; cases h
      · intro h; have := h .badEmit (by simp); simp at this
    | badAbort =>
      refine ⟨fun r h => by simp [processAttrs] at h, fun hok => by have := hok .badAbort (by simp); simp at this⟩

/-- attributes of the documented forms: the name is the last rename (else the identifier), no error -/
theorem processAttrs_ok_iff (v : Variant) :
    processAttrs v.ident [] v.attrs = some (v.name, []) ↔ v.attrsOk := by
  obtain ⟨h1, h2⟩ := processAttrs_spec v.attrs v.ident []
  constructor
  · intro h
    obtain ⟨_, e, e2, e3⟩ := h1 _ h
    simp only [List.nil_append] at e2
    exact e3.mp e2.symm
  · intro hok
    obtain ⟨r, hr⟩ := h2 hok
    obtain ⟨e1, e, e2, e3⟩ := h1 r hr
    have : e = [] := e3.mpr hok
    rw [hr]; congr 1
    apply Prod.ext
    · rw [e1]; rfl
    · simp [e2, this]

end ET

namespace ET

/-- the discriminant the language assigns to the next variant, when it is in the documented domain -/
def StepDisc (last : Int) (v : Variant) (i : Int) : Prop :=
  match v.disc with
  | some d => d.InDomain ∧ d.value? = some i
  | none => last ≠ i64Max ∧ i = last + 1

/-- the state after a variant with discriminant `i` was accepted without complaint -/
def PV.push (sorted : Sorted) (st : PV) (v : Variant) (i : Int) : PV :=
  { values := st.values ++ [(i, (v.ident, v.name))], last := i, lastName := nextLastName sorted st.lastName v.name, errs := st.errs }

theorem append_eq_self_iff {α : Type} (a b : List α) : a ++ b = a ↔ b = [] := List.append_right_eq_self

theorem assocInsert_fresh {β : Type} (k : Int) (v : β) (l : List (Int × β)) (h : k ∉ l.map (·.1)) :
    assocInsert k v l = (l ++ [(k, v)], false) := by
  induction l with
  | nil => rfl
  | cons a t ih =>
    simp only [List.map_cons, List.mem_cons, not_or] at h
    unfold assocInsert
    have : ¬ (a.1 = k) := fun e => h.1 e.symm
    simp [this, ih h.2]

theorem wrapI64_id (x : Int) (h1 : i64Min ≤ x) (h2 : x ≤ i64Max) : wrapI64 x = x := by
  unfold wrapI64
  unfold i64Min i64Max at *
  apply Int.bmod_eq_of_le <;> omega

/-- a loop iteration that emits no error: exactly the variants of the documented form, with a fresh
discriminant, in order when `sorted` asks for it -/
theorem pvStep_clean_iff (sorted : Sorted) (st st' : PV) (v : Variant) (hl1 : i64Min ≤ st.last) (hl2 : st.last ≤ i64Max) :
    (pvStep sorted st v = some st' ∧ st'.errs = st.errs) ↔
    (v.attrsOk ∧ v.fields = .unit ∧ nameSortErrs sorted st.lastName v.name = [] ∧
      ∃ i, StepDisc st.last v i ∧ (v.disc.isSome = true → valueSortErrs sorted st i = []) ∧ i ∉ st.values.map (·.1) ∧
        st' = st.push sorted v i) := by
  constructor
  · rintro ⟨hstep, herrs⟩
    unfold pvStep at hstep
    cases hp : processAttrs v.ident [] v.attrs with
    | none => rw [hp] at hstep; cases hstep
    | some r =>
      obtain ⟨name, aerrs⟩ := r
      rw [hp] at hstep
      simp only at hstep
      obtain ⟨hname, e, he, hiff⟩ := (processAttrs_spec v.attrs v.ident []).1 _ hp
      simp only [List.nil_append] at he
      have hname' : name = v.name := hname
      subst hname'
      cases hd : v.disc with
      | none =>
        rw [hd] at hstep
        simp only [Option.some.injEq] at hstep
        subst hstep
        -- the error list did not grow
        unfold insertValue at herrs
        cases hins : assocInsert (wrapI64 (st.last + 1)) (v.ident, v.name) st.values with
        | mk vals dup =>
          rw [hins] at herrs
          simp only at herrs
          have hdupF : dup = false := by
            cases dup with
            | false => rfl
            | true =>
              simp only [if_true, List.append_assoc, List.append_right_eq_self, List.append_eq_nil_iff] at herrs
              simp at herrs
          subst hdupF
          simp only [Bool.false_eq_true, if_false, List.append_assoc, List.append_right_eq_self, List.append_eq_nil_iff] at herrs
          obtain ⟨hf, ha, hn, ho⟩ := herrs
          have hfu : v.fields = .unit := by
            unfold fieldErrs at hf; by_cases h : v.fields = .unit; exact h; simp [h] at hf
          have hnomax : st.last ≠ i64Max := by
            intro e; simp [e] at ho
          have hattrs : v.attrsOk := hiff.mp (by rw [he] at ha; exact ha)
          have hw : wrapI64 (st.last + 1) = st.last + 1 := wrapI64_id _ (by omega) (by omega)
          have hfresh : st.last + 1 ∉ st.values.map (·.1) := by
            intro hm
            have := (assocInsert_dup_iff (st.last + 1) (v.ident, v.name) st.values).mpr hm
            rw [hw] at hins; rw [hins] at this; cases this
          refine ⟨hattrs, hfu, hn, st.last + 1, ?_, by simp, hfresh, ?_⟩
          · unfold StepDisc; rw [hd]; exact ⟨hnomax, rfl⟩
          · unfold insertValue PV.push
            rw [hw, assocInsert_fresh _ _ _ hfresh]
            simp only [Bool.false_eq_true, if_false]
            congr 1
            rw [hf, ha, hn, ho]; simp
      | some d =>
        rw [hd] at hstep
        simp only at hstep
        cases hr : readDisc d with
        | error e' =>
          rw [hr] at hstep
          simp only [Option.some.injEq] at hstep
          subst hstep
          simp only [List.append_assoc, List.append_right_eq_self, List.append_eq_nil_iff] at herrs
          simp at herrs
        | ok i =>
          rw [hr] at hstep
          simp only [Option.some.injEq] at hstep
          subst hstep
          unfold insertValue at herrs
          cases hins : assocInsert i (v.ident, v.name) st.values with
          | mk vals dup =>
            rw [hins] at herrs
            simp only at herrs
            have hdupF : dup = false := by
              cases dup with
              | false => rfl
              | true =>
                simp only [if_true, List.append_assoc, List.append_right_eq_self, List.append_eq_nil_iff] at herrs
                simp at herrs
            subst hdupF
            simp only [Bool.false_eq_true, if_false, List.append_assoc, List.append_right_eq_self, List.append_eq_nil_iff] at herrs
            obtain ⟨hf, ha, hn, hvs⟩ := herrs
            have hfu : v.fields = .unit := by
              unfold fieldErrs at hf; by_cases h : v.fields = .unit; exact h; simp [h] at hf
            have hattrs : v.attrsOk := hiff.mp (by rw [he] at ha; exact ha)
            have hfresh : i ∉ st.values.map (·.1) := by
              intro hm
              have := (assocInsert_dup_iff i (v.ident, v.name) st.values).mpr hm
              rw [hins] at this; cases this
            have hdom := (readDisc_ok_iff d i).mp hr
            refine ⟨hattrs, hfu, hn, i, ?_, fun _ => hvs, hfresh, ?_⟩
            · unfold StepDisc; rw [hd]; exact hdom
            · unfold insertValue PV.push
              rw [assocInsert_fresh _ _ _ hfresh]
              simp only [Bool.false_eq_true, if_false]
              congr 1
              rw [hf, ha, hn, hvs]; simp
  · rintro ⟨hattrs, hfu, hn, i, hsd, hvs, hfresh, rfl⟩
    have hp := (processAttrs_ok_iff v).mpr hattrs
    have hf : fieldErrs v = [] := by simp [fieldErrs, hfu]
    unfold pvStep
    rw [hp]
    simp only
    unfold StepDisc at hsd
    cases hd : v.disc with
    | none =>
      rw [hd] at hsd
      simp only
      obtain ⟨hnomax, rfl⟩ := hsd
      have hw : wrapI64 (st.last + 1) = st.last + 1 := wrapI64_id _ (by omega) (by omega)
      refine ⟨?_, rfl⟩
      unfold insertValue PV.push
      rw [hw, assocInsert_fresh _ _ _ hfresh]
      simp [hf, hn, hnomax]
    | some d =>
      rw [hd] at hsd
      simp only
      have hr := (readDisc_ok_iff d i).mpr hsd
      rw [hr]
      simp only
      have hv := hvs (by simp [hd])
      refine ⟨?_, rfl⟩
      unfold insertValue PV.push
      rw [assocInsert_fresh _ _ _ hfresh]
      simp [hf, hn, hv]

end ET


namespace ET


theorem pvStep_errs_prefix (sorted : Sorted) (st st' : PV) (v : Variant) (h : pvStep sorted st v = some st') :
    ∃ e, st'.errs = st.errs ++ e := by
  unfold pvStep at h
  cases hp : processAttrs v.ident [] v.attrs with
  | none => rw [hp] at h; cases h
  | some r =>
    obtain ⟨name, aerrs⟩ := r
    rw [hp] at h
    simp only at h
    cases hd : v.disc with
    | none =>
      rw [hd] at h
      simp only [Option.some.injEq] at h
      subst h
      unfold insertValue
      cases assocInsert (wrapI64 (st.last + 1)) (v.ident, name) st.values with
      | mk vals dup => cases dup <;> simp only [List.append_assoc] <;> exact ⟨_, rfl⟩
    | some d =>
      rw [hd] at h
      simp only at h
      cases hr : readDisc d with
      | error e' =>
        rw [hr] at h; simp only [Option.some.injEq] at h; subst h
        simp only [List.append_assoc]; exact ⟨_, rfl⟩
      | ok i =>
        rw [hr] at h; simp only [Option.some.injEq] at h; subst h
        unfold insertValue
        cases assocInsert i (v.ident, name) st.values with
        | mk vals dup => cases dup <;> simp only [List.append_assoc] <;> exact ⟨_, rfl⟩

theorem pvLoop_errs_prefix (sorted : Sorted) : ∀ (vs : List Variant) (st st' : PV), pvLoop sorted st vs = some st' →
    ∃ e, st'.errs = st.errs ++ e := by
  intro vs
  induction vs with
  | nil => intro st st' h; simp [pvLoop] at h; subst h; exact ⟨[], by simp⟩
  | cons v rest ih =>
    intro st st' h
    unfold pvLoop at h
    cases hs : pvStep sorted st v with
    | none => rw [hs] at h; cases h
    | some st1 =>
      rw [hs] at h
      obtain ⟨e1, he1⟩ := pvStep_errs_prefix sorted st st1 v hs
      obtain ⟨e2, he2⟩ := ih st1 st' h
      exact ⟨e1 ++ e2, by rw [he2, he1, List.append_assoc]⟩

theorem StepDisc_range (last : Int) (v : Variant) (i : Int) (h : StepDisc last v i) (hl1 : i64Min ≤ last) (hl2 : last ≤ i64Max) :
    i64Min ≤ i ∧ i ≤ i64Max := by
  unfold StepDisc at h
  cases hd : v.disc with
  | none => rw [hd] at h; obtain ⟨h1, rfl⟩ := h; constructor <;> omega
  | some d =>
    rw [hd] at h
    obtain ⟨hdom, hval⟩ := h
    cases d with
    | intLit n =>
      simp only [DiscExpr.InDomain, DiscExpr.value?, Option.some.injEq] at hdom hval
      subst hval; unfold i64Min; constructor <;> omega
    | other => simp [DiscExpr.InDomain] at hdom
    | neg a e =>
      cases a with
      | false => cases e <;> simp [DiscExpr.InDomain] at hdom
      | true =>
        cases e with
        | intLit n =>
          simp only [DiscExpr.InDomain, DiscExpr.value?, Option.some.injEq] at hdom hval
          subst hval; unfold i64Max; constructor <;> omega
        | other => simp [DiscExpr.InDomain] at hdom
        | neg a' e' => simp [DiscExpr.InDomain] at hdom

/-- a whole run of the loop without complaint, unrolled -/
def CleanFrom (sorted : Sorted) : PV → List Variant → PV → Prop
  | st, [], st' => st' = st
  | st, v :: rest, st' =>
    v.attrsOk ∧ v.fields = .unit ∧ nameSortErrs sorted st.lastName v.name = [] ∧
      ∃ i, StepDisc st.last v i ∧ (v.disc.isSome = true → valueSortErrs sorted st i = []) ∧ i ∉ st.values.map (·.1) ∧
        CleanFrom sorted (st.push sorted v i) rest st'

theorem pvLoop_clean_iff (sorted : Sorted) : ∀ (vs : List Variant) (st st' : PV), i64Min ≤ st.last → st.last ≤ i64Max →
    ((pvLoop sorted st vs = some st' ∧ st'.errs = st.errs) ↔ CleanFrom sorted st vs st') := by
  intro vs
  induction vs with
  | nil =>
    intro st st' _ _
    simp only [pvLoop, Option.some.injEq, CleanFrom]
    constructor
    · rintro ⟨h, _⟩; exact h.symm
    · intro h; subst h; exact ⟨rfl, rfl⟩
  | cons v rest ih =>
    intro st st' hl1 hl2
    unfold pvLoop CleanFrom
    constructor
    · rintro ⟨h, herrs⟩
      cases hs : pvStep sorted st v with
      | none => rw [hs] at h; cases h
      | some st1 =>
        rw [hs] at h
        obtain ⟨e1, he1⟩ := pvStep_errs_prefix sorted st st1 v hs
        obtain ⟨e2, he2⟩ := pvLoop_errs_prefix sorted rest st1 st' h
        have hnil : e1 = [] ∧ e2 = [] := by
          rw [he2, he1, List.append_assoc, List.append_right_eq_self, List.append_eq_nil_iff] at herrs; exact herrs
        have hst1 : st1.errs = st.errs := by rw [he1, hnil.1]; simp
        obtain ⟨ha, hf, hn, i, hsd, hv, hfresh, hpush⟩ := (pvStep_clean_iff sorted st st1 v hl1 hl2).mp ⟨hs, hst1⟩
        have hr := StepDisc_range st.last v i hsd hl1 hl2
        refine ⟨ha, hf, hn, i, hsd, hv, hfresh, ?_⟩
        rw [← hpush]
        apply (ih st1 st' (by rw [hpush]; exact hr.1) (by rw [hpush]; exact hr.2)).mp
        exact ⟨h, by rw [herrs, hst1]⟩
    · rintro ⟨ha, hf, hn, i, hsd, hv, hfresh, hrest⟩
      have hstep := (pvStep_clean_iff sorted st (st.push sorted v i) v hl1 hl2).mpr ⟨ha, hf, hn, i, hsd, hv, hfresh, rfl⟩
      have hr := StepDisc_range st.last v i hsd hl1 hl2
      rw [hstep.1]
      have := (ih (st.push sorted v i) st' hr.1 hr.2).mpr hrest
      exact ⟨this.1, by rw [this.2]; rfl⟩



/-- entries the loop adds for a clean run: `(discriminant, (ident, name))` per variant -/
def entriesOf (vs : List Variant) (l : List (Int × Name)) : List (Int × (Name × Name)) :=
  List.zipWith (fun v p => (p.1, (v.ident, p.2))) vs l

/-- a clean run reads off exactly the discriminants the language assigns -/
theorem clean_discs (sorted : Sorted) : ∀ (vs : List Variant) (st st' : PV), CleanFrom sorted st vs st' →
    (∀ v ∈ vs, v.attrsOk ∧ v.fields = .unit ∧ (∀ d, v.disc = some d → d.InDomain)) ∧
    ∃ l, rustcDiscs (st.last + 1) vs = some l ∧ l.length = vs.length ∧
      st'.values = st.values ++ entriesOf vs l ∧ st'.errs = st.errs ∧
      (∀ p ∈ l, p.1 ∉ st.values.map (·.1)) ∧ (l.map (·.1)).Nodup ∧
      (i64Min ≤ st.last → st.last ≤ i64Max → ∀ p ∈ l, i64Min ≤ p.1 ∧ p.1 ≤ i64Max) := by
  intro vs
  induction vs with
  | nil =>
    intro st st' h
    simp only [CleanFrom] at h; subst h
    exact ⟨by simp, [], rfl, rfl, by simp [entriesOf], rfl, by simp, by simp, by simp⟩
  | cons v rest ih =>
    intro st st' h
    obtain ⟨ha, hf, hn, i, hsd, hv, hfresh, hrest⟩ := h
    obtain ⟨hforms, l, hl, hlen, hvals, herrs, hnotin, hnd, hrange⟩ := ih _ _ hrest
    have hdom : ∀ d, v.disc = some d → d.InDomain := by
      intro d hd; unfold StepDisc at hsd; rw [hd] at hsd; exact hsd.1
    have hlast : (st.push sorted v i).last = i := rfl
    rw [hlast] at hl hrange
    have hr : rustcDiscs (st.last + 1) (v :: rest) = some ((i, v.name) :: l) := by
      unfold rustcDiscs
      unfold StepDisc at hsd
      cases hd : v.disc with
      | none => rw [hd] at hsd; obtain ⟨_, rfl⟩ := hsd; simp [hl]
      | some d => rw [hd] at hsd; simp [hsd.2, hl]
    refine ⟨?_, (i, v.name) :: l, hr, by simp [hlen], ?_, by rw [herrs]; rfl, ?_, ?_, ?_⟩
    · intro w hw
      rcases List.mem_cons.mp hw with e | e
      · subst e; exact ⟨ha, hf, hdom⟩
      · exact hforms w e
    · rw [hvals]; simp [PV.push, entriesOf]
    · intro p hp
      rcases List.mem_cons.mp hp with e | e
      · subst e; exact hfresh
      · intro hm; apply hnotin p e; simp [PV.push]; exact Or.inl (by simpa using hm)
    · simp only [List.map_cons, List.nodup_cons]
      refine ⟨?_, hnd⟩
      intro hm
      obtain ⟨p, hp, hpe⟩ := List.mem_map.mp hm
      apply hnotin p hp
      simp [PV.push, hpe]
    · intro h1 h2 p hp
      have hir := StepDisc_range st.last v i hsd h1 h2
      rcases List.mem_cons.mp hp with e | e
      · subst e; exact hir
      · exact hrange hir.1 hir.2 p e

end ET
