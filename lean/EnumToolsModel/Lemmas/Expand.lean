/-
Anatomy of an accepted derive (`expand t d = .ok x`), the insertion sort of the specification, and
the bridge between the value list the macro computes and the meaning of the declaration.
-/
import EnumToolsModel.Lemmas.ParseValues
import EnumToolsModel.Lemmas.WF
import EnumToolsModel.Macro
namespace ET

theorem parseFeatures_errs_prefix : ∀ (specs : List FeatSpec) (fs : Features) (fm : FeatureMap) (errs : List Err),
    ∃ e, (parseFeatures specs fs fm errs).2.2 = errs ++ e := by
  intro specs
  induction specs with
  | nil => intro fs fm errs; exact ⟨[], by simp [parseFeatures]⟩
  | cons s rest ih =>
    intro fs fm errs
    unfold parseFeatures
    simp only
    obtain ⟨e, he⟩ := ih _ (parseFeature s fm).2.1 (errs ++ (parseFeature s fm).2.2)
    exact ⟨(parseFeature s fm).2.2 ++ e, by rw [he, List.append_assoc]⟩

/-- an accepted configuration stage: no error was pending, and the enum data is passed through unchanged -/
theorem configStage_ok (D : Derive) (sorted : Sorted) (fm : FeatureMap) (errs : List Err) (x : Expansion)
    (h : configStage D sorted fm errs = .ok x) : errs = [] ∧ x.D = D ∧ x.sorted = sorted := by
  unfold configStage at h
  simp only at h
  generalize hpf : parseFeatures Generated.catalog {} fm errs = pf at h
  obtain ⟨e, he⟩ := parseFeatures_errs_prefix Generated.catalog {} fm errs
  rw [hpf] at he
  split at h
  · cases h
  · split at h
    · rename_i hemp
      simp only [Except.ok.injEq] at h
      have : pf.2.2 = [] := by
        have := List.isEmpty_iff.mp hemp
        rw [List.append_eq_nil_iff] at this; exact this.1
      rw [he, List.append_eq_nil_iff] at this
      exact ⟨this.1, by rw [← h], by rw [← h]⟩
    · cases h

/-- an accepted configuration stage ended in a successful `resolve` on the shape of this enum -/
theorem configStage_resolved (D : Derive) (sorted : Sorted) (fm : FeatureMap) (errs : List Err) (x : Expansion)
    (h : configStage D sorted fm errs = .ok x) :
    ∃ fl m, resolve { gapless := D.gapless, numValues := D.numValues, sizeGuess := D.sizeGuess } fl m = .ok (x.flags, x.modes) := by
  unfold configStage at h
  simp only at h
  generalize hpf : parseFeatures Generated.catalog {} fm errs = pf at h
  split at h
  · cases h
  · rename_i fl m hres
    split at h
    · simp only [Except.ok.injEq] at h
      exact ⟨pf.1.flags, pf.1.modes, by rw [hres, ← h]⟩
    · cases h

/-- anatomy of an accepted derive -/
theorem expand_ok (t : Target) (d : Decl) (x : Expansion) (h : expand t d = .ok x) :
    ∃ a rname repr sg ub pv,
      parseAttrs {} d.attrs = .ok a ∧ a.repr = some rname ∧ reprTable t rname = some (repr, sg, ub) ∧ a.errs = [] ∧
      (parseSorted a.fm).2.2 = [] ∧ d.kind = .enum ∧
      pvLoop (parseSorted a.fm).1 { errs := [] } d.variants = some pv ∧ pv.errs = [] ∧
      pv.values ≠ [] ∧ pv.values.length < 65535 ∧
      x.D = { repr := repr, reprName := rname, sizeGuess := sg, ubits := ub, values := sortByKey pv.values,
              ranges := computeRanges ((sortByKey pv.values).map (·.1)) } ∧
      x.sorted = (parseSorted a.fm).1 := by
  unfold expand expandWith at h
  split at h
  · cases h
  · rename_i a ha
    split at h
    · cases h
    · rename_i rname hrn
      split at h
      · cases h
      · rename_i repr sg ub hrt
        simp only at h
        split at h
        · cases h
        · rename_i hkind
          split at h
          · cases h
          · rename_i pv hpv
            split at h
            · cases h
            · rename_i hne
              split at h
              · cases h
              · rename_i hlen
                obtain ⟨hpverrs, hD, hS⟩ := configStage_ok _ _ _ _ _ h
                obtain ⟨e0, he0⟩ := pvLoop_errs_prefix _ _ _ _ hpv
                simp only at he0
                rw [hpverrs] at he0
                have h0 : a.errs ++ (parseSorted a.fm).2.2 = [] := by
                  have := he0.symm; rw [List.append_eq_nil_iff] at this; exact this.1
                rw [List.append_eq_nil_iff] at h0
                refine ⟨a, rname, repr, sg, ub, pv, ha, hrn, hrt, h0.1, h0.2, by simpa using hkind, ?_, hpverrs, ?_, ?_, hD, hS⟩
                · rw [h0.1, h0.2] at hpv; simpa using hpv
                · intro e; apply hne; simp [sortByKey, e]
                · have : (sortByKey pv.values).length = pv.values.length := (sortByKey_perm pv.values).length_eq
                  simp only [id, this] at hlen; omega


/-! ### the specification's sort -/

theorem insertByDisc_perm (x : Int × Name) (l : List (Int × Name)) : (insertByDisc x l).Perm (x :: l) := by
  induction l with
  | nil => exact List.Perm.refl _
  | cons y ys ih =>
    unfold insertByDisc
    split
    · exact List.Perm.refl _
    · exact (List.Perm.cons y ih).trans (List.Perm.swap x y ys)

theorem sortByDisc_perm (l : List (Int × Name)) : (sortByDisc l).Perm l := by
  induction l with
  | nil => exact List.Perm.refl _
  | cons x xs ih =>
    show (insertByDisc x (sortByDisc xs)).Perm (x :: xs)
    exact (insertByDisc_perm x _).trans (List.Perm.cons x ih)

theorem insertByDisc_sorted (x : Int × Name) (l : List (Int × Name)) (h : l.Pairwise (fun a b => a.1 ≤ b.1)) :
    (insertByDisc x l).Pairwise (fun a b => a.1 ≤ b.1) := by
  induction l with
  | nil => simp [insertByDisc]
  | cons y ys ih =>
    have hp := List.pairwise_cons.mp h
    unfold insertByDisc
    split
    · rename_i hle
      refine List.pairwise_cons.mpr ⟨?_, h⟩
      intro z hz
      rcases List.mem_cons.mp hz with e | e
      · subst e; exact hle
      · have := hp.1 z e; omega
    · rename_i hgt
      refine List.pairwise_cons.mpr ⟨?_, ih hp.2⟩
      intro z hz
      have := (insertByDisc_perm x ys).mem_iff.mp hz
      rcases List.mem_cons.mp this with e | e
      · subst e; omega
      · exact hp.1 z e

theorem sortByDisc_sorted (l : List (Int × Name)) : (sortByDisc l).Pairwise (fun a b => a.1 ≤ b.1) := by
  induction l with
  | nil => simp [sortByDisc]
  | cons x xs ih => exact insertByDisc_sorted x _ ih

theorem sortByDisc_lt (l : List (Int × Name)) (hn : (l.map (·.1)).Nodup) : (sortByDisc l).Pairwise keyLt := by
  have hle := sortByDisc_sorted l
  have hnd : ((sortByDisc l).map (·.1)).Nodup := ((sortByDisc_perm l).map _).nodup_iff.mpr hn
  have hne : (sortByDisc l).Pairwise (fun a b => a.1 ≠ b.1) := by
    rw [List.Nodup, List.pairwise_map] at hnd; exact hnd
  exact (hle.and hne).imp (fun ⟨h1, h2⟩ => by unfold keyLt; omega)

/-- the specification's sort does not depend on the declaration order (distinct discriminants) -/
theorem sortByDisc_perm_invariant (l1 l2 : List (Int × Name)) (hp : l1.Perm l2) (hn : (l1.map (·.1)).Nodup) :
    sortByDisc l1 = sortByDisc l2 := by
  have hn2 : (l2.map (·.1)).Nodup := (hp.map _).nodup_iff.mp hn
  apply sorted_ext keyLt (fun a b h => by unfold keyLt at *; omega) _ _ (sortByDisc_lt l1 hn) (sortByDisc_lt l2 hn2)
  intro x
  rw [(sortByDisc_perm l1).mem_iff, (sortByDisc_perm l2).mem_iff, hp.mem_iff]

/-- the macro's sorted value list, stripped of identifiers, is the specification's sorted list -/
theorem sortByKey_map_eq_sortByDisc (vals : List (Int × (Name × Name))) (hn : (vals.map (·.1)).Nodup) :
    (sortByKey vals).map (fun x => (x.1, x.2.2)) = sortByDisc (vals.map (fun x => (x.1, x.2.2))) := by
  have hk : ((vals.map (fun x => (x.1, x.2.2))).map (·.1)) = vals.map (·.1) := by simp [List.map_map, Function.comp_def]
  apply sorted_ext keyLt (fun a b h => by unfold keyLt at *; omega)
  · have := sortByKey_lt vals hn
    rw [List.pairwise_map]
    exact this.imp (fun h => h)
  · exact sortByDisc_lt _ (by rw [hk]; exact hn)
  · intro x
    rw [(sortByDisc_perm _).mem_iff, List.mem_map, List.mem_map]
    constructor
    · rintro ⟨y, hy, rfl⟩; exact ⟨y, (sortByKey_perm vals).mem_iff.mp hy, rfl⟩
    · rintro ⟨y, hy, rfl⟩; exact ⟨y, (sortByKey_perm vals).mem_iff.mpr hy, rfl⟩

/-- a strictly ascending list of integers inside `[lo, hi]` has at most `hi - lo + 1` elements -/
theorem sorted_length_le (l : List Int) (hs : l.Pairwise (· < ·)) (lo hi : Int) (hr : ∀ x ∈ l, lo ≤ x ∧ x ≤ hi) :
    (l.length : Int) ≤ max 0 (hi - lo + 1) := by
  induction l generalizing lo with
  | nil => simp; omega
  | cons a t ih =>
    have hp := List.pairwise_cons.mp hs
    have ha := hr a (by simp)
    have := ih hp.2 (a + 1) (fun x hx => ⟨by have := hp.1 x hx; omega, (hr x (by simp [hx])).2⟩)
    simp only [List.length_cons]
    omega

/-- one discriminant per variant -/
theorem clean_len : ∀ (vs : List Variant) (nxt : Int) (l : List (Int × Name)), rustcDiscs nxt vs = some l → l.length = vs.length := by
  intro vs
  induction vs with
  | nil => intro nxt l h; simp [rustcDiscs] at h; subst h; rfl
  | cons v rest ih =>
    intro nxt l h
    unfold rustcDiscs at h
    cases hd : v.disc with
    | none =>
      rw [hd] at h; simp only [Option.map_eq_some_iff] at h
      obtain ⟨l', hl', rfl⟩ := h; simp [ih _ _ hl']
    | some e =>
      rw [hd] at h; simp only at h
      cases hv : e.value? with
      | none => rw [hv] at h; cases h
      | some dd =>
        rw [hv] at h; simp only [Option.map_eq_some_iff] at h
        obtain ⟨l', hl', rfl⟩ := h; simp [ih _ _ hl']

/-- an accepted derive ended in a successful `resolve` on the shape of the enum it computed -/
theorem expand_resolved (t : Target) (d : Decl) (x : Expansion) (h : expand t d = .ok x) :
    ∃ fl m, resolve { gapless := x.D.gapless, numValues := x.D.numValues, sizeGuess := x.D.sizeGuess } fl m = .ok (x.flags, x.modes) := by
  unfold expand expandWith at h
  split at h
  · cases h
  · split at h
    · cases h
    · split at h
      · cases h
      · simp only at h
        split at h
        · cases h
        · split at h
          · cases h
          · split at h
            · cases h
            · split at h
              · cases h
              · obtain ⟨_, hD, _⟩ := configStage_ok _ _ _ _ _ h
                have := configStage_resolved _ _ _ _ _ h
                rw [hD]
                exact this

end ET
