/-
from_str / FromStr loops.
-/
import EnumToolsModel.Lemmas.Index
namespace ET

/-- `wrap` only depends on the residue modulo `2^bits` -/
theorem Prim.wrap_congr (p : Prim) (x y : Int) (h : x % (2 : Int) ^ p.bits = y % (2 : Int) ^ p.bits) :
    p.wrap x = p.wrap y := by
  unfold Prim.wrap
  split
  · unfold Int.bmod
    rw [natCast_two_pow, h]
  · exact h

/-- `(i as repr).wrapping_add(MIN)` is `MIN + i` whenever that is a value of the type -/
theorem Prim.wrap_wrap_add (p : Prim) (hb : 1 ≤ p.bits) (i m : Int) (h : p.InRange (m + i)) :
    p.wrap (p.wrap i + m) = m + i := by
  have : p.wrap (p.wrap i + m) = p.wrap (m + i) := by
    apply p.wrap_congr
    rw [Int.add_emod, p.wrap_emod, ← Int.add_emod, Int.add_comm]
  rw [this, p.wrap_of_inRange hb _ h]

/-- the gapless table loop: index `i` ↦ discriminant `MIN + i` -/
theorem fromStrTableGaplessLoop_spec (D : Derive) (hb : 1 ≤ D.repr.bits) (s : Name) :
    ∀ (vs : List (Int × (Name × Name))) (i : Nat),
      (∀ j (hj : j < vs.length), vs[j].1 = D.minKey + ((i + j : Nat) : Int)) →
      (∀ x ∈ vs, x.1 ∈ D.vals ∧ D.repr.InRange x.1) →
      fromStrTableGaplessLoop D s i (vs.map (·.2.2)) = .ok ((vs.find? (fun x => decide (x.2.2 = s))).map (·.1)) := by
  intro vs
  induction vs with
  | nil => intro i _ _; simp [fromStrTableGaplessLoop]
  | cons x rest ih =>
    intro i hidx hmem
    simp only [List.map_cons, fromStrTableGaplessLoop]
    have hx := hmem x (by simp)
    have hx1 : x.1 = D.minKey + (i : Int) := by have := hidx 0 (by simp); simpa using this
    by_cases hs : s = x.2.2
    · have hw : D.repr.wrap (D.repr.wrap (i : Int) + minC D) = x.1 := by
        unfold minC; rw [Prim.wrap_wrap_add D.repr hb _ _ (by rw [← hx1]; exact hx.2), hx1]
      simp only [hs, if_true, hw, transmute_of_mem D _ hx.1, Res.bind_ok]
      simp
    · have hs' : ¬ (x.2.2 = s) := fun e => hs e.symm
      simp only [hs, if_false]
      rw [ih (i + 1) (fun j hj => by
            have := hidx (j + 1) (by simpa using hj)
            simp only [List.getElem_cons_succ] at this
            rw [this]; congr 2; omega)
          (fun y hy => hmem y (by simp [hy]))]
      simp [hs']

theorem fromStrTableHolesLoop_spec (s : Name) (l : List (Int × Name)) :
    fromStrTableHolesLoop s l = .ok ((l.find? (fun x => decide (x.2 = s))).map (·.1)) := by
  induction l with
  | nil => rfl
  | cons x rest ih =>
    obtain ⟨e, n⟩ := x
    unfold fromStrTableHolesLoop
    by_cases hs : s = n
    · subst hs; simp
    · have hs' : ¬ (n = s) := fun e => hs e.symm
      simp [hs, hs', ih]

/-- `__ENUM.iter().zip(__NAME.iter())` is the specification's item list -/
theorem Derive.zip_tables (D : Derive) : (tableEnum D).zip (tableName D) = D.sem.items := by
  simp [tableEnum, tableName, Derive.vals, Derive.names, Derive.sem, List.zip_map']

end ET
