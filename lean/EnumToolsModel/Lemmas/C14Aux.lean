/-
Helper definitions and lemmas for Thm/C14.lean (the property theorems live there).
-/
import EnumToolsModel.Thm.C11
namespace ET.Thm

/-- consecutive elements strictly ascending (`prev` is the element before the list, if any) -/
def AscFrom {α : Type} (lt : α → α → Prop) : Option α → List α → Prop
  | _, [] => True
  | none, x :: xs => AscFrom lt (some x) xs
  | some p, x :: xs => lt p x ∧ AscFrom lt (some x) xs

/-- the part of the loop state the sorted checks do not touch -/
def PV.core (st : PV) : List (Int × (Name × Name)) × Int × List Err := (st.values, st.last, st.errs)

theorem nameSortErrs_nil_iff (n vb : Bool) (ln : Option Name) (name : Name) :
    nameSortErrs ⟨n, vb⟩ ln name = [] ↔ (n = true → match ln with | some p => p < name | none => True) := by
  unfold nameSortErrs
  cases n with
  | false => simp
  | true =>
    cases ln with
    | none => simp
    | some p =>
      simp only [if_true, forall_const]
      by_cases h : p < name <;> simp [h]

/-- the value check is only made for explicit discriminants; together with freshness it says `last < i` -/
theorem valueSortErrs_nil_iff (n vb : Bool) (st : PV) (i : Int) (hfresh : i ∉ st.values.map (·.1))
    (hlast : st.values ≠ [] → st.last ∈ st.values.map (·.1)) :
    valueSortErrs ⟨n, vb⟩ st i = [] ↔ (vb = true → st.values ≠ [] → st.last < i) := by
  unfold valueSortErrs
  cases vb with
  | false => simp
  | true =>
    by_cases hv : st.values = []
    · simp [hv]
    · have hne : i ≠ st.last := fun e => hfresh (e ▸ hlast hv)
      have : st.values.isEmpty = false := by cases h : st.values <;> simp_all
      simp only [this, Bool.false_eq_true, not_false_eq_true, true_and, forall_const]
      by_cases hlt : i < st.last
      · simp [hlt, hv]; omega
      · simp [hlt, hv]; omega

/-- the sorted run and the unsorted run proceed in lock step; the sorted one additionally demands
ascending names / discriminants -/
theorem clean_sorted_iff (n vb : Bool) : ∀ (vs : List Variant) (st stU : PV),
    PV.core st = PV.core stU → (n = true → True) →
    (st.values ≠ [] → st.last ∈ st.values.map (·.1)) → i64Min ≤ st.last → st.last ≤ i64Max →
    ∀ (l : List (Int × Name)), rustcDiscs (st.last + 1) vs = some l →
    ((∃ st', CleanFrom ⟨n, vb⟩ st vs st') ↔
      ((∃ stU', CleanFrom {} stU vs stU') ∧
        (n = true → AscFrom (· < ·) st.lastName (vs.map (·.name))) ∧
        (vb = true → AscFrom (· < ·) (if st.values = [] then none else some st.last) (l.map (·.1))))) := by
  intro vs
  induction vs with
  | nil =>
    intro st stU _ _ _ _ _ l hl
    simp [rustcDiscs] at hl; subst hl
    simp [CleanFrom, AscFrom]
  | cons v rest ih =>
    intro st stU hcore _ hlast h1 h2 l hl
    simp only [PV.core, Prod.mk.injEq] at hcore
    obtain ⟨hcv, hcl, hce⟩ := hcore
    constructor
    · rintro ⟨st', ha, hf, hn, i, hsd, hv, hfresh, hrest⟩
      -- the head of l is i
      have hir := StepDisc_range st.last v i hsd h1 h2
      have hl' : ∃ l', l = (i, v.name) :: l' ∧ rustcDiscs (i + 1) rest = some l' := by
        unfold rustcDiscs at hl; unfold StepDisc at hsd
        cases hd : v.disc with
        | none =>
          rw [hd] at hl hsd; obtain ⟨_, rfl⟩ := hsd
          simp only [Option.map_eq_some_iff] at hl; obtain ⟨l', h1', rfl⟩ := hl; exact ⟨l', rfl, h1'⟩
        | some e =>
          rw [hd] at hl hsd; simp only [hsd.2, Option.map_eq_some_iff] at hl
          obtain ⟨l', h1', rfl⟩ := hl; exact ⟨l', rfl, h1'⟩
      obtain ⟨l', rfl, hl'⟩ := hl'
      have hpushlast : (st.push ⟨n, vb⟩ v i).values ≠ [] → (st.push ⟨n, vb⟩ v i).last ∈ (st.push ⟨n, vb⟩ v i).values.map (·.1) := by
        intro _; simp [PV.push]
      have := (ih (st.push ⟨n, vb⟩ v i) (stU.push {} v i) (by simp [PV.core, PV.push, hcv, hce]) (fun _ => trivial) hpushlast hir.1 hir.2 l'
        (by simpa [PV.push] using hl')).mp ⟨st', hrest⟩
      obtain ⟨⟨stU', hU⟩, hnames, hdiscs⟩ := this
      refine ⟨⟨stU', ha, hf, by simp [nameSortErrs], i, by rw [← hcl]; exact hsd, fun _ => by simp [valueSortErrs], by rw [← hcv]; exact hfresh, hU⟩, ?_, ?_⟩
      · intro hnt
        have h1n := (nameSortErrs_nil_iff n vb st.lastName v.name).mp hn hnt
        have h2n := hnames hnt
        simp only [PV.push, nextLastName, hnt, if_true] at h2n
        simp only [List.map_cons]
        cases hln : st.lastName with
        | none => simp only [AscFrom]; exact h2n
        | some p => rw [hln] at h1n; simp only [AscFrom]; exact ⟨h1n, h2n⟩
      · intro hvt
        have h2d := hdiscs hvt
        simp only [PV.push] at h2d
        have hne : st.values ++ [(i, (v.ident, v.name))] ≠ [] := by simp
        simp only [hne, if_false, List.map_cons] at h2d ⊢
        by_cases hv0 : st.values = []
        · simp only [hv0, if_true, AscFrom]; exact h2d
        · simp only [hv0, if_false, AscFrom]
          refine ⟨?_, h2d⟩
          cases hd : v.disc with
          | none => unfold StepDisc at hsd; rw [hd] at hsd; omega
          | some e =>
            have := hv (by simp [hd])
            exact (valueSortErrs_nil_iff n vb st i hfresh hlast).mp this hvt hv0
    · rintro ⟨⟨stU', ha, hf, _, i, hsd, _, hfresh, hrest⟩, hnames, hdiscs⟩
      rw [hcl.symm] at hsd
      rw [← hcv] at hfresh
      have hir := StepDisc_range st.last v i hsd h1 h2
      have hl' : ∃ l', l = (i, v.name) :: l' ∧ rustcDiscs (i + 1) rest = some l' := by
        unfold rustcDiscs at hl; unfold StepDisc at hsd
        cases hd : v.disc with
        | none =>
          rw [hd] at hl hsd; obtain ⟨_, rfl⟩ := hsd
          simp only [Option.map_eq_some_iff] at hl; obtain ⟨l', h1', rfl⟩ := hl; exact ⟨l', rfl, h1'⟩
        | some e =>
          rw [hd] at hl hsd; simp only [hsd.2, Option.map_eq_some_iff] at hl
          obtain ⟨l', h1', rfl⟩ := hl; exact ⟨l', rfl, h1'⟩
      obtain ⟨l', rfl, hl'⟩ := hl'
      have hpushlast : (st.push ⟨n, vb⟩ v i).values ≠ [] → (st.push ⟨n, vb⟩ v i).last ∈ (st.push ⟨n, vb⟩ v i).values.map (·.1) := by
        intro _; simp [PV.push]
      -- conditions of this step
      have hn : nameSortErrs ⟨n, vb⟩ st.lastName v.name = [] := by
        rw [nameSortErrs_nil_iff]; intro hnt
        have := hnames hnt; simp only [List.map_cons] at this
        cases hln : st.lastName with
        | none => trivial
        | some p => rw [hln] at this; simp only [AscFrom] at this; exact this.1
      have hv : v.disc.isSome = true → valueSortErrs ⟨n, vb⟩ st i = [] := by
        intro _
        rw [valueSortErrs_nil_iff n vb st i hfresh hlast]; intro hvt hv0
        have := hdiscs hvt; simp only [hv0, if_false, List.map_cons, AscFrom] at this; exact this.1
      have hnames' : n = true → AscFrom (· < ·) (st.push ⟨n, vb⟩ v i).lastName (rest.map (·.name)) := by
        intro hnt
        have := hnames hnt; simp only [List.map_cons] at this
        simp only [PV.push, nextLastName, hnt, if_true]
        cases hln : st.lastName with
        | none => rw [hln] at this; simpa [AscFrom] using this
        | some p => rw [hln] at this; simp only [AscFrom] at this; exact this.2
      have hdiscs' : vb = true → AscFrom (· < ·) (if (st.push ⟨n, vb⟩ v i).values = [] then none else some (st.push ⟨n, vb⟩ v i).last) (l'.map (·.1)) := by
        intro hvt
        have := hdiscs hvt
        have hne : (st.push ⟨n, vb⟩ v i).values ≠ [] := by simp [PV.push]
        simp only [hne, if_false]
        simp only [List.map_cons] at this
        by_cases hv0 : st.values = []
        · simp only [hv0, if_true, AscFrom] at this; exact this
        · simp only [hv0, if_false, AscFrom] at this; exact this.2
      obtain ⟨st', hst'⟩ := (ih (st.push ⟨n, vb⟩ v i) (stU.push {} v i) (by simp [PV.core, PV.push, hcv, hce]) (fun _ => trivial) hpushlast hir.1 hir.2 l'
        (by simpa [PV.push] using hl')).mpr ⟨⟨stU', hrest⟩, hnames', hdiscs'⟩
      exact ⟨st', ha, hf, hn, i, hsd, hv, hfresh, hst'⟩


end ET.Thm
