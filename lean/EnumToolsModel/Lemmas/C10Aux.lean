/-
Helper definitions and lemmas for Thm/C10.lean (the property theorems live there).
-/
import EnumToolsModel.Lemmas.Resolve
import EnumToolsModel.Generated.Uses
import EnumToolsModel.Generated.Docs
import EnumToolsModel.Generated.Catalog
namespace ET.Thm
open ET.Generated

/-- `range` needs `iter`, not in mode table_inline; iter mode `range` needs a gapless enum -/
def LegalCfg (sh : Shape) (fl : Flags) (m : Modes) : Prop :=
  (.range ∈ fl → .iter ∈ fl ∧ m.iter ≠ .tableInline) ∧ (.iter ∈ fl → m.iter = .range → sh.gapless = true)

/-- the three abort conditions the model knows are exactly the ones in the code -/
theorem aborts_are_the_documented_ones :
    (aborts.map (fun a => (a.src, a.guard, a.unlessFlag))) =
      [(.range, [], some .iter), (.range, [.iterIn [.tableInline]], none), (.iter, [.iterIn [.range], .holes], none)] := by
  decide +kernel

/-- flags only the user can set (no rule sets them) -/
theorem user_only_flags :
    (rules.all (fun r => !r.sets.contains .range && !r.sets.contains .iter && !r.sets.contains .fromStrFn &&
      !r.sets.contains .fromStrTrait && !r.sets.contains .debug && !r.sets.contains .display && !r.sets.contains .intoStr)) = true := by
  decide +kernel

theorem user_only (f : Flag) (hf : f = .range ∨ f = .iter ∨ f = .fromStrFn ∨ f = .fromStrTrait ∨ f = .debug ∨ f = .display ∨ f = .intoStr) :
    ∀ r ∈ rules, f ∉ r.sets := by
  intro r hr
  have := List.all_eq_true.mp user_only_flags r hr
  simp only [Bool.and_eq_true, Bool.not_eq_true', List.contains_eq_mem, decide_eq_false_iff_not] at this
  rcases hf with rfl | rfl | rfl | rfl | rfl | rfl | rfl <;> simp_all

/-- user-only flags are the same before and after `resolve` -/
theorem user_flag_stable (sh : Shape) (fl : Flags) (m m' : Modes) (f : Flag)
    (hf : f = .range ∨ f = .iter ∨ f = .fromStrFn ∨ f = .fromStrTrait ∨ f = .debug ∨ f = .display ∨ f = .intoStr) :
    (f ∈ runRules rules m' sh.gapless (autoFlags sh (runRules rules m sh.gapless fl) m) ↔ f ∈ fl) ∧
    (f ∈ autoFlags sh (runRules rules m sh.gapless fl) m ↔ f ∈ fl) := by
  have hne : f ≠ .tableName := by rcases hf with rfl | rfl | rfl | rfl | rfl | rfl | rfl <;> decide
  have h1 := run_frame m sh.gapless rules fl f (user_only f hf)
  have h2 : f ∈ autoFlags sh (runRules rules m sh.gapless fl) m ↔ f ∈ fl := by
    constructor
    · intro h; exact h1.mp (((autoFlags_spec sh _ m f).2 h).resolve_right hne)
    · intro h; exact (autoFlags_spec sh _ m f).1 (h1.mpr h)
  exact ⟨(run_frame m' sh.gapless rules _ f (user_only f hf)).trans h2, h2⟩

theorem abort_mem (a : Flag × List Atom × Option Flag)
    (ha : a ∈ [(Flag.range, ([] : List Atom), some Flag.iter), (.range, [.iterIn [.tableInline]], none), (.iter, [.iterIn [.range], .holes], none)]) :
    ∃ r ∈ aborts, (r.src, r.guard, r.unlessFlag) = a := by
  rw [← aborts_are_the_documented_ones] at ha
  obtain ⟨r, hr, e⟩ := List.mem_map.mp ha
  exact ⟨r, hr, e⟩

theorem no_abort_of_find (mm : Modes) (g : Bool) (fl : Flags) (h : aborts.find? (abortFires mm g fl) = none) :
    ∀ a ∈ aborts, abortFires mm g fl a = false := by
  intro a ha
  have := List.find?_eq_none.mp h a ha
  simpa using this

/-- every rule that sets the flag of a feature with modes is unguarded and fires from a user-only flag
(so "enabled" means the same before and after `auto`) -/
theorem mode_flags_stable_table :
    (rules.all (fun r => !r.sets.contains .asStr || (r.guard.isEmpty && (r.src == .debug || r.src == .display || r.src == .intoStr)))) = true := by
  decide +kernel

theorem asStr_stable (sh : Shape) (fl : Flags) (m m' : Modes)
    (h : .asStr ∈ runRules rules m' sh.gapless (autoFlags sh (runRules rules m sh.gapless fl) m)) :
    .asStr ∈ autoFlags sh (runRules rules m sh.gapless fl) m := by
  rcases run_origin m' sh.gapless rules _ _ h with h1 | ⟨r, hr, hs, _, hsrc⟩
  · exact h1
  · have ht := List.all_eq_true.mp mode_flags_stable_table r hr
    simp only [Bool.or_eq_true, Bool.not_eq_true', List.contains_eq_mem, decide_eq_false_iff_not, Bool.and_eq_true,
      List.isEmpty_iff, beq_iff_eq] at ht
    rcases ht with ht | ⟨hg, hsrc3⟩
    · exact absurd hs ht
    · have hu : r.src = .range ∨ r.src = .iter ∨ r.src = .fromStrFn ∨ r.src = .fromStrTrait ∨ r.src = .debug ∨ r.src = .display ∨ r.src = .intoStr := by
        rcases hsrc3 with (e | e) | e
        · exact Or.inr (Or.inr (Or.inr (Or.inr (Or.inl e))))
        · exact Or.inr (Or.inr (Or.inr (Or.inr (Or.inr (Or.inl e)))))
        · exact Or.inr (Or.inr (Or.inr (Or.inr (Or.inr (Or.inr e)))))
      have hsrc0 : r.src ∈ fl := (user_flag_stable sh fl m m' r.src hu).1.mp hsrc
      -- the rule already fired in the first pass
      have hsat := run_sat m sh.gapless rules fl rules_ordered r hr
      have : Flag.asStr ∈ runRules rules m sh.gapless fl :=
        hsat (run_mono m sh.gapless rules fl _ hsrc0) (by rw [hg]; rfl) _ hs
      exact (autoFlags_spec sh _ m _).1 this

theorem uo_range : Flag.range = .range ∨ Flag.range = .iter ∨ Flag.range = .fromStrFn ∨ Flag.range = .fromStrTrait ∨ Flag.range = .debug ∨ Flag.range = .display ∨ Flag.range = .intoStr := Or.inl rfl
theorem uo_iter : Flag.iter = .range ∨ Flag.iter = .iter ∨ Flag.iter = .fromStrFn ∨ Flag.iter = .fromStrTrait ∨ Flag.iter = .debug ∨ Flag.iter = .display ∨ Flag.iter = .intoStr := Or.inr (Or.inl rfl)
theorem uo_fromStrFn : Flag.fromStrFn = .range ∨ Flag.fromStrFn = .iter ∨ Flag.fromStrFn = .fromStrFn ∨ Flag.fromStrFn = .fromStrTrait ∨ Flag.fromStrFn = .debug ∨ Flag.fromStrFn = .display ∨ Flag.fromStrFn = .intoStr := Or.inr (Or.inr (Or.inl rfl))
theorem uo_fromStrTrait : Flag.fromStrTrait = .range ∨ Flag.fromStrTrait = .iter ∨ Flag.fromStrTrait = .fromStrFn ∨ Flag.fromStrTrait = .fromStrTrait ∨ Flag.fromStrTrait = .debug ∨ Flag.fromStrTrait = .display ∨ Flag.fromStrTrait = .intoStr := Or.inr (Or.inr (Or.inr (Or.inl rfl)))

/-- a user-only flag that is enabled after `resolve` was enabled all along -/
theorem user_flag_back (sh : Shape) (fl : Flags) (m m' : Modes) (f : Flag)
    (hf : f = .range ∨ f = .iter ∨ f = .fromStrFn ∨ f = .fromStrTrait ∨ f = .debug ∨ f = .display ∨ f = .intoStr)
    (h : f ∈ runRules rules m' sh.gapless (autoFlags sh (runRules rules m sh.gapless fl) m)) :
    f ∈ autoFlags sh (runRules rules m sh.gapless fl) m :=
  (user_flag_stable sh fl m m' f hf).2.mpr ((user_flag_stable sh fl m m' f hf).1.mp h)

/-- what an enabled feature brings with it before the rules run: itself, and the features without which it aborts -/
def seedOf (f : Flag) : Flags :=
  f :: aborts.filterMap (fun a => if a.src == f && a.guard.isEmpty && rules.all (fun r => !r.sets.contains f) then a.unlessFlag else none)

/-- the consequences of one enabled feature under the rules -/
def closureOf (m : Modes) (g : Bool) (f : Flag) : Flags := runRules rules m g (seedOf f)

/-- decidable, over the regenerated tables: every item referenced by a template of `f` (mode `m`, shape `g`)
is a consequence of `f` (and of the features `f` cannot be enabled without) -/
def usesCovered : Bool :=
  Flag.all.all fun f => Modes.all.all fun m => [true, false].all fun g => (uses f m g).all fun u => (closureOf m g f).contains u

theorem uses_covered : usesCovered = true := by decide +kernel

def acceptedParams (s : FeatSpec) : List String :=
  (if s.hasVisName then ["vis", "name"] else []) ++ (match s.structKey with | some k => [k] | none => []) ++
    (match s.modeKind with | .none => [] | _ => ["mode"])

def documentedParams (d : DocFeature) : List String := d.params ++ (if d.sig.isSome then ["name", "vis"] else [])

def specOf (k : String) : Option FeatSpec := catalog.find? (·.key == k)

theorem parseItems_append (a b : List CfgItem) : ∀ (fm : FeatureMap) (errs : List Err),
    parseItems fm errs (a ++ b) = (match parseItems fm errs a with | none => none | some (fm', errs') => parseItems fm' errs' b) := by
  induction a with
  | nil => intro fm errs; simp [parseItems]
  | cons x rest ih =>
    intro fm errs
    cases x with
    | path p => cases p <;> simp [parseItems, ih]
    | other => simp [parseItems, ih]
    | list p ps =>
      cases p with
      | complex => cases ps <;> simp [parseItems]
      | simple n =>
        cases ps with
        | none => simp [parseItems]
        | some l =>
          simp only [List.cons_append, parseItems]
          cases parseParams [] errs l with
          | none => rfl
          | some r => obtain ⟨pm, e⟩ := r; simp [ih]


end ET.Thm
