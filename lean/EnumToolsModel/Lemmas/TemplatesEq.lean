/-
The translated templates (`Generated/Templates.lean`, regenerated from /repo/src on every run)
compute the same function as the schema model of `Gen.lean` / `Iter.lean`, for every `Derive`
that satisfies `WF` and every argument the Rust type system admits.  Every theorem about the
schema model (C01–C09, C18) therefore is a theorem about what the source says now.
-/
import EnumToolsModel.TRun
import EnumToolsModel.Lemmas.WF
import EnumToolsModel.Lemmas.Arith
import EnumToolsModel.Lemmas.Range
namespace ET.T
open ET ET.Rust

/-! ### the vocabulary of `Rust.lean` against the idioms of `Gen.lean` -/

@[simp] theorem bind_ok_right {α} (r : Res α) : (r.bind fun x => Res.ok x) = r := by
  cases r <;> rfl

theorem cast_of_inRange (p : Prim) (hb : 1 ≤ p.bits) (x : Int) (h : p.InRange x) : cast p x = x :=
  Prim.wrap_of_inRange p hb x h

theorem forRet_scan {α β} (l : List α) (c : α → Bool) (f : α → Res β) (dflt : Res (Option β)) :
    forRet l (fun r => if c r then (f r).bind (fun e => .ok (some (some e))) else .ok none) (fun _ => dflt)
      = (match l.find? c with
         | some r => (f r).bind (fun e => .ok (some e))
         | none => dflt) := by
  induction l with
  | nil => rfl
  | cons x xs ih =>
    simp only [forRet, List.find?]
    cases hc : c x
    · simp [ih]
    · simp only [if_true]
      cases f x <;> rfl


/-! ### into / try_from -/

variable (D : Derive) (tg : Target) (md : Modes)

theorem intoFn_eq (h : D.WF) (v : Int) (hv : v ∈ D.vals) : T.intoFn D tg md v = .ok (ET.intoFn D v) := by
  simp [T.intoFn, ET.intoFn, cast_of_inRange _ h.bits_pos _ (h.inRange v hv)]

theorem intoTrait_eq (h : D.WF) (v : Int) (hv : v ∈ D.vals) : T.intoTrait D tg md v = .ok (ET.intoTrait D v) := by
  simp [T.intoTrait, ET.intoTrait, cast_of_inRange _ h.bits_pos _ (h.inRange v hv)]

theorem minC_inRange (h : D.WF) : D.repr.InRange (minC D) := h.inRange _ h.minKey_mem
theorem maxC_inRange (h : D.WF) : D.repr.InRange (maxC D) := h.inRange _ h.maxKey_mem

theorem tryFromFn_gapless_eq (h : D.WF) (v : Int) (hv : D.repr.InRange v) :
    T.tryFromFn_gapless D tg md v = tryFromGapless D v := by
  simp only [T.tryFromFn_gapless, tryFromGapless, cast_of_inRange _ h.bits_pos _ hv,
    cast_of_inRange _ h.bits_pos _ (minC_inRange D h), cast_of_inRange _ h.bits_pos _ (maxC_inRange D h)]
  by_cases h1 : v ≥ minC D <;> by_cases h2 : v ≤ maxC D <;> simp [h1, h2]

theorem tryFromTrait_gapless_eq (h : D.WF) (v : Int) (hv : D.repr.InRange v) :
    T.tryFromTrait_gapless D tg md v = tryFromTraitGapless D v := by
  simp only [T.tryFromTrait_gapless, tryFromTraitGapless, cast_of_inRange _ h.bits_pos _ hv,
    cast_of_inRange _ h.bits_pos _ (minC_inRange D h), cast_of_inRange _ h.bits_pos _ (maxC_inRange D h)]
  by_cases h1 : v ≥ minC D <;> by_cases h2 : v ≤ maxC D <;> simp [h1, h2]

theorem forRet_tryFromScan (v : Int) (l : List RangeEntry) :
    forRet l (fun r => if RangeEntry.contains r v then (transmute D v).bind (fun e => .ok (some (some e))) else .ok none)
      (fun _ => .ok none) = tryFromScan D v l := by
  induction l with
  | nil => rfl
  | cons x xs ih =>
    simp only [forRet, tryFromScan]
    cases hc : x.contains v
    · simp [ih]
    · simp only [if_true]
      cases transmute D v <;> rfl

theorem forRet_tryFromTraitScan (v : Int) (l : List RangeEntry) :
    forRet l (fun r => if RangeEntry.contains r v then (transmute D v).bind (fun e => .ok (some (some e))) else .ok none)
      (fun _ => .ok none) = tryFromTraitScan D v l := by
  induction l with
  | nil => rfl
  | cons x xs ih =>
    simp only [forRet, tryFromTraitScan]
    cases hc : x.contains v
    · simp [ih]
    · simp only [if_true]
      cases transmute D v <;> rfl

theorem tryFromFn_holes_eq (h : D.WF) (v : Int) (hv : D.repr.InRange v) :
    T.tryFromFn_holes D tg md v = tryFromHoles D v := by
  simp only [T.tryFromFn_holes, tryFromHoles, cast_of_inRange _ h.bits_pos _ hv,
    cast_of_inRange _ h.bits_pos _ (minC_inRange D h), cast_of_inRange _ h.bits_pos _ (maxC_inRange D h), forRet_tryFromScan]
  by_cases h1 : v ≥ minC D <;> by_cases h2 : v ≤ maxC D <;> simp [h1, h2]

theorem tryFromTrait_holes_eq (h : D.WF) (v : Int) (hv : D.repr.InRange v) :
    T.tryFromTrait_holes D tg md v = tryFromTraitHoles D v := by
  simp only [T.tryFromTrait_holes, tryFromTraitHoles, cast_of_inRange _ h.bits_pos _ hv,
    cast_of_inRange _ h.bits_pos _ (minC_inRange D h), cast_of_inRange _ h.bits_pos _ (maxC_inRange D h), forRet_tryFromTraitScan]
  by_cases h1 : v ≥ minC D <;> by_cases h2 : v ≤ maxC D <;> simp [h1, h2]

theorem tryFromFn_eq (h : D.WF) (v : Int) (hv : D.repr.InRange v) : T.tryFromFn D tg md v = ET.tryFromFn D v := by
  unfold T.tryFromFn ET.tryFromFn
  cases hg : D.gapless <;> simp [tryFromFn_gapless_eq D tg md h v hv, tryFromFn_holes_eq D tg md h v hv]

theorem tryFromTrait_eq (h : D.WF) (v : Int) (hv : D.repr.InRange v) : T.tryFromTrait D tg md v = ET.tryFromTrait D v := by
  unfold T.tryFromTrait ET.tryFromTrait
  cases hg : D.gapless <;> simp [tryFromTrait_gapless_eq D tg md h v hv, tryFromTrait_holes_eq D tg md h v hv]

/-! ### next / next_back -/

theorem next_gapless_eq (h : D.WF) (v : Int) (hv : v ∈ D.vals) : T.next_gapless D tg md v = nextGapless D v := by
  have hr := h.inRange v hv
  simp only [T.next_gapless, nextGapless, cast_of_inRange _ h.bits_pos _ hr, cast_of_inRange _ h.bits_pos _ (maxC_inRange D h)]
  by_cases hm : v = maxC D
  · simp [hm]
  · have hm' : ¬ maxC D = v := fun e => hm e.symm
    simp only [hm, hm', decide_false, Bool.false_eq_true, if_false, add]
    have : D.repr.InRange (v + 1) ↔ ¬ (v + 1 > D.repr.hi) := by
      unfold Prim.InRange at *; constructor <;> intro hh <;> omega
    by_cases hh : v + 1 > D.repr.hi
    · have hn : ¬ D.repr.InRange (v + 1) := fun hc => (this.mp hc) hh
      simp [hh, hn]
    · simp [hh, this.mpr hh]

theorem nextBack_gapless_eq (h : D.WF) (v : Int) (hv : v ∈ D.vals) : T.nextBack_gapless D tg md v = nextBackGapless D v := by
  have hr := h.inRange v hv
  simp only [T.nextBack_gapless, nextBackGapless, cast_of_inRange _ h.bits_pos _ hr, cast_of_inRange _ h.bits_pos _ (minC_inRange D h)]
  by_cases hm : v = minC D
  · simp [hm]
  · have hm' : ¬ minC D = v := fun e => hm e.symm
    simp only [hm, hm', decide_false, Bool.false_eq_true, if_false, sub]
    have : D.repr.InRange (v - 1) ↔ ¬ (v - 1 < D.repr.lo) := by
      unfold Prim.InRange at *; constructor <;> intro hh <;> omega
    by_cases hh : v - 1 < D.repr.lo
    · have hn : ¬ D.repr.InRange (v - 1) := fun hc => (this.mp hc) hh
      simp [hh, hn]
    · simp [hh, this.mpr hh]


theorem loopNext_nextLoop (l : List RangeEntry) (c : Int) :
    loopNext l c (fun r it current =>
      if RangeEntry.contains r current then
        let current := (wrappingAdd D.repr current 1)
        if RangeEntry.contains r current then
          (transmute D current).bind fun e1 => .ok (.inl (some e1))
        else
          let o2 := it.head?
          let it := it.tail
          (optMapM o2 (fun r => (transmute D r.start).bind fun e3 => .ok e3)).bind fun o4 => .ok (.inl o4)
      else .ok (.inr current)) = nextLoop D c l := by
  induction l generalizing c with
  | nil => rfl
  | cons x xs ih =>
    unfold loopNext nextLoop
    by_cases hc : x.contains c = true
    · simp only [hc, if_true, wrappingAdd]
      by_cases hc2 : x.contains (D.repr.wrap (c + 1)) = true
      · simp only [hc2, if_true]
        cases transmute D (D.repr.wrap (c + 1)) <;> rfl
      · simp only [hc2, if_false]
        cases xs with
        | nil => rfl
        | cons r2 rest =>
          simp only [List.head?, optMapM]
          cases transmute D r2.start <;> rfl
    · simp only [hc, if_false]
      exact ih c

theorem next_holes_eq (h : D.WF) (v : Int) (hv : v ∈ D.vals) : T.next_holes D tg md v = nextHoles D v := by
  have := loopNext_nextLoop D (tableRange D) v
  simpa [T.next_holes, nextHoles, cast_of_inRange _ h.bits_pos _ (h.inRange v hv)] using this

theorem next_eq (h : D.WF) (v : Int) (hv : v ∈ D.vals) : T.next D tg md v = nextFn D v := by
  unfold T.next nextFn
  cases hg : D.gapless <;> simp [next_gapless_eq D tg md h v hv, next_holes_eq D tg md h v hv]


theorem loopNextBackRev_nextBackLoop (l : List RangeEntry) (c : Int) :
    loopNextBackRev l c (fun r it current =>
      if RangeEntry.contains r current then
        let current := (wrappingSub D.repr current 1)
        if RangeEntry.contains r current then
          (transmute D current).bind fun e1 => .ok (.inl (some e1))
        else
          let o2 := it.getLast?
          let it := it.dropLast
          (optMapM o2 (fun r => (transmute D r.stop).bind fun e3 => .ok e3)).bind fun o4 => .ok (.inl o4)
      else .ok (.inr current)) = nextBackLoop D c l := by
  induction l generalizing c with
  | nil => rfl
  | cons x xs ih =>
    unfold loopNextBackRev nextBackLoop
    by_cases hc : x.contains c = true
    · simp only [hc, if_true, wrappingSub]
      by_cases hc2 : x.contains (D.repr.wrap (c - 1)) = true
      · simp only [hc2, if_true]
        cases transmute D (D.repr.wrap (c - 1)) <;> rfl
      · simp only [hc2, if_false]
        cases xs with
        | nil => rfl
        | cons r2 rest =>
          simp only [List.getLast?_reverse, List.head?, optMapM]
          cases transmute D r2.stop <;> rfl
    · simp only [hc, if_false]
      exact ih c

theorem nextBack_holes_eq (h : D.WF) (v : Int) (hv : v ∈ D.vals) : T.nextBack_holes D tg md v = nextBackHoles D v := by
  have := loopNextBackRev_nextBackLoop D (tableRange D).reverse v
  simpa [T.nextBack_holes, nextBackHoles, loopNextBack, cast_of_inRange _ h.bits_pos _ (h.inRange v hv)] using this

theorem nextBack_eq (h : D.WF) (v : Int) (hv : v ∈ D.vals) : T.nextBack D tg md v = nextBackFn D v := by
  unfold T.nextBack nextBackFn
  cases hg : D.gapless <;> simp [nextBack_gapless_eq D tg md h v hv, nextBack_holes_eq D tg md h v hv]


/-! ### as_str, Display, Debug, IntoStr -/

theorem matchFirst_map {α κ β} [DecidableEq κ] (l : List α) (key : α → κ) (g : α → β) (x : κ) :
    matchFirst (l.map fun a => (key a, g a)) x = (l.find? (fun a => decide (key a = x))).map g := by
  induction l with
  | nil => rfl
  | cons a as ih =>
    unfold matchFirst at *
    simp only [List.map, List.find?]
    by_cases hk : key a = x
    · simp [hk]
    · simp only [hk, decide_false]
      exact ih

theorem asStr_match_eq (v : Int) : T.asStr_match D tg md v = asStrMatch D v := by
  simp only [T.asStr_match, asStrMatch, matchEnum, matchFirst_map, bind_ok_right]
  cases D.values.find? (fun a => decide (a.1 = v)) <;> rfl

theorem index_cast_eq (tbl : List Name) (x : Int) :
    Rust.index tbl (cast (ITy.usize.prim D tg) (cast (ITy.urepr.prim D tg) x)) = ET.index tbl (toIndex D tg x) := by
  simp [Rust.index, Rust.cast, ITy.prim, Prim.wrap, toIndex, asUnsigned]

theorem asStr_table_gapless_eq (h : D.WF) (v : Int) (hv : v ∈ D.vals) :
    T.asStr_table_gapless D tg md v = asStrTableGapless D tg v := by
  simp only [T.asStr_table_gapless, asStrTableGapless, cast_of_inRange _ h.bits_pos _ (h.inRange v hv),
    cast_of_inRange _ h.bits_pos _ (minC_inRange D h), wrappingSub, index_cast_eq, bind_ok_right]

theorem asStr_table_holes_eq (h : D.WF) (v : Int) (hv : v ∈ D.vals) :
    T.asStr_table_holes D tg md v = asStrTableHoles D tg v := by
  simp only [T.asStr_table_holes, asStrTableHoles, cast_of_inRange _ h.bits_pos _ (h.inRange v hv), wrappingSub,
    index_cast_eq, bind_ok_right]
  cases (tableRange D).find? (fun t => t.contains v) <;> rfl

theorem asStr_eq (h : D.WF) (hm : md.asStr ≠ .auto) (v : Int) (hv : v ∈ D.vals) :
    T.asStr D tg md v = ET.asStr D tg md.asStr v := by
  unfold T.asStr ET.asStr
  cases hmd : md.asStr
  · exact absurd hmd hm
  · simp [asStr_match_eq]
  · cases hg : D.gapless <;> simp [asStr_table_gapless_eq D tg md h v hv, asStr_table_holes_eq D tg md h v hv]

theorem display_eq (h : D.WF) (hm : md.asStr ≠ .auto) (v : Int) (hv : v ∈ D.vals) :
    T.display D tg md v = ET.asStr D tg md.asStr v := by
  simp [T.display, asStr_eq D tg md h hm v hv]

theorem debug_eq (h : D.WF) (hm : md.asStr ≠ .auto) (v : Int) (hv : v ∈ D.vals) :
    T.debug D tg md v = ET.asStr D tg md.asStr v := by
  simp [T.debug, asStr_eq D tg md h hm v hv]

theorem intoStr_eq (h : D.WF) (hm : md.asStr ≠ .auto) (v : Int) (hv : v ∈ D.vals) :
    T.intoStr D tg md v = ET.asStr D tg md.asStr v := by
  simp [T.intoStr, asStr_eq D tg md h hm v hv]


/-! ### from_str / FromStr -/

theorem fromStr_match_aux (s : Name) :
    Res.ok ((matchFirst (D.values.map fun x => (x.2.2, some x.1)) s).getD none) = fromStrMatch D s := by
  simp only [fromStrMatch, matchFirst_map]
  cases D.values.find? (fun a => decide (a.2.2 = s)) <;> rfl

theorem forRet_fromStrGapless (h : D.WF) (s : Name) (l : List Name) (k : Nat) :
    forRet (enumFrom k l) (fun x : Int × Name =>
        if decide (s = x.2) then
          (transmute D (wrappingAdd D.repr (Rust.cast D.repr x.1) (Rust.cast D.repr (minC D)))).bind fun e1 => .ok (some (some e1))
        else .ok none)
      (fun _ => .ok none) = fromStrTableGaplessLoop D s k l := by
  induction l generalizing k with
  | nil => rfl
  | cons n rest ih =>
    simp only [enumFrom, forRet, fromStrTableGaplessLoop]
    by_cases hs : s = n
    · simp only [hs, decide_true, if_true, wrappingAdd, Rust.cast, cast_of_inRange _ h.bits_pos _ (minC_inRange D h)]
      rw [Prim.wrap_of_inRange _ h.bits_pos _ (minC_inRange D h)]
      cases transmute D (D.repr.wrap (D.repr.wrap (k : Int) + minC D)) <;> rfl
    · simp only [hs, decide_false, Bool.false_eq_true, if_false]
      exact ih (k + 1)

theorem forRet_fromStrHoles (s : Name) (l : List (Int × Name)) :
    forRet l (fun x : Int × Name => if decide (s = x.2) then .ok (some (some x.1)) else .ok none) (fun _ => .ok none)
      = fromStrTableHolesLoop s l := by
  induction l with
  | nil => rfl
  | cons a rest ih =>
    obtain ⟨e, n⟩ := a
    simp only [forRet, fromStrTableHolesLoop]
    by_cases hs : s = n
    · simp [hs]
    · simp only [hs, decide_false, Bool.false_eq_true, if_false]
      exact ih

theorem decide_eq_comm {α} [DecidableEq α] (a b : α) : decide (a = b) = decide (b = a) :=
  decide_eq_decide.mpr eq_comm

/-- the same two loops with the comparison written the other way round (`*n == s`) -/
theorem forRet_fromStrGapless' (h : D.WF) (s : Name) (l : List Name) (k : Nat) :
    forRet (enumFrom k l) (fun x : Int × Name =>
        if decide (x.2 = s) then
          (transmute D (wrappingAdd D.repr (Rust.cast D.repr x.1) (Rust.cast D.repr (minC D)))).bind fun e1 => .ok (some (some e1))
        else .ok none)
      (fun _ => .ok none) = fromStrTableGaplessLoop D s k l := by
  have := forRet_fromStrGapless D h s l k
  simp only [decide_eq_comm s] at this
  exact this

theorem forRet_fromStrHoles' (s : Name) (l : List (Int × Name)) :
    forRet l (fun x : Int × Name => if decide (x.2 = s) then .ok (some (some x.1)) else .ok none) (fun _ => .ok none)
      = fromStrTableHolesLoop s l := by
  have := forRet_fromStrHoles s l
  simp only [decide_eq_comm s] at this
  exact this

/-- `position(p).map(f)` is the loop that returns at the first hit -/
theorem optMapM_positionFrom {α β} (p : α → Bool) (f : Int → Res β) (l : List α) (k : Nat) :
    optMapM (positionFrom p k l) f =
      forRet (enumFrom k l) (fun x => if p x.2 then (f x.1).bind (fun e => .ok (some (some e))) else .ok none) (fun _ => .ok none) := by
  induction l generalizing k with
  | nil => rfl
  | cons x xs ih =>
    simp only [positionFrom, enumFrom, forRet]
    by_cases hp : p x = true
    · simp only [hp, if_true, optMapM]
      cases f (k : Int) <;> rfl
    · simp only [hp, if_false]
      exact ih (k + 1)

/-- `find_map(|x| if p x { Some(g x) } else { None })` is the loop that returns at the first hit -/
theorem findSome_forRet {α β} (p : α → Bool) (g : α → β) (l : List α) :
    (Res.ok (List.findSome? (fun x => if p x then some (g x) else none) l) : Res (Option β)) =
      forRet l (fun x => if p x then .ok (some (some (g x))) else .ok none) (fun _ => .ok none) := by
  induction l with
  | nil => rfl
  | cons x xs ih =>
    simp only [List.findSome?, forRet]
    by_cases hp : p x = true
    · simp [hp]
    · simp only [hp, if_false]
      exact ih

theorem fromStrFn_eq (h : D.WF) (hm : md.fromStrFn ≠ .auto) (s : Name) :
    T.fromStrFn D tg md s = ET.fromStr D md.fromStrFn s := by
  unfold T.fromStrFn ET.fromStr
  cases hmd : md.fromStrFn
  · exact absurd hmd hm
  · simp [T.fromStrFn_match, fromStr_match_aux]
  · cases hg : D.gapless
    · have := forRet_fromStrHoles s (List.zip (tableEnum D) (tableName D))
      have this' := forRet_fromStrHoles' s (List.zip (tableEnum D) (tableName D))
      have this'' := (findSome_forRet (fun x : Int × Name => decide (x.2 = s)) (fun x => x.1)
        (List.zip (tableEnum D) (tableName D))).trans this'
      first
        | simpa [T.fromStrFn_table_holes, fromStrTableHoles] using this
        | simpa [T.fromStrFn_table_holes, fromStrTableHoles] using this'
        | simpa [T.fromStrFn_table_holes, fromStrTableHoles] using this''
    · have := forRet_fromStrGapless D h s (tableName D) 0
      have this' := forRet_fromStrGapless' D h s (tableName D) 0
      have this'' := (optMapM_positionFrom (fun n : Name => decide (n = s))
        (fun i => transmute D (wrappingAdd D.repr (Rust.cast D.repr i) (Rust.cast D.repr (minC D)))) (tableName D) 0).trans
        (by simpa using this')
      first
        | simpa [T.fromStrFn_table_gapless, fromStrTableGapless, enumerate] using this
        | simpa [T.fromStrFn_table_gapless, fromStrTableGapless, enumerate] using this'
        | simpa [T.fromStrFn_table_gapless, fromStrTableGapless, position] using this''

theorem fromStrTrait_eq (h : D.WF) (hm : md.fromStrTrait ≠ .auto) (s : Name) :
    T.fromStrTrait D tg md s = ET.fromStr D md.fromStrTrait s := by
  unfold T.fromStrTrait ET.fromStr
  cases hmd : md.fromStrTrait
  · exact absurd hmd hm
  · simp [T.fromStrTrait_match, fromStr_match_aux]
  · cases hg : D.gapless
    · have := forRet_fromStrHoles s (List.zip (tableEnum D) (tableName D))
      have this' := forRet_fromStrHoles' s (List.zip (tableEnum D) (tableName D))
      have this'' := (findSome_forRet (fun x : Int × Name => decide (x.2 = s)) (fun x => x.1)
        (List.zip (tableEnum D) (tableName D))).trans this'
      first
        | simpa [T.fromStrTrait_table_holes, fromStrTableHoles] using this
        | simpa [T.fromStrTrait_table_holes, fromStrTableHoles] using this'
        | simpa [T.fromStrTrait_table_holes, fromStrTableHoles] using this''
    · have := forRet_fromStrGapless D h s (tableName D) 0
      have this' := forRet_fromStrGapless' D h s (tableName D) 0
      have this'' := (optMapM_positionFrom (fun n : Name => decide (n = s))
        (fun i => transmute D (wrappingAdd D.repr (Rust.cast D.repr i) (Rust.cast D.repr (minC D)))) (tableName D) 0).trans
        (by simpa using this')
      first
        | simpa [T.fromStrTrait_table_gapless, fromStrTableGapless, enumerate] using this
        | simpa [T.fromStrTrait_table_gapless, fromStrTableGapless, enumerate] using this'
        | simpa [T.fromStrTrait_table_gapless, fromStrTableGapless, position] using this''


/-! ### iter(), names() -/

theorem mapM_transmute (l : List Int) :
    mapM (fun x => transmute D x) l = mapTransmute D l := by
  induction l with
  | nil => rfl
  | cons x xs ih =>
    simp only [mapM, mapTransmute, ih]

theorem iter_eq (hm : md.iter ≠ .auto) : T.iter D tg md = iterInit D md.iter := by
  unfold T.iter iterInit
  cases hmd : md.iter
  · exact absurd hmd hm
  · simp [T.iter_range, mapM_transmute]
  · simp [T.iter_nextAndBack]
  · simp [T.iter_table]
  · simp [T.iter_tableInline]

theorem names_eq : T.names D tg md = .ok (namesInit D) := rfl

/-! ### the `next_and_back` iterator -/

def usizeMax (tg : Target) : Int := (2 : Int) ^ tg.ptrBits - 1

theorem usize_inRange (x : Int) : (ITy.usize.prim D tg).InRange x ↔ 0 ≤ x ∧ x ≤ usizeMax tg := by
  simp [ITy.prim, Prim.InRange, Prim.lo, Prim.hi, usizeMax]

theorem optAndThenM_eq {α} (o : Option α) (f : α → Res (Option α)) :
    optAndThenM o (fun x => (f x).bind fun y => Res.ok y) = (match o with | none => (.ok none : Res (Option α)) | some x => f x) := by
  cases o <;> simp [optAndThenM]

theorem iter_next_eq (hm : md.iter = .nextAndBack) (fwd bwd : Option Int) (n : Nat) (hn : (n : Int) ≤ usizeMax tg + 1) :
    T.iter_Iterator_next D tg md fwd bwd n = nbNext (T.next D tg md) fwd bwd n := by
  unfold T.iter_Iterator_next T.iter_Iterator_next_nextAndBack nbNext
  simp only [hm, beq_self_eq_true, if_true, optAndThenM_eq]
  by_cases h0 : n = 0
  · simp [h0]
  · have hin : (ITy.usize.prim D tg).InRange ((n : Int) - 1) := (usize_inRange D tg _).mpr ⟨by omega, by omega⟩
    have hne : ¬ ((n : Int) = 0) := by omega
    have hne' : ¬ ((0 : Int) = (n : Int)) := by omega
    have htn : Int.toNat ((n : Int) - 1) = n - 1 := by omega
    simp only [h0, hne, hne', decide_false, Bool.false_eq_true, if_false, sub, hin, if_true, Res.bind_ok, htn]
    rfl

theorem iter_next_back_eq (hm : md.iter = .nextAndBack) (fwd bwd : Option Int) (n : Nat) (hn : (n : Int) ≤ usizeMax tg + 1) :
    T.iter_DoubleEnded_next_back D tg md fwd bwd n = nbNextBack (T.nextBack D tg md) fwd bwd n := by
  unfold T.iter_DoubleEnded_next_back T.iter_DoubleEnded_next_back_nextAndBack nbNextBack
  simp only [hm, beq_self_eq_true, if_true, optAndThenM_eq]
  by_cases h0 : n = 0
  · simp [h0]
  · have hin : (ITy.usize.prim D tg).InRange ((n : Int) - 1) := (usize_inRange D tg _).mpr ⟨by omega, by omega⟩
    have hne : ¬ ((n : Int) = 0) := by omega
    have hne' : ¬ ((0 : Int) = (n : Int)) := by omega
    have htn : Int.toNat ((n : Int) - 1) = n - 1 := by omega
    simp only [h0, hne, hne', decide_false, Bool.false_eq_true, if_false, sub, hin, if_true, Res.bind_ok, htn]
    rfl

theorem iter_len_eq (hm : md.iter = .nextAndBack) (fwd bwd : Option Int) (n : Nat) :
    T.iter_ExactSize_len D tg md fwd bwd n = .ok (n : Int) := by
  simp [T.iter_ExactSize_len, T.iter_ExactSize_len_nextAndBack, hm]

theorem iter_size_hint_eq (hm : md.iter = .nextAndBack) (fwd bwd : Option Int) (n : Nat) :
    T.iter_Iterator_size_hint D tg md fwd bwd n = .ok ((n : Int), some (n : Int)) := by
  simp [T.iter_Iterator_size_hint, T.iter_Iterator_size_hint_nextAndBack, hm]


/-! ### range(a, b) -/

theorem usizeMax_ge (ht : tg.WF) : 65535 ≤ usizeMax tg := by
  have : (2 : Int) ^ 16 ≤ (2 : Int) ^ tg.ptrBits := by
    have := Nat.pow_le_pow_right (n := 2) (by decide) ht
    exact_mod_cast this
  unfold usizeMax; omega

theorem idx_cast (x : Int) :
    Rust.cast (ITy.usize.prim D tg) (Rust.cast (ITy.urepr.prim D tg) x) = ((toIndex D tg x : Nat) : Int) := by
  simp only [Rust.cast, ITy.prim, Prim.wrap, toIndex, asUnsigned, Bool.false_eq_true, if_false]
  rw [Int.toNat_of_nonneg]
  exact Int.emod_nonneg _ (Int.ne_of_gt (two_pow_pos _))

theorem nb_len_eq (ht : tg.WF) (si ei : Nat) (he : ei < 65535) (fwd bwd : Option Int) :
    (if decide ((si : Int) > (ei : Int)) then Res.ok (IterState.nb fwd bwd (Int.toNat 0))
     else (sub (ITy.usize.prim D tg) (ei : Int) (si : Int)).bind fun x1 =>
       (add (ITy.usize.prim D tg) x1 1).bind fun x2 => Res.ok (IterState.nb fwd bwd (Int.toNat x2)))
      = Res.ok (IterState.nb fwd bwd (nbLen si ei)) := by
  have hmax := usizeMax_ge tg ht
  unfold nbLen
  by_cases hgt : si > ei
  · have : (si : Int) > (ei : Int) := by omega
    simp [hgt, this]
  · have hn : ¬ ((si : Int) > (ei : Int)) := by omega
    have h1 : (ITy.usize.prim D tg).InRange ((ei : Int) - (si : Int)) := (usize_inRange D tg _).mpr ⟨by omega, by omega⟩
    have h2 : (ITy.usize.prim D tg).InRange ((ei : Int) - (si : Int) + 1) := (usize_inRange D tg _).mpr ⟨by omega, by omega⟩
    have h3 : Int.toNat ((ei : Int) - (si : Int) + 1) = ei - si + 1 := by omega
    simp only [hgt, hn, decide_false, Bool.false_eq_true, if_false, sub, add, h1, h2, if_true, Res.bind_ok, h3]

theorem slice_eq (ht : tg.WF) (si ei : Nat) (he : ei < 65535) :
    (if decide ((si : Int) > (ei : Int)) then
        (sliceExcl (tableEnum D) 0 0).bind fun sl => Res.ok (IterState.cursor sl)
     else (add (ITy.usize.prim D tg) (ei : Int) 1).bind fun x =>
       (sliceExcl (tableEnum D) (si : Int) x).bind fun sl => Res.ok (IterState.cursor sl))
      = rangeSlice D si ei := by
  have hmax := usizeMax_ge tg ht
  unfold rangeSlice
  by_cases hgt : si > ei
  · have : (si : Int) > (ei : Int) := by omega
    have hl0 : ¬ (((tableEnum D).length : Int) < 0) := by omega
    simp [hgt, this, sliceExcl, hl0]
  · have hn : ¬ ((si : Int) > (ei : Int)) := by omega
    have h2 : (ITy.usize.prim D tg).InRange ((ei : Int) + 1) := (usize_inRange D tg _).mpr ⟨by omega, by omega⟩
    have h4 : ¬ ((si : Int) > (ei : Int) + 1) := by omega
    have h5 : ¬ (si > ei + 1) := by omega
    simp only [hgt, hn, decide_false, Bool.false_eq_true, if_false, add, h2, if_true, Res.bind_ok, sliceExcl, sliceIncl, h4, h5]
    by_cases hl : ei + 1 > (tableEnum D).length
    · have : ((ei : Int) + 1 > ((tableEnum D).length : Int)) := by omega
      simp [hl, this]
    · have : ¬ ((ei : Int) + 1 > ((tableEnum D).length : Int)) := by omega
      have h6 : Int.toNat ((ei : Int) + 1 - (si : Int)) = ei + 1 - si := by omega
      simp [hl, this, h6]

theorem range_gapless_range_eq (h : D.WF) (a b : Int) (ha : a ∈ D.vals) (hb : b ∈ D.vals) :
    T.range_gapless_range D tg md a b = (mapTransmute D (interval a b)).bind fun l => .ok (.cursor l) := by
  simp [T.range_gapless_range, cast_of_inRange _ h.bits_pos _ (h.inRange a ha), cast_of_inRange _ h.bits_pos _ (h.inRange b hb),
    mapM_transmute]

theorem idx_lt (h : D.WF) (v : Int) (k : Nat) (hk : D.vals[k]? = some v) : k < 65535 := by
  have := (List.getElem?_eq_some_iff.mp hk).1
  rw [D.vals_length] at this
  have := h.count_lt
  omega

theorem range_gapless_nb_eq (h : D.WF) (ht : tg.WF) (hg : D.gapless = true) (a b : Int) (ha : a ∈ D.vals) (hb : b ∈ D.vals) :
    T.range_gapless_nextAndBack D tg md a b =
      .ok (.nb (some a) (some b) (nbLen (toIndex D tg (D.repr.wrap (a - minC D))) (toIndex D tg (D.repr.wrap (b - minC D))))) := by
  obtain ⟨ib, hvb, hib⟩ := pos_gapless D tg h ht hg b hb
  have hlt := idx_lt D h b ib hvb
  simp only [T.range_gapless_nextAndBack, cast_of_inRange _ h.bits_pos _ (h.inRange a ha), cast_of_inRange _ h.bits_pos _ (h.inRange b hb),
    cast_of_inRange _ h.bits_pos _ (minC_inRange D h), wrappingSub, idx_cast]
  rw [hib]
  exact nb_len_eq D tg ht _ ib hlt _ _

theorem range_gapless_table_eq (h : D.WF) (ht : tg.WF) (hg : D.gapless = true) (a b : Int) (ha : a ∈ D.vals) (hb : b ∈ D.vals) :
    T.range_gapless_table D tg md a b =
      rangeSlice D (toIndex D tg (D.repr.wrap (a - minC D))) (toIndex D tg (D.repr.wrap (b - minC D))) := by
  obtain ⟨ib, hvb, hib⟩ := pos_gapless D tg h ht hg b hb
  have hlt := idx_lt D h b ib hvb
  simp only [T.range_gapless_table, cast_of_inRange _ h.bits_pos _ (h.inRange a ha), cast_of_inRange _ h.bits_pos _ (h.inRange b hb),
    cast_of_inRange _ h.bits_pos _ (minC_inRange D h), wrappingSub, idx_cast]
  rw [hib]
  exact slice_eq D tg ht _ ib hlt


/-- the index a run-table entry gives a value, as the `usize` the template computes -/
def idxOf (x : Int) (r : RangeEntry) : Int := ((toIndex D tg (D.repr.wrap (x - r.ofs)) : Nat) : Int)

theorem forFold_rangeIdx (s e : Int)
    (body : Option Int × Option Int → RangeEntry → Res (Option Int × Option Int))
    (hbody : ∀ a b r, body (a, b) r =
      .ok (if r.contains s then some (idxOf D tg s r) else a, if r.contains e then some (idxOf D tg e r) else b))
    (l : List RangeEntry) (si ei : Option Nat) :
    forFold l (si.map Int.ofNat, ei.map Int.ofNat) body =
      .ok (((rangeIdxLoop D tg s e l (si, ei)).1).map Int.ofNat, ((rangeIdxLoop D tg s e l (si, ei)).2).map Int.ofNat) := by
  induction l generalizing si ei with
  | nil => rfl
  | cons r rest ih =>
    simp only [forFold, hbody, Res.bind_ok, rangeIdxLoop]
    have := ih (if r.contains s then some (toIndex D tg (D.repr.wrap (s - r.ofs))) else si)
      (if r.contains e then some (toIndex D tg (D.repr.wrap (e - r.ofs))) else ei)
    rw [← this]
    congr 2
    · by_cases hc : r.contains s = true <;> simp [hc, idxOf]
    · by_cases hc : r.contains e = true <;> simp [hc, idxOf]

theorem forFold_rangeIdx0 (s e : Int)
    (body : Option Int × Option Int → RangeEntry → Res (Option Int × Option Int)) (l : List RangeEntry)
    (hbody : ∀ a b r, body (a, b) r =
      .ok (if r.contains s then some (idxOf D tg s r) else a, if r.contains e then some (idxOf D tg e r) else b)) :
    forFold l (none, none) body =
      .ok (((rangeIdxLoop D tg s e l (none, none)).1).map Int.ofNat, ((rangeIdxLoop D tg s e l (none, none)).2).map Int.ofNat) :=
  forFold_rangeIdx D tg s e body hbody l none none

theorem holes_body (s e : Int) (a b : Option Int) (r : RangeEntry) :
    (if RangeEntry.contains r s then
        let start_idx := some (Rust.cast (ITy.usize.prim D tg) (Rust.cast (ITy.urepr.prim D tg) (wrappingSub D.repr s r.ofs)))
        if RangeEntry.contains r e then
          let end_idx := some (Rust.cast (ITy.usize.prim D tg) (Rust.cast (ITy.urepr.prim D tg) (wrappingSub D.repr e r.ofs)))
          (Res.ok (start_idx, end_idx) : Res (Option Int × Option Int))
        else Res.ok (start_idx, b)
      else
        if RangeEntry.contains r e then
          let end_idx := some (Rust.cast (ITy.usize.prim D tg) (Rust.cast (ITy.urepr.prim D tg) (wrappingSub D.repr e r.ofs)))
          Res.ok (a, end_idx)
        else Res.ok (a, b)) =
      .ok (if r.contains s then some (idxOf D tg s r) else a, if r.contains e then some (idxOf D tg e r) else b) := by
  by_cases h1 : r.contains s = true <;> by_cases h2 : r.contains e = true <;> simp [h1, h2, idxOf, idx_cast, wrappingSub]

theorem rangeIdx_loop_of_ok (a b : Int) (ia ib : Nat) (hri : rangeIdx D tg a b = .ok (ia, ib)) :
    rangeIdxLoop D tg a b (tableRange D) (none, none) = (some ia, some ib) := by
  unfold rangeIdx at hri
  cases hl : rangeIdxLoop D tg a b (tableRange D) (none, none) with
  | mk x y =>
    rw [hl] at hri
    cases x <;> cases y <;> simp_all

theorem range_holes_nb_eq (h : D.WF) (ht : tg.WF) (a b : Int) (ha : a ∈ D.vals) (hb : b ∈ D.vals) :
    T.range_holes_nextAndBack D tg md a b =
      (rangeIdx D tg a b).bind fun (si, ei) => .ok (.nb (some a) (some b) (nbLen si ei)) := by
  obtain ⟨ia, ib, hri, hva, hvb⟩ := rangeIdx_spec D tg h ht a b ha hb
  have hlt := idx_lt D h b ib hvb
  have hloop := rangeIdx_loop_of_ok D tg a b ia ib hri
  rw [hri]
  simp only [T.range_holes_nextAndBack, cast_of_inRange _ h.bits_pos _ (h.inRange a ha), cast_of_inRange _ h.bits_pos _ (h.inRange b hb)]
  rw [forFold_rangeIdx0 D tg a b]
  · simp only [hloop, Option.map, Res.bind_ok, assumeInit]
    exact nb_len_eq D tg ht ia ib hlt _ _
  · intro x y r
    exact holes_body D tg a b x y r

theorem range_holes_table_eq (h : D.WF) (ht : tg.WF) (a b : Int) (ha : a ∈ D.vals) (hb : b ∈ D.vals) :
    T.range_holes_table D tg md a b = (rangeIdx D tg a b).bind fun (si, ei) => rangeSlice D si ei := by
  obtain ⟨ia, ib, hri, hva, hvb⟩ := rangeIdx_spec D tg h ht a b ha hb
  have hlt := idx_lt D h b ib hvb
  have hloop := rangeIdx_loop_of_ok D tg a b ia ib hri
  rw [hri]
  simp only [T.range_holes_table, cast_of_inRange _ h.bits_pos _ (h.inRange a ha), cast_of_inRange _ h.bits_pos _ (h.inRange b hb)]
  rw [forFold_rangeIdx0 D tg a b]
  · simp only [hloop, Option.map, Res.bind_ok, assumeInit]
    exact slice_eq D tg ht ia ib hlt
  · intro x y r
    exact holes_body D tg a b x y r

/-- `range(a, b)` of the source is the schema model's `rangeInit`, in every configuration the macro accepts -/
theorem range_eq (h : D.WF) (ht : tg.WF) (a b : Int) (ha : a ∈ D.vals) (hb : b ∈ D.vals)
    (hm : md.iter = .nextAndBack ∨ md.iter = .table ∨ (md.iter = .range ∧ D.gapless = true)) :
    T.range D tg md a b = rangeInit D tg md.iter a b := by
  unfold T.range rangeInit
  by_cases hg : D.gapless = true
  · rcases hm with hm | hm | ⟨hm, _⟩ <;>
      simp [hg, hm, range_gapless_range_eq D tg md h a b ha hb, range_gapless_nb_eq D tg md h ht hg a b ha hb,
        range_gapless_table_eq D tg md h ht hg a b ha hb]
  · have hgf : D.gapless = false := by simpa using hg
    rcases hm with hm | hm | ⟨_, hc⟩
    · simp [hgf, hm, range_holes_nb_eq D tg md h ht a b ha hb]
    · simp [hgf, hm, range_holes_table_eq D tg md h ht a b ha hb]
    · exact absurd hc hg


/-! ### running the translated iterator = running the schema model's state machine over the translated `next` / `next_back` -/

theorem nthT_eq (hm : md.iter = .nextAndBack) (k : Nat) : ∀ (fwd bwd : Option Int) (n : Nat), (n : Int) ≤ usizeMax tg + 1 →
    nthT D tg md k fwd bwd n = nbNth (T.next D tg md) k fwd bwd n := by
  induction k with
  | zero => intro fwd bwd n hn; simp only [nthT, nbNth]; exact iter_next_eq D tg md hm fwd bwd n hn
  | succ k ih =>
    intro fwd bwd n hn
    simp only [nthT, nbNth, iter_next_eq D tg md hm fwd bwd n hn]
    unfold nbNext
    by_cases h0 : n = 0
    · simp [h0]
    · simp only [h0, if_false]
      cases fwd with
      | none => rfl
      | some x =>
        simp only []
        cases hx : T.next D tg md x with
        | ok fwd' => simp only [Res.bind_ok]; exact ih fwd' bwd (n - 1) (by omega)
        | panic w => rfl
        | ub w => rfl

theorem nthBackT_eq (hm : md.iter = .nextAndBack) (k : Nat) : ∀ (fwd bwd : Option Int) (n : Nat), (n : Int) ≤ usizeMax tg + 1 →
    nthBackT D tg md k fwd bwd n = nbNthBack (T.nextBack D tg md) k fwd bwd n := by
  induction k with
  | zero => intro fwd bwd n hn; simp only [nthBackT, nbNthBack]; exact iter_next_back_eq D tg md hm fwd bwd n hn
  | succ k ih =>
    intro fwd bwd n hn
    simp only [nthBackT, nbNthBack, iter_next_back_eq D tg md hm fwd bwd n hn]
    unfold nbNextBack
    by_cases h0 : n = 0
    · simp [h0]
    · simp only [h0, if_false]
      cases bwd with
      | none => rfl
      | some x =>
        simp only []
        cases hx : T.nextBack D tg md x with
        | ok bwd' => simp only [Res.bind_ok]; exact ih fwd bwd' (n - 1) (by omega)
        | panic w => rfl
        | ub w => rfl

/-- the length field never exceeds what a `usize` holds -/
def LenOK (tg : Target) : IterState Int → Prop
  | .cursor _ => True
  | .nb _ _ n => (n : Int) ≤ usizeMax tg + 1

theorem stepT_eq (hm : md.iter = .nextAndBack) (st : IterState Int) (hl : LenOK tg st) (op : Op) :
    stepT D tg md st op = IterState.step (T.next D tg md) (T.nextBack D tg md) st op := by
  cases st with
  | cursor l => rfl
  | nb fwd bwd n =>
    have hn : (n : Int) ≤ usizeMax tg + 1 := hl
    cases op with
    | next => simp only [stepT, IterState.step, iter_next_eq D tg md hm fwd bwd n hn]
    | nextBack => simp only [stepT, IterState.step, iter_next_back_eq D tg md hm fwd bwd n hn]
    | nth k => simp only [stepT, IterState.step, nthT_eq D tg md hm k fwd bwd n hn]
    | nthBack k => simp only [stepT, IterState.step, nthBackT_eq D tg md hm k fwd bwd n hn]
    | len => simp [stepT, IterState.step, iter_len_eq D tg md hm]
    | sizeHint => simp [stepT, IterState.step, iter_size_hint_eq D tg md hm]

end ET.T
