/-
`next` with holes (`next_fn.rs:72-95`): the loop with `unwrap_unchecked`, `wrapping_add(1)`, the
fall-over into the following run and the `transmute`s returns the first discriminant above `v`.
-/
import EnumToolsModel.Lemmas.WF
namespace ET

theorem find_interval_none (b e v : Int) (h : e ≤ v) : (interval b e).find? (fun y => decide (v < y)) = none := by
  rw [List.find?_eq_none]; intro y hy; have := (mem_interval _ _ _).mp hy; simp; omega

theorem find_interval_succ (b e v : Int) (h1 : b ≤ v) (h2 : v + 1 ≤ e) :
    (interval b e).find? (fun y => decide (v < y)) = some (v + 1) := by
  unfold interval
  have hlen : (v + 1 - b).toNat < (e - b + 1).toNat := by omega
  rw [List.find?_map]
  have : (List.range (e - b + 1).toNat).find? ((fun y => decide (v < y)) ∘ fun k : Nat => b + (k:Int)) = some (v + 1 - b).toNat := by
    rw [List.find?_eq_some_iff_getElem]
    refine ⟨by simp; omega, (v + 1 - b).toNat, by simpa using hlen, by simp, ?_⟩
    intro j hj; simp; omega
  rw [this]; simp; omega

theorem head_expandT (r2 : RangeEntry) (rest : List RangeEntry) (h : WFTable (r2 :: rest)) :
    ∃ tl, expandT (r2 :: rest) = r2.start :: tl := by
  rw [expandT_cons, interval_cons _ _ h.head]
  exact ⟨_, rfl⟩

theorem head_mem_expandT (r2 : RangeEntry) (rest : List RangeEntry) (h : WFTable (r2 :: rest)) :
    r2.start ∈ expandT (r2 :: rest) := by
  obtain ⟨tl, htl⟩ := head_expandT r2 rest h; rw [htl]; simp

theorem find_expandT_cons (r : RangeEntry) (rest : List RangeEntry) (p : Int → Bool) :
    (expandT (r :: rest)).find? p = ((interval r.start r.stop).find? p).or ((expandT rest).find? p) := by
  rw [expandT_cons, List.find?_append]

theorem transmute_of_mem (D : Derive) (x : Int) (h : x ∈ D.vals) : transmute D x = .ok x := by
  simp [transmute, h]

/-- the head of the (suffix of the) table either starts above the type's MIN or is not the only entry -/
def FirstOK (lo : Int) : List RangeEntry → Prop
  | [] => True
  | r :: rest => lo < r.start ∨ rest ≠ []

/-- the loop on a suffix of the table -/
theorem nextLoop_spec (D : Derive) (hb : 1 ≤ D.repr.bits) (v : Int) (hvr : D.repr.InRange v) :
    ∀ (tbl : List RangeEntry), WFTable tbl → (∀ y ∈ expandT tbl, y ∈ D.vals) →
      (∀ r ∈ tbl, D.repr.InRange r.start ∧ D.repr.InRange r.stop) →
      FirstOK D.repr.lo tbl →
      v ∈ expandT tbl →
      nextLoop D v tbl = .ok ((expandT tbl).find? (fun y => decide (v < y))) := by
  intro tbl
  induction tbl with
  | nil => intro _ _ _ _ hv; simp [expandT] at hv
  | cons r rest ih =>
    intro hwf hsub hrange hfirst hv
    have hbe := hwf.head
    have habove := hwf.above
    have hr := hrange r (by simp)
    rw [expandT_cons, List.mem_append] at hv
    unfold nextLoop
    by_cases hc : r.contains v = true
    · -- v is in this run
      simp only [hc, if_true]
      have hcv := (r.contains_iff v).mp hc
      by_cases hlast : v = r.stop
      · -- last of the run: fall over to the next run (or None)
        have hc' : r.contains (D.repr.wrap (v + 1)) = false := by
          rw [D.repr.wrap_succ hb v hvr]
          split
          · -- wrapped to the type's MIN: this run would have to start there
            rename_i hvhi
            rcases hfirst with hlo | hne
            · cases hcc : r.contains D.repr.lo with
              | false => rfl
              | true => have := (r.contains_iff _).mp hcc; omega
            · -- there is a later run, entirely above the type's MAX: impossible
              exfalso
              cases rest with
              | nil => exact hne rfl
              | cons r2 rest2 =>
                have h1 := habove r2.start (head_mem_expandT r2 rest2 hwf.tail)
                have h2 := (hrange r2 (by simp)).1
                unfold Prim.InRange at h2; omega
          · cases hcc : r.contains (v + 1) with
            | false => rfl
            | true => have := (r.contains_iff _).mp hcc; omega
        simp only [hc']
        have hnone : (interval r.start r.stop).find? (fun y => decide (v < y)) = none := find_interval_none _ _ _ (by omega)
        cases rest with
        | nil => rw [find_expandT_cons, hnone]; simp [expandT]
        | cons r2 rest2 =>
          obtain ⟨tl, htl⟩ := head_expandT r2 rest2 hwf.tail
          have hmem : r2.start ∈ expandT (r :: r2 :: rest2) := by
            rw [expandT_cons, List.mem_append]; exact Or.inr (head_mem_expandT r2 rest2 hwf.tail)
          have hgt : v < r2.start := by have := habove r2.start (head_mem_expandT r2 rest2 hwf.tail); omega
          simp only [Bool.false_eq_true, if_false, transmute_of_mem D _ (hsub _ hmem), Res.bind_ok]
          rw [find_expandT_cons, hnone, htl]
          simp [hgt]
      · -- successor inside the run
        have hlt : v + 1 ≤ r.stop := by omega
        have hne : v ≠ D.repr.hi := by have := hr.2; unfold Prim.InRange at this; omega
        have hsw : D.repr.wrap (v + 1) = v + 1 := by rw [D.repr.wrap_succ hb v hvr]; simp [hne]
        have hc' : r.contains (v + 1) = true := (r.contains_iff _).mpr ⟨by omega, hlt⟩
        have hmem : v + 1 ∈ expandT (r :: rest) := by
          rw [expandT_cons, List.mem_append]; exact Or.inl ((mem_interval _ _ _).mpr ⟨by omega, hlt⟩)
        simp only [hsw, hc', if_true, transmute_of_mem D _ (hsub _ hmem), Res.bind_ok]
        rw [find_expandT_cons, find_interval_succ r.start r.stop v hcv.1 hlt]; simp
    · -- v is in a later run
      simp only [hc, Bool.false_eq_true, if_false]
      have hvrest : v ∈ expandT rest := by
        rcases hv with hv | hv
        · exfalso; apply hc; exact (r.contains_iff v).mpr ((mem_interval _ _ _).mp hv)
        · exact hv
      have hgt := habove v hvrest
      have hnone : (interval r.start r.stop).find? (fun y => decide (v < y)) = none := find_interval_none _ _ _ (by omega)
      have hfirst' : FirstOK D.repr.lo rest := by
        cases rest with
        | nil => trivial
        | cons r2 rest2 =>
          left
          have h1 := habove r2.start (head_mem_expandT r2 rest2 hwf.tail)
          have h2 := hr.2; unfold Prim.InRange at h2
          have h3 := hr.1; unfold Prim.InRange at h3
          omega
      rw [ih hwf.tail (fun y hy => hsub y (by rw [expandT_cons, List.mem_append]; exact Or.inr hy))
            (fun r' hr' => hrange r' (by simp [hr'])) hfirst' hvrest]
      rw [find_expandT_cons, hnone]; simp

theorem Derive.WF.table_inRange {D : Derive} (h : D.WF) :
    ∀ r ∈ tableRange D, D.repr.InRange r.start ∧ D.repr.InRange r.stop := by
  intro r hr
  obtain ⟨_, _, _, hmap⟩ := h.table
  have : (r.start, r.stop) ∈ D.ranges := by
    rw [← hmap]; exact List.mem_map.mpr ⟨r, hr, rfl⟩
  exact h.runs_inRange _ this

theorem Derive.WF.table_length {D : Derive} (h : D.WF) : (tableRange D).length = D.ranges.length := by
  obtain ⟨_, _, _, hmap⟩ := h.table
  rw [← hmap, List.length_map]

/-- `next` on an enum with holes -/
theorem nextHoles_spec (D : Derive) (h : D.WF) (hg : D.gapless = false) (v : Int) (hv : v ∈ D.vals) :
    nextHoles D v = .ok (D.vals.find? (fun y => decide (v < y))) := by
  obtain ⟨hwf, hex, _, _⟩ := h.table
  unfold nextHoles
  have hlen : (tableRange D).length ≠ 1 := by
    rw [h.table_length]; simpa [Derive.gapless] using hg
  have hfirst : FirstOK D.repr.lo (tableRange D) := by
    cases ht : tableRange D with
    | nil => trivial
    | cons r rest =>
      right; intro hn; apply hlen; rw [ht, hn]; rfl
  have := nextLoop_spec D h.bits_pos v (h.inRange v hv) (tableRange D) hwf (by rw [hex]; exact fun y hy => hy)
    h.table_inRange hfirst (by rw [hex]; exact hv)
  rw [this, hex]

end ET
