/-
Two lists strictly sorted by the same asymmetric relation and with the same members are equal.
-/
import EnumToolsModel.Basic
namespace ET

theorem sorted_ext {α : Type} (R : α → α → Prop) (hasym : ∀ a b, R a b → ¬ R b a) :
    ∀ (l1 l2 : List α), l1.Pairwise R → l2.Pairwise R → (∀ x, x ∈ l1 ↔ x ∈ l2) → l1 = l2 := by
  intro l1
  induction l1 with
  | nil =>
    intro l2 _ _ hm
    cases l2 with
    | nil => rfl
    | cons b t => exact absurd ((hm b).mpr (by simp)) (by simp)
  | cons a t1 ih =>
    intro l2 h1 h2 hm
    cases l2 with
    | nil => exact absurd ((hm a).mp (by simp)) (by simp)
    | cons b t2 =>
      have hp1 := List.pairwise_cons.mp h1
      have hp2 := List.pairwise_cons.mp h2
      have hab : a = b := by
        have ha := (hm a).mp (by simp)
        have hb := (hm b).mpr (by simp)
        rcases List.mem_cons.mp ha with e | e
        · exact e
        · rcases List.mem_cons.mp hb with e' | e'
          · exact e'.symm
          · exact absurd (hp1.1 b e') (hasym _ _ (hp2.1 a e))
      subst hab
      congr 1
      apply ih t2 hp1.2 hp2.2
      intro x
      constructor
      · intro hx
        rcases List.mem_cons.mp ((hm x).mp (List.mem_cons_of_mem _ hx)) with e | e
        · subst e; exact absurd (hp1.1 x hx) (fun h => hasym _ _ h h)
        · exact e
      · intro hx
        rcases List.mem_cons.mp ((hm x).mpr (List.mem_cons_of_mem _ hx)) with e | e
        · subst e; exact absurd (hp2.1 x hx) (fun h => hasym _ _ h h)
        · exact e

theorem sorted_ext_int (l1 l2 : List Int) (h1 : l1.Pairwise (· < ·)) (h2 : l2.Pairwise (· < ·))
    (hm : ∀ x, x ∈ l1 ↔ x ∈ l2) : l1 = l2 :=
  sorted_ext (· < ·) (fun a b h => by omega) l1 l2 h1 h2 hm

end ET
