/-
Every generated iterator simulates a list cursor, for every finite history of operations.
`Sim vals st l`: the state `st` of the generated struct represents the remaining items `l`.
-/
import EnumToolsModel.Lemmas.Sorted
namespace ET

/-- the sublist `vals[i .. i+len)` -/
def absList (vals : List Int) (i len : Nat) : List Int := (vals.drop i).take len

theorem abs_head (vals : List Int) (i len : Nat) (h : 0 < len) : (absList vals i len).head? = vals[i]? := by
  simp [absList, List.head?_take, List.head?_drop]; omega

theorem abs_tail (vals : List Int) (i len : Nat) : (absList vals i len).tail = absList vals (i+1) (len-1) := by
  unfold absList
  cases len with
  | zero => simp
  | succ n =>
    cases h : vals.drop i with
    | nil =>
      have : vals.drop (i+1) = [] := by rw [← List.drop_drop]; simp [h]
      simp [this]
    | cons x xs =>
      have : vals.drop (i+1) = xs := by rw [← List.drop_drop]; simp [h]
      simp [this]

theorem abs_length (vals : List Int) (i len : Nat) (h : i + len ≤ vals.length) : (absList vals i len).length = len := by
  simp [absList]; omega

theorem abs_dropLast (vals : List Int) (i len : Nat) (h : i + len ≤ vals.length) :
    (absList vals i len).dropLast = absList vals i (len-1) := by
  simp only [absList, List.dropLast_eq_take, List.length_take, List.length_drop, List.take_take]
  congr 1; omega

theorem abs_getLast (vals : List Int) (i len : Nat) (h : i + len ≤ vals.length) (hl : 0 < len) :
    (absList vals i len).getLast? = vals[i + len - 1]? := by
  rw [List.getLast?_eq_getElem?, abs_length vals i len h]
  simp only [absList, List.getElem?_take, List.getElem?_drop]
  have : len - 1 < len := by omega
  simp [this]; congr 1; omega

theorem abs_zero (vals : List Int) (i : Nat) : absList vals i 0 = [] := by simp [absList]

theorem abs_cons (vals : List Int) (i len : Nat) (h : i < vals.length) :
    absList vals i (len + 1) = vals[i] :: absList vals (i + 1) len := by
  unfold absList
  rw [List.drop_eq_getElem_cons h, List.take_succ_cons]

theorem abs_snoc (vals : List Int) (i len : Nat) (h : i + len < vals.length) :
    absList vals i (len + 1) = absList vals i len ++ [vals[i + len]] := by
  unfold absList
  rw [List.take_add_one]
  congr 1
  rw [List.getElem?_drop, List.getElem?_eq_getElem h]; rfl

section
variable (vals : List Int) (nf bf : Int → Res (Option Int))

/-- what the proofs need to know about the enum's `next` / `next_back` (C05, by position) -/
structure StepFns : Prop where
  nx : ∀ i (hi : i < vals.length), nf vals[i] = .ok vals[i + 1]?
  pv : ∀ i (hi : i < vals.length), bf vals[i] = .ok (if i = 0 then none else vals[i - 1]?)

/-- invariant of the `next_and_back` struct: `len` items remain, starting at position `i`;
the cursors are only constrained while items remain -/
structure NBInv (fwd bwd : Option Int) (len i : Nat) : Prop where
  bound : i + len ≤ vals.length
  cur : len ≠ 0 → fwd = vals[i]? ∧ bwd = vals[i + len - 1]?

/-- the generated struct `st` represents the remaining items `l` -/
inductive Sim : IterState Int → List Int → Prop where
  | cursor (l : List Int) : Sim (.cursor l) l
  | nb (fwd bwd : Option Int) (len i : Nat) (h : NBInv vals fwd bwd len i) : Sim (.nb fwd bwd len) (absList vals i len)

variable {vals nf bf}

theorem nbNext_sim (hs : StepFns vals nf bf) (fwd bwd : Option Int) (len i : Nat) (h : NBInv vals fwd bwd len i) :
    ∃ f' b' len' i', nbNext nf fwd bwd len = .ok ((absList vals i len).head?, .nb f' b' len') ∧
      NBInv vals f' b' len' i' ∧ (absList vals i len).tail = absList vals i' len' := by
  unfold nbNext
  by_cases h0 : len = 0
  · subst h0
    exact ⟨fwd, bwd, 0, i, by simp [abs_zero], h, by simp [abs_zero]⟩
  · obtain ⟨hf, hb⟩ := h.cur h0
    have hi : i < vals.length := by have := h.bound; omega
    rw [hf, List.getElem?_eq_getElem hi]
    simp only [h0, if_false, hs.nx i hi, Res.bind_ok]
    refine ⟨vals[i + 1]?, bwd, len - 1, i + 1, by rw [abs_head vals i len (by omega), List.getElem?_eq_getElem hi], ?_, abs_tail vals i len⟩
    exact ⟨by have := h.bound; omega, fun h1 => ⟨rfl, by rw [hb]; congr 1; omega⟩⟩

theorem nbNextBack_sim (hs : StepFns vals nf bf) (fwd bwd : Option Int) (len i : Nat) (h : NBInv vals fwd bwd len i) :
    ∃ f' b' len' i', nbNextBack bf fwd bwd len = .ok ((absList vals i len).getLast?, .nb f' b' len') ∧
      NBInv vals f' b' len' i' ∧ (absList vals i len).dropLast = absList vals i' len' := by
  unfold nbNextBack
  by_cases h0 : len = 0
  · subst h0
    exact ⟨fwd, bwd, 0, i, by simp [abs_zero], h, by simp [abs_zero]⟩
  · obtain ⟨hf, hb⟩ := h.cur h0
    have hb' := h.bound
    have hi : i + len - 1 < vals.length := by omega
    rw [hb, List.getElem?_eq_getElem hi]
    simp only [h0, if_false, hs.pv _ hi, Res.bind_ok]
    refine ⟨fwd, _, len - 1, i, by rw [abs_getLast vals i len hb' (by omega), List.getElem?_eq_getElem hi], ?_, abs_dropLast vals i len hb'⟩
    refine ⟨by omega, fun h1 => ⟨hf, ?_⟩⟩
    have : ¬ (i + len - 1 = 0) := by omega
    simp only [this, if_false]; congr 1; omega

theorem nbNth_sim (hs : StepFns vals nf bf) (k : Nat) : ∀ (fwd bwd : Option Int) (len i : Nat), NBInv vals fwd bwd len i →
    ∃ f' b' len' i', nbNth nf k fwd bwd len = .ok (((absList vals i len).drop k).head?, .nb f' b' len') ∧
      NBInv vals f' b' len' i' ∧ (absList vals i len).drop (k + 1) = absList vals i' len' := by
  induction k with
  | zero =>
    intro fwd bwd len i h
    obtain ⟨f', b', len', i', h1, h2, h3⟩ := nbNext_sim hs fwd bwd len i h
    exact ⟨f', b', len', i', by simpa [nbNth] using h1, h2, by simpa using h3⟩
  | succ k ih =>
    intro fwd bwd len i h
    obtain ⟨f', b', len', i', h1, h2, h3⟩ := nbNext_sim hs fwd bwd len i h
    unfold nbNth
    rw [h1]; simp only [Res.bind_ok]
    cases hl : absList vals i len with
    | nil =>
      rw [hl] at h3
      exact ⟨f', b', len', i', by simp, h2, by simpa using h3⟩
    | cons x xs =>
      rw [hl] at h3
      simp only [List.head?_cons, List.tail_cons] at h3 ⊢
      obtain ⟨f'', b'', len'', i'', h4, h5, h6⟩ := ih f' b' len' i' h2
      rw [← h3] at h4 h6
      exact ⟨f'', b'', len'', i'', by simpa using h4, h5, by simpa using h6⟩

theorem nbNthBack_sim (hs : StepFns vals nf bf) (k : Nat) : ∀ (fwd bwd : Option Int) (len i : Nat), NBInv vals fwd bwd len i →
    ∃ f' b' len' i', nbNthBack bf k fwd bwd len = .ok (((absList vals i len).reverse.drop k).head?, .nb f' b' len') ∧
      NBInv vals f' b' len' i' ∧ ((absList vals i len).reverse.drop (k + 1)).reverse = absList vals i' len' := by
  induction k with
  | zero =>
    intro fwd bwd len i h
    obtain ⟨f', b', len', i', h1, h2, h3⟩ := nbNextBack_sim hs fwd bwd len i h
    refine ⟨f', b', len', i', by simpa [nbNthBack, List.head?_reverse] using h1, h2, ?_⟩
    have : ((absList vals i len).reverse.drop 1).reverse = (absList vals i len).dropLast := by
      rw [List.drop_one, List.tail_reverse, List.reverse_reverse]
    rw [Nat.zero_add, this]; exact h3
  | succ k ih =>
    intro fwd bwd len i h
    obtain ⟨f', b', len', i', h1, h2, h3⟩ := nbNextBack_sim hs fwd bwd len i h
    unfold nbNthBack
    rw [h1]; simp only [Res.bind_ok]
    cases hl : (absList vals i len).getLast? with
    | none =>
      have hnil : absList vals i len = [] := List.getLast?_eq_none_iff.mp hl
      rw [hnil] at h3 ⊢
      exact ⟨f', b', len', i', by simp, h2, by simpa using h3⟩
    | some x =>
      obtain ⟨f'', b'', len'', i'', h4, h5, h6⟩ := ih f' b' len' i' h2
      rw [← h3] at h4 h6
      have hrev : (absList vals i len).reverse = x :: (absList vals i len).dropLast.reverse := by
        have hne : absList vals i len ≠ [] := by intro e; rw [e] at hl; simp at hl
        have hx : (absList vals i len).getLast hne = x := by
          rw [List.getLast?_eq_some_getLast hne] at hl; exact Option.some.inj hl
        have := List.dropLast_concat_getLast hne
        conv => lhs; rw [← this]
        simp [hx]
      refine ⟨f'', b'', len'', i'', ?_, h5, ?_⟩
      · simp only [hrev, List.drop_succ_cons]; simpa using h4
      · simp only [hrev, List.drop_succ_cons]; simpa using h6

/-- one operation: same output, and the new state represents the new remaining list -/
theorem step_sim (hs : StepFns vals nf bf) (st : IterState Int) (l : List Int) (h : Sim vals st l) (op : Op) :
    ∃ st', IterState.step nf bf st op = .ok (st', (Cursor.step l op).2) ∧ Sim vals st' (Cursor.step l op).1 := by
  cases h with
  | cursor l => exact ⟨.cursor (Cursor.step l op).1, rfl, Sim.cursor _⟩
  | nb fwd bwd len i h =>
    cases op with
    | next =>
      obtain ⟨f', b', len', i', h1, h2, h3⟩ := nbNext_sim hs fwd bwd len i h
      exact ⟨.nb f' b' len', by simp [IterState.step, h1, Cursor.step], by simp only [Cursor.step]; rw [h3]; exact Sim.nb _ _ _ _ h2⟩
    | nextBack =>
      obtain ⟨f', b', len', i', h1, h2, h3⟩ := nbNextBack_sim hs fwd bwd len i h
      exact ⟨.nb f' b' len', by simp [IterState.step, h1, Cursor.step], by simp only [Cursor.step]; rw [h3]; exact Sim.nb _ _ _ _ h2⟩
    | nth k =>
      obtain ⟨f', b', len', i', h1, h2, h3⟩ := nbNth_sim hs k fwd bwd len i h
      exact ⟨.nb f' b' len', by simp [IterState.step, h1, Cursor.step], by simp only [Cursor.step]; rw [h3]; exact Sim.nb _ _ _ _ h2⟩
    | nthBack k =>
      obtain ⟨f', b', len', i', h1, h2, h3⟩ := nbNthBack_sim hs k fwd bwd len i h
      exact ⟨.nb f' b' len', by simp [IterState.step, h1, Cursor.step], by simp only [Cursor.step]; rw [h3]; exact Sim.nb _ _ _ _ h2⟩
    | len =>
      exact ⟨.nb fwd bwd len, by simp [IterState.step, Cursor.step, abs_length vals i len h.bound], Sim.nb _ _ _ _ h⟩
    | sizeHint =>
      exact ⟨.nb fwd bwd len, by simp [IterState.step, Cursor.step, abs_length vals i len h.bound], Sim.nb _ _ _ _ h⟩

/-- any finite sequence of operations -/
theorem run_sim (hs : StepFns vals nf bf) (ops : List Op) : ∀ (st : IterState Int) (l : List Int), Sim vals st l →
    ∃ st', IterState.run nf bf st ops = .ok (st', (Cursor.run l ops).2) ∧ Sim vals st' (Cursor.run l ops).1 := by
  induction ops with
  | nil => intro st l h; exact ⟨st, rfl, h⟩
  | cons op ops ih =>
    intro st l h
    obtain ⟨st1, h1, h2⟩ := step_sim hs st l h op
    obtain ⟨st2, h3, h4⟩ := ih st1 _ h2
    refine ⟨st2, ?_, ?_⟩
    · simp only [IterState.run, h1, Res.bind_ok, h3, Cursor.run]
    · simpa [Cursor.run] using h4

theorem nbDrain_spec (hs : StepFns vals nf bf) : ∀ (len i : Nat), i + len ≤ vals.length →
    nbDrain nf len vals[i]? = .ok (absList vals i len) := by
  intro len
  induction len with
  | zero => intro i _; simp [nbDrain, abs_zero]
  | succ n ih =>
    intro i hb
    have hi : i < vals.length := by omega
    rw [List.getElem?_eq_getElem hi]
    simp only [nbDrain, hs.nx i hi, Res.bind_ok, ih (i + 1) (by omega), abs_cons vals i n hi]

theorem nbDrainBack_spec (hs : StepFns vals nf bf) : ∀ (len i : Nat), i + len ≤ vals.length → len ≠ 0 →
    nbDrainBack bf len vals[i + len - 1]? = .ok (absList vals i len).reverse := by
  intro len
  induction len with
  | zero => intro i _ h; exact absurd rfl h
  | succ n ih =>
    intro i hb _
    have hi : i + (n + 1) - 1 < vals.length := by omega
    have e : i + (n + 1) - 1 = i + n := by omega
    rw [List.getElem?_eq_getElem hi]
    simp only [nbDrainBack, hs.pv _ hi, Res.bind_ok]
    rw [abs_snoc vals i n (by omega), List.reverse_append]
    by_cases hn : n = 0
    · subst hn
      simp [nbDrainBack, abs_zero]
    · have : ¬ (i + (n + 1) - 1 = 0) := by omega
      simp only [this, if_false]
      have e2 : i + (n + 1) - 1 - 1 = i + n - 1 := by omega
      rw [e2, ih i (by omega) hn]
      simp [e]

/-- a consuming operation -/
theorem finish_sim (hs : StepFns vals nf bf) (st : IterState Int) (l : List Int) (h : Sim vals st l) (f : Fin) :
    IterState.finish nf bf st f = .ok (Cursor.finish l f) := by
  cases h with
  | cursor l => rfl
  | nb fwd bwd len i h =>
    have hfw : nbDrain nf len fwd = .ok (absList vals i len) := by
      by_cases h0 : len = 0
      · subst h0; simp [nbDrain, abs_zero]
      · rw [(h.cur h0).1]; exact nbDrain_spec hs len i h.bound
    have hbw : nbDrainBack bf len bwd = .ok (absList vals i len).reverse := by
      by_cases h0 : len = 0
      · subst h0; simp [nbDrainBack, abs_zero]
      · rw [(h.cur h0).2]; exact nbDrainBack_spec hs len i h.bound h0
    cases f <;> simp [IterState.finish, Cursor.finish, hfw, hbw]

end
end ET
