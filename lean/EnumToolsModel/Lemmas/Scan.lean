/-
Helper lemmas about the run-table scans of `try_from` / `TryFrom`.
-/
import EnumToolsModel.Lemmas.WF
namespace ET

theorem tryFromScan_eq (D : Derive) (v : Int) (tbl : List RangeEntry) :
    tryFromScan D v tbl = if v ∈ expandT tbl then (transmute D v).bind (fun e => .ok (some e)) else .ok none := by
  induction tbl with
  | nil => simp [tryFromScan, expandT]
  | cons r rest ih =>
    unfold tryFromScan
    have hmem : v ∈ expandT (r :: rest) ↔ (r.start ≤ v ∧ v ≤ r.stop) ∨ v ∈ expandT rest := by
      rw [expandT_cons, List.mem_append, mem_interval]
    by_cases hc : r.contains v = true
    · have := (r.contains_iff v).mp hc
      have hm : v ∈ expandT (r :: rest) := hmem.mpr (Or.inl this)
      simp [hc, hm]
    · have hn : ¬ (r.start ≤ v ∧ v ≤ r.stop) := fun hh => hc ((r.contains_iff v).mpr hh)
      simp only [hc, Bool.false_eq_true, if_false, ih]
      by_cases hr : v ∈ expandT rest
      · have hm : v ∈ expandT (r :: rest) := hmem.mpr (Or.inr hr)
        simp [hr, hm]
      · have hm : ¬ v ∈ expandT (r :: rest) := fun hh => (hmem.mp hh).elim hn hr
        simp [hr, hm]

theorem tryFromTraitScan_eq (D : Derive) (v : Int) (tbl : List RangeEntry) :
    tryFromTraitScan D v tbl = tryFromScan D v tbl := by
  induction tbl with
  | nil => rfl
  | cons r rest ih => simp [tryFromTraitScan, tryFromScan, ih]

end ET
