/-
range(a, b): positions of the end points, the MaybeUninit loop, and the filter of a sorted list.
-/
import EnumToolsModel.Lemmas.IterSim
import EnumToolsModel.Lemmas.Index
import EnumToolsModel.Lemmas.SortedExt
namespace ET

theorem sorted_getElem_lt_iff (l : List Int) (hs : l.Pairwise (· < ·)) (i j : Nat) (hi : i < l.length) (hj : j < l.length) :
    l[i] < l[j] ↔ i < j := by
  constructor
  · intro h
    by_cases hij : i < j
    · exact hij
    · exfalso
      by_cases e : i = j
      · subst e; omega
      · have := List.pairwise_iff_getElem.mp hs j i hj hi (by omega); omega
  · intro h; exact List.pairwise_iff_getElem.mp hs i j hi hj h

theorem sorted_getElem_le_iff (l : List Int) (hs : l.Pairwise (· < ·)) (i j : Nat) (hi : i < l.length) (hj : j < l.length) :
    l[i] ≤ l[j] ↔ i ≤ j := by
  have := sorted_getElem_lt_iff l hs j i hj hi
  constructor
  · intro h; by_cases hij : i ≤ j; exact hij; exfalso; have := this.mpr (by omega); omega
  · intro h
    by_cases e : i = j
    · subst e; omega
    · have := (sorted_getElem_lt_iff l hs i j hi hj).mpr (by omega); omega

theorem mem_absList (vals : List Int) (i len : Nat) (x : Int) :
    x ∈ absList vals i len ↔ ∃ j, i ≤ j ∧ j < i + len ∧ vals[j]? = some x := by
  unfold absList
  rw [List.mem_iff_getElem?]
  constructor
  · rintro ⟨k, hk⟩
    rw [List.getElem?_take] at hk
    split at hk
    · rename_i hlt
      rw [List.getElem?_drop] at hk
      exact ⟨i + k, by omega, by omega, hk⟩
    · cases hk
  · rintro ⟨j, h1, h2, h3⟩
    refine ⟨j - i, ?_⟩
    rw [List.getElem?_take]
    have : j - i < len := by omega
    simp only [this, if_true, List.getElem?_drop]
    have : i + (j - i) = j := by omega
    rw [this]; exact h3

/-- the variants between the i-th and the j-th smallest, inclusive -/
theorem filter_between_sorted (vals : List Int) (hs : vals.Pairwise (· < ·)) (ia ib : Nat)
    (ha : ia < vals.length) (hb : ib < vals.length) :
    vals.filter (fun v => decide (vals[ia] ≤ v) && decide (v ≤ vals[ib])) = absList vals ia (ib + 1 - ia) := by
  apply sorted_ext_int
  · exact hs.filter _
  · exact List.Pairwise.sublist ((List.take_sublist _ _).trans (List.drop_sublist _ _)) hs
  · intro x
    rw [List.mem_filter, mem_absList]
    simp only [Bool.and_eq_true, decide_eq_true_eq]
    constructor
    · rintro ⟨hx, h1, h2⟩
      obtain ⟨j, hj, rfl⟩ := List.getElem_of_mem hx
      have e1 := (sorted_getElem_le_iff vals hs ia j ha hj).mp h1
      have e2 := (sorted_getElem_le_iff vals hs j ib hj hb).mp h2
      exact ⟨j, e1, by omega, List.getElem?_eq_getElem hj⟩
    · rintro ⟨j, h1, h2, h3⟩
      obtain ⟨hj, rfl⟩ := List.getElem?_eq_some_iff.mp h3
      exact ⟨List.getElem_mem hj, (sorted_getElem_le_iff vals hs ia j ha hj).mpr h1,
        (sorted_getElem_le_iff vals hs j ib hj hb).mpr (by omega)⟩

/-- position of a variant through the gapless index expression -/
theorem pos_gapless (D : Derive) (t : Target) (h : D.WF) (ht : t.WF) (hg : D.gapless = true) (v : Int) (hv : v ∈ D.vals) :
    ∃ k, D.vals[k]? = some v ∧ toIndex D t (D.repr.wrap (v - minC D)) = k := by
  have hvm := (h.mem_gapless hg v).mp hv
  have hint := h.gapless_interval hg
  let k := (v - D.minKey).toNat
  have hkv : D.vals[k]? = some v := by
    rw [hint, interval_getElem? _ _ _ (by omega)]; congr 1; omega
  have hklt : k < D.numValues := by
    rw [← D.vals_length]; exact (List.getElem?_eq_some_iff.mp hkv).1
  exact ⟨k, hkv, by unfold minC; exact toIndex_of_pos D t h ht (v - D.minKey) k hklt (by congr 1; omega)⟩

/-- position of a variant through the run table: the run that contains it and its offset -/
theorem pos_holes (D : Derive) (t : Target) (h : D.WF) (ht : t.WF) (v : Int) (hv : v ∈ D.vals) :
    ∃ r k, (tableRange D).find? (fun r => r.contains v) = some r ∧ D.vals[k]? = some v ∧
      toIndex D t (D.repr.wrap (v - r.ofs)) = k := by
  obtain ⟨hwf, hex, hofs, _⟩ := h.table
  obtain ⟨r, kr, hf, h1, h2, h3, h4, h5⟩ := table_find_index D.repr v (tableRange D) 0 [] hwf hofs rfl (by rw [hex]; exact hv)
  simp only [List.nil_append, hex] at h5
  let k := (kr + (v - r.start)).toNat
  have hklt : k < D.numValues := by
    rw [← D.vals_length]; exact (List.getElem?_eq_some_iff.mp h5).1
  refine ⟨r, k, hf, h5, ?_⟩
  rw [h3]
  exact toIndex_of_pos D t h ht _ k hklt (by rw [sub_wrap_sub_wrap_emod]; congr 1; omega)

/-- no entry after one that contains `x` contains `x` -/
theorem WFTable.not_contains_later {r : RangeEntry} {rest : List RangeEntry} (hwf : WFTable (r :: rest)) (x : Int)
    (hc : r.contains x = true) : ∀ r' ∈ rest, r'.contains x = false := by
  intro r' hr'
  cases hcc : r'.contains x with
  | false => rfl
  | true =>
    exfalso
    have h1 := (r.contains_iff x).mp hc
    have h2 := (r'.contains_iff x).mp hcc
    have : x ∈ expandT rest := (mem_expandT rest x).mpr ⟨r', hr', h2⟩
    have := hwf.above x this
    omega

/-- the loop leaves a slot alone when no entry contains the value -/
theorem rangeIdxLoop_none (D : Derive) (t : Target) (s e : Int) :
    ∀ (tbl : List RangeEntry) (si ei : Option Nat),
      ((∀ r ∈ tbl, r.contains s = false) → (rangeIdxLoop D t s e tbl (si, ei)).1 = si) ∧
      ((∀ r ∈ tbl, r.contains e = false) → (rangeIdxLoop D t s e tbl (si, ei)).2 = ei) := by
  intro tbl
  induction tbl with
  | nil => intro si ei; exact ⟨fun _ => rfl, fun _ => rfl⟩
  | cons r rest ih =>
    intro si ei
    constructor
    · intro hn
      have h0 := hn r (by simp)
      simp only [rangeIdxLoop, h0, Bool.false_eq_true, if_false]
      exact (ih si _).1 (fun r' hr' => hn r' (by simp [hr']))
    · intro hn
      have h0 := hn r (by simp)
      simp only [rangeIdxLoop, h0, Bool.false_eq_true, if_false]
      exact (ih _ ei).2 (fun r' hr' => hn r' (by simp [hr']))

/-- each slot ends up holding the index computed from the (only) run containing its value -/
theorem rangeIdxLoop_find (D : Derive) (t : Target) (s e : Int) :
    ∀ (tbl : List RangeEntry) (si ei : Option Nat), WFTable tbl →
      (∀ r, tbl.find? (fun r => r.contains s) = some r →
        (rangeIdxLoop D t s e tbl (si, ei)).1 = some (toIndex D t (D.repr.wrap (s - r.ofs)))) ∧
      (∀ r, tbl.find? (fun r => r.contains e) = some r →
        (rangeIdxLoop D t s e tbl (si, ei)).2 = some (toIndex D t (D.repr.wrap (e - r.ofs)))) := by
  intro tbl
  induction tbl with
  | nil => intro si ei _; exact ⟨fun r h => by simp at h, fun r h => by simp at h⟩
  | cons r rest ih =>
    intro si ei hwf
    constructor
    · intro r0 hf
      rw [List.find?_cons] at hf
      by_cases hc : r.contains s = true
      · simp only [hc] at hf
        have : r0 = r := (Option.some.inj hf).symm
        subst this
        simp only [rangeIdxLoop, hc, if_true]
        exact (rangeIdxLoop_none D t s e rest _ _).1 (hwf.not_contains_later s hc)
      · have hc' : r.contains s = false := by cases h : r.contains s <;> simp_all
        simp only [hc'] at hf
        simp only [rangeIdxLoop, hc', Bool.false_eq_true, if_false]
        exact (ih si _ hwf.tail).1 r0 hf
    · intro r0 hf
      rw [List.find?_cons] at hf
      by_cases hc : r.contains e = true
      · simp only [hc] at hf
        have : r0 = r := (Option.some.inj hf).symm
        subst this
        simp only [rangeIdxLoop, hc, if_true]
        exact (rangeIdxLoop_none D t s e rest _ _).2 (hwf.not_contains_later e hc)
      · have hc' : r.contains e = false := by cases h : r.contains e <;> simp_all
        simp only [hc'] at hf
        simp only [rangeIdxLoop, hc', Bool.false_eq_true, if_false]
        exact (ih _ ei hwf.tail).2 r0 hf

/-- `assume_init` is justified: both indices are written, and they are the positions of `a` and `b` -/
theorem rangeIdx_spec (D : Derive) (t : Target) (h : D.WF) (ht : t.WF) (a b : Int) (ha : a ∈ D.vals) (hb : b ∈ D.vals) :
    ∃ ia ib, rangeIdx D t a b = .ok (ia, ib) ∧ D.vals[ia]? = some a ∧ D.vals[ib]? = some b := by
  obtain ⟨ra, ia, hfa, hva, hia⟩ := pos_holes D t h ht a ha
  obtain ⟨rb, ib, hfb, hvb, hib⟩ := pos_holes D t h ht b hb
  obtain ⟨hwf, _, _, _⟩ := h.table
  have hl := rangeIdxLoop_find D t a b (tableRange D) none none hwf
  refine ⟨ia, ib, ?_, hva, hvb⟩
  unfold rangeIdx
  have e1 := hl.1 ra hfa
  have e2 := hl.2 rb hfb
  rw [hia] at e1; rw [hib] at e2
  cases hres : rangeIdxLoop D t a b (tableRange D) (none, none) with
  | mk x y =>
    rw [hres] at e1 e2
    simp only at e1 e2
    subst e1; subst e2
    rfl

/-- on an ascending list, the filter of `[a, b]` is the filter of `[a, m]` followed by that of `[m+1, b]` -/
theorem filter_split (a m b : Int) (ha : a ≤ m + 1) (hb : m ≤ b) : ∀ (l : List Int), l.Pairwise (· < ·) →
    l.filter (fun v => decide (a ≤ v) && decide (v ≤ b))
      = l.filter (fun v => decide (a ≤ v) && decide (v ≤ m)) ++ l.filter (fun v => decide (m + 1 ≤ v) && decide (v ≤ b))
  | [], _ => rfl
  | x :: xs, hp => by
    rw [List.pairwise_cons] at hp
    have ih := filter_split a m b ha hb xs hp.2
    by_cases h1 : x ≤ m
    · by_cases h0 : a ≤ x
      · have : ¬ (m + 1 ≤ x) := by omega
        have hxb : x ≤ b := by omega
        simp [h0, h1, this, hxb, ih]
      · have : ¬ (m + 1 ≤ x) := by omega
        simp [h0, this, ih]
    · have hnil : xs.filter (fun v => decide (a ≤ v) && decide (v ≤ m)) = [] := by
        rw [List.filter_eq_nil_iff]; intro y hy
        have := hp.1 y hy
        simp only [Bool.and_eq_true, decide_eq_true_eq]; omega
      have h0 : a ≤ x := by omega
      have h2 : m + 1 ≤ x := by omega
      by_cases h3 : x ≤ b
      · simp [h0, h1, h2, h3, hnil, ih]
      · simp [h0, h1, h2, h3, hnil, ih]

end ET
