/-
Recorded findings as theorems: the *negation* of a full-strength statement, with its witness.
This module is deliberately not imported by any `Thm/Cxx.lean`: when a finding is repaired in /repo
(either way: the parser learns the mode, or the documentation drops it) this file stops compiling and
no property check is affected; `known_findings.json` is then out of date and should be edited.
-/
import EnumToolsModel.Lemmas.C10Aux
namespace ET.Findings
open ET ET.Thm ET.Generated

/-- KNOWN FINDING (negation of the full-strength statement): the documentation lists mode `"match"` for
`iter`, the parser does not accept it -/
theorem D6_docs_iter_match_rejected :
    (docFeatures.any (fun d => d.key == "iter" && d.modes.contains "match")) = true ∧
    (match specOf "iter" with | some s => s.modes.contains "match" | none => true) = false := by
  decide +kernel


end ET.Findings
