/-
`etmodel`: the executable model.  Reads declarations + operations (the same file the Rust harness
reads), runs the macro-time model (`expand`) and the schema models, and prints for every
operation the schema-model outcome `M=` and the specification's answer `S=`.
-/
import EnumToolsModel.DriverLib
open ET ET.Drv

def main : IO Unit := do
  let stdin ← IO.getStdin
  let stdout ← IO.getStdout
  loop (fun _ _ _ => none) stdin stdout {}
