import EnumToolsModel.Basic
import EnumToolsModel.Decl
import EnumToolsModel.Parse
import EnumToolsModel.Config
import EnumToolsModel.Macro
import EnumToolsModel.Gen
import EnumToolsModel.Iter
import EnumToolsModel.Spec
