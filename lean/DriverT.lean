/-
`ettrans`: the same protocol, with a third column `T=`: the outcome of the function bodies translated
from the quote! templates of /repo/src (`Generated/Templates.lean`, run through `TRun.lean`).
-/
import EnumToolsModel.DriverLib
import EnumToolsModel.TRun
open ET ET.Drv

/-- the same operations on the translated templates -/
def runIterT (D : Derive) (t : Target) (md : Modes) (init : Res (IterState Int)) (toks : List String) : String :=
  let (opToks, finToks) := toks.span (· ≠ ";")
  let ops := opToks.filterMap parseOp
  let finp := (finToks.drop 1).head?.bind parseFinPost
  let f := fun (v : Int) => toString v
  let r : Res String := init.bind fun st =>
    (T.runT D t md st ops).bind fun (st', outs) =>
      match finp with
      | none => .ok (" ".intercalate (outs.map (showOut f)))
      | some (fn, post) => (T.finishT D t md st' fn).bind fun o =>
          .ok (" ".intercalate (outs.map (showOut f) ++ [showOutF f (postFin (fun a b => decide (a < b)) post o)]))
  showRes id r

def runNamesT (init : Res (IterState Name)) (toks : List String) : String :=
  let (opToks, finToks) := toks.span (· ≠ ";")
  let ops := opToks.filterMap parseOp
  let finp := (finToks.drop 1).head?.bind parseFinPost
  let r : Res String := init.bind fun st =>
    match st with
    | .cursor l =>
      let (l', outs) := Cursor.run l ops
      .ok (" ".intercalate (outs.map (showOut hex) ++ (match finp with | none => [] | some (fn, post) => [showOutF hex (postFin nameLt post (Cursor.finish l' fn))])))
    | _ => .ok "?"
  showRes id r

/-- the outcome of the translated template (`Generated/Templates.lean`) for the operation, when it has one -/
def execT (t : Target) (x : Expansion) (toks : List String) : Option String :=
  let D := x.D
  let md := x.modes
  match toks with
  | ["tf", v] => some (showRes showOptInt (T.tryFromFn D t md v.toInt!))
  | ["tt", v] => some (showRes showOptInt (T.tryFromTrait D t md v.toInt!))
  | ["into", v] => some (showRes toString (T.intoFn D t md v.toInt!))
  | ["Into", v] => some (showRes toString (T.intoTrait D t md v.toInt!))
  | ["next", v] => some (showRes showOptInt (T.next D t md v.toInt!))
  | ["nb", v] => some (showRes showOptInt (T.nextBack D t md v.toInt!))
  | ["as", v] => some (showRes hex (T.asStr D t md v.toInt!))
  | ["disp", v] => some (showRes hex (T.display D t md v.toInt!))
  | ["dbg", v] => some (showRes hex (T.debug D t md v.toInt!))
  | ["istr", v] => some (showRes hex (T.intoStr D t md v.toInt!))
  | ["fs", v] => some (showRes showOptInt (T.fromStrFn D t md (unhex v)))
  | ["ft", v] => some (showRes showOptInt (T.fromStrTrait D t md (unhex v)))
  | "iter" :: rest => some (runIterT D t md (T.iter D t md) rest)
  | "range" :: a :: b :: rest => some (runIterT D t md (T.range D t md a.toInt! b.toInt!) rest)
  | "names" :: rest => some (runNamesT (T.names D t md) rest)
  | _ => none


/-- `PRIM <id> …`: one operation of the vocabulary of `Rust.lean` on literal arguments (`harness/primitives.py`) -/
def execPrim (toks : List String) : String :=
  let showR (r : Res Int) : String := match r with | .ok v => toString v | .panic _ => "PANIC" | .ub _ => "UB"
  let prim (s b : String) : Prim := ⟨s = "1", b.toNat!⟩
  match toks with
  | ["cast", s, b, x] => toString (Rust.cast (prim s b) x.toInt!)
  | ["wadd", s, b, x, y] => toString (Rust.wrappingAdd (prim s b) x.toInt! y.toInt!)
  | ["wsub", s, b, x, y] => toString (Rust.wrappingSub (prim s b) x.toInt! y.toInt!)
  | ["add", s, b, x, y] => showR (Rust.add (prim s b) x.toInt! y.toInt!)
  | ["sub", s, b, x, y] => showR (Rust.sub (prim s b) x.toInt! y.toInt!)
  | ["contains", lo, hi, x] => toString (RangeEntry.contains ⟨lo.toInt!, hi.toInt!, 0⟩ x.toInt!)
  | ["slice", n, lo, hi] =>
    (match Rust.sliceExcl (List.range n.toNat!) lo.toInt! hi.toInt! with
     | .ok l => toString l | .panic _ => "PANIC" | .ub _ => "UB")
  | "iter" :: n :: rest =>
    -- the specification's cursor over [0, …, n-1] under the same script language
    let l : List Int := (List.range n.toNat!).map (fun (k : Nat) => (k : Int))
    let (opToks, finToks) := rest.span (· ≠ ";")
    let ops := opToks.filterMap parseOp
    let finp := (finToks.drop 1).head?.bind parseFinPost
    let f := fun (v : Int) => toString v
    let (l', outs) := Cursor.run l ops
    " ".intercalate (outs.map (showOut f) ++ (match finp with
      | none => []
      | some (fn, post) => [showOutF f (postFin (fun a b => decide (a < b)) post (Cursor.finish l' fn))]))
  | ["index", n, i] =>
    (match Rust.index (List.range n.toNat!) i.toInt! with
     | .ok v => toString v | .panic _ => "PANIC" | .ub _ => "UB")
  | _ => "?"

partial def loopT (h : IO.FS.Stream) (out : IO.FS.Stream) (st : St) : IO Unit := do
  let line ← h.getLine
  if line.isEmpty then return ()
  let toks := (line.trimAscii.toString.splitOn " ").filter (· ≠ "")
  match toks with
  | "PRIM" :: id :: rest =>
    out.putStrLn s!"{id} {execPrim rest}"
    loopT h out st
  | _ =>
    let (st', o) := step execT st line
    match o with
    | some s => out.putStrLn s
    | none => pure ()
    loopT h out st'

def main : IO Unit := do
  let stdin ← IO.getStdin
  let stdout ← IO.getStdout
  loopT stdin stdout {}
