/-
`ettrans`: the same protocol, with a third column `T=`: the outcome of the function bodies translated
from the quote! templates of /repo/src (`Generated/Templates.lean`, run through `TRun.lean`).
-/
import EnumToolsModel.DriverLib
import EnumToolsModel.TRun
open ET ET.Drv

/-- the same operations on the translated templates -/
def runIterT (D : Derive) (t : Target) (md : Modes) (init : Res (IterState Int)) (toks : List String) : String :=
  let (opToks, finToks) := toks.span (· ≠ ";")
  let ops := opToks.filterMap parseOp
  let finp := (finToks.drop 1).head?.bind parseFinPost
  let f := fun (v : Int) => toString v
  let r : Res String := init.bind fun st =>
    (T.runT D t md st ops).bind fun (st', outs) =>
      match finp with
      | none => .ok (" ".intercalate (outs.map (showOut f)))
      | some (fn, post) => (T.finishT D t md st' fn).bind fun o =>
          .ok (" ".intercalate (outs.map (showOut f) ++ [showOutF f (postFin (fun a b => decide (a < b)) post o)]))
  showRes id r

def runNamesT (init : Res (IterState Name)) (toks : List String) : String :=
  let (opToks, finToks) := toks.span (· ≠ ";")
  let ops := opToks.filterMap parseOp
  let finp := (finToks.drop 1).head?.bind parseFinPost
  let r : Res String := init.bind fun st =>
    match st with
    | .cursor l =>
      let (l', outs) := Cursor.run l ops
      .ok (" ".intercalate (outs.map (showOut hex) ++ (match finp with | none => [] | some (fn, post) => [showOutF hex (postFin nameLt post (Cursor.finish l' fn))])))
    | _ => .ok "?"
  showRes id r

/-- the outcome of the translated template (`Generated/Templates.lean`) for the operation, when it has one -/
def execT (t : Target) (x : Expansion) (toks : List String) : Option String :=
  let D := x.D
  let md := x.modes
  match toks with
  | ["tf", v] => some (showRes showOptInt (T.tryFromFn D t md v.toInt!))
  | ["tt", v] => some (showRes showOptInt (T.tryFromTrait D t md v.toInt!))
  | ["into", v] => some (showRes toString (T.intoFn D t md v.toInt!))
  | ["Into", v] => some (showRes toString (T.intoTrait D t md v.toInt!))
  | ["next", v] => some (showRes showOptInt (T.next D t md v.toInt!))
  | ["nb", v] => some (showRes showOptInt (T.nextBack D t md v.toInt!))
  | ["as", v] => some (showRes hex (T.asStr D t md v.toInt!))
  | ["disp", v] => some (showRes hex (T.display D t md v.toInt!))
  | ["dbg", v] => some (showRes hex (T.debug D t md v.toInt!))
  | ["istr", v] => some (showRes hex (T.intoStr D t md v.toInt!))
  | ["fs", v] => some (showRes showOptInt (T.fromStrFn D t md (unhex v)))
  | ["ft", v] => some (showRes showOptInt (T.fromStrTrait D t md (unhex v)))
  | "iter" :: rest => some (runIterT D t md (T.iter D t md) rest)
  | "range" :: a :: b :: rest => some (runIterT D t md (T.range D t md a.toInt! b.toInt!) rest)
  | "names" :: rest => some (runNamesT (T.names D t md) rest)
  | _ => none


def main : IO Unit := do
  let stdin ← IO.getStdin
  let stdout ← IO.getStdout
  loop execT stdin stdout {}
