#!/bin/bash
# usage: tools/run_lanes.sh <seeded|harmless> <lanes> [names...]
# Runs tools/run_seeded.py / run_harmless.py in <lanes> parallel lanes.  Each lane has a private clone of /repo and a private copy of
# /verif under /tmp/lanes/<k> (the checks honour VERIF_REPO), so /repo itself is never touched; results are merged into
# seeded*/RESULTS.json and the lanes are removed.
set -e
kind=$1; n=$2; shift 2
dir=/verif/seeded; tool=run_seeded.py
[ "$kind" = harmless ] && { dir=/verif/seeded-harmless; tool=run_harmless.py; }
names=("$@")
[ ${#names[@]} -eq 0 ] && names=($(cd $dir && ls -d */ | tr -d /))
rm -rf /tmp/lanes; mkdir -p /tmp/lanes
for k in $(seq 1 $n); do
  mkdir -p /tmp/lanes/$k
  git clone -q /repo /tmp/lanes/$k/repo
  rsync -a --exclude .git --exclude evidence/replays /verif/ /tmp/lanes/$k/verif/ || [ $? -eq 24 ]   # 24: files of a concurrent run vanished
  mine=(); i=0
  for x in "${names[@]}"; do [ $((i % n + 1)) -eq $k ] && mine+=("$x"); i=$((i+1)); done
  ( cd /tmp/lanes/$k/verif && LANE_REPO=/tmp/lanes/$k/repo LANE_VERIF=/tmp/lanes/$k/verif LANE_RESULTS=/tmp/lanes/$k/results.json \
      python3 /verif/tools/$tool "${mine[@]}" > /tmp/lanes/$k/log 2>&1 ) &
done
wait
python3 - "$dir" "$n" "${#names[@]}" <<'PY'
import json, os, sys
d, n, asked = sys.argv[1], int(sys.argv[2]), int(sys.argv[3])
rp = os.path.join(d, "RESULTS.json")
res = json.load(open(rp)) if os.path.exists(rp) else {}
got = 0
for k in range(1, n + 1):
    p = f"/tmp/lanes/{k}/results.json"
    if os.path.exists(p):
        r = json.loads(open(p).read().replace(f"/tmp/lanes/{k}/verif", "/verif").replace(f"/tmp/lanes/{k}/repo", "/repo"))
        got += len(r); res.update(r)
json.dump(dict(sorted(res.items())), open(rp, "w"), indent=1)
print("merged", got, "of", asked)
PY
cat /tmp/lanes/*/log | grep -v "^C..-m\|^R3-\|^[A-E]2\?-h" | head -20
rm -rf /tmp/lanes
