#!/bin/bash
# usage: tools/run_lanes.sh <seeded|harmless> <lanes> [names...]
# Runs tools/run_seeded.py / run_harmless.py in <lanes> parallel lanes.  Each lane has a private clone of /repo and a private copy of
# /verif under $L/<k> (the checks honour VERIF_REPO), so /repo itself is never touched; results are merged into
# seeded*/RESULTS.json and the lanes are removed.
set -e
L=${LANES_DIR:-/tmp/lanes}
kind=$1; n=$2; shift 2
dir=/verif/seeded; tool=run_seeded.py
[ "$kind" = harmless ] && { dir=/verif/seeded-harmless; tool=run_harmless.py; }
names=("$@")
[ ${#names[@]} -eq 0 ] && names=($(cd $dir && ls -d */ | tr -d /))
rm -rf $L; mkdir -p $L
for k in $(seq 1 $n); do
  mkdir -p $L/$k
  git clone -q /repo $L/$k/repo
  rsync -a --exclude .git --exclude evidence/replays --exclude work/cache /verif/ $L/$k/verif/ || [ $? -eq 24 ]   # 24: files of a concurrent run vanished
  mine=(); i=0
  for x in "${names[@]}"; do [ $((i % n + 1)) -eq $k ] && mine+=("$x"); i=$((i+1)); done
  ( cd $L/$k/verif && LANE_REPO=$L/$k/repo LANE_VERIF=$L/$k/verif LANE_RESULTS=$L/$k/results.json \
      python3 /verif/tools/$tool "${mine[@]}" > $L/$k/log 2>&1 ) &
done
wait
python3 - "$dir" "$n" "${#names[@]}" "$L" <<'PY'
import json, os, sys
d, n, asked, L = sys.argv[1], int(sys.argv[2]), int(sys.argv[3]), sys.argv[4]
rp = os.path.join(d, "RESULTS.json")
res = json.load(open(rp)) if os.path.exists(rp) else {}
got = 0
for k in range(1, n + 1):
    p = f"{L}/{k}/results.json"
    if os.path.exists(p):
        r = json.loads(open(p).read().replace(f"{L}/{k}/verif", "/verif").replace(f"{L}/{k}/repo", "/repo"))
        got += len(r); res.update(r)
json.dump(dict(sorted(res.items())), open(rp, "w"), indent=1)
print("merged", got, "of", asked)
PY
cat $L/*/log | grep -v "^C..-m\|^R3-\|^[A-E]2\?-h" | head -20
rm -rf $L
