#!/usr/bin/env python3
"""usage: tools/confirm_mutant.py <PROP> <k> [--props C03,C09]
Confirms a sub-agent's change in its scratch worktree /tmp/mut/<PROP>:
  suite passes with the change, demo fails with it, demo passes without it;
then runs the quick checks against /repo with the change applied and stores everything under
/verif/seeded/<PROP>-m<k>/ (patch.diff, demo.rs, notes.md, meta.json)."""
import json, os, re, shutil, subprocess, sys

prop, k = sys.argv[1], sys.argv[2]
props = [prop]
if len(sys.argv) > 4 and sys.argv[3] == "--props":
    props = sys.argv[4].split(",")
wt = f"/tmp/mut/{prop}"
src = f"{os.environ.get('MUTOUT', '/tmp/mutout')}/{prop}/m{k}"
env = dict(os.environ, CARGO_NET_OFFLINE="true")

def sh(cmd, cwd=wt, timeout=1800):
    p = subprocess.run(cmd, shell=True, cwd=cwd, env=env, capture_output=True, text=True, timeout=timeout)
    return p.returncode, p.stdout + p.stderr

def clean():
    sh("git checkout -- . && rm -f tests/demo.rs")

PHASE = os.environ.get("PHASE", "ab")
cj = f"{src}/confirm.json"
if "a" not in PHASE and os.path.exists(cj):
    saved = json.load(open(cj))
else:
    saved = None
    clean()
meta = {"property": prop, "source": f"sub-agent mut-{prop}, change m{k}", "ran": []}
if saved is None:
  rc, out = sh(f"git apply {src}/patch.diff")
  assert rc == 0, out
if saved is None:
  rc, out = sh("cargo test --workspace --no-fail-fast --offline 2>&1")
  out = "\n".join(l for l in out.splitlines() if re.match(r"test result|.*FAILED|error", l))
  fails = re.findall(r"test result: FAILED|error(\[|:)", out)
  passed = sum(int(x) for x in re.findall(r"(\d+) passed", out))
  meta["suite_with_change"] = {"passed": passed, "failed": len(fails)}
  meta["ran"].append("cargo test --workspace --no-fail-fast --offline   (with the change)")
  shutil.copy(f"{src}/demo.rs", f"{wt}/tests/demo.rs")
  rc1, out1 = sh("cargo test --offline --test demo 2>&1"); out1 = out1[-1500:]
  meta["demo_with_change_rc"] = rc1
  meta["ran"].append("cargo test --offline --test demo   (with the change: must fail)")
  sh("git checkout -- .")
  rc2, out2 = sh("cargo test --offline --test demo 2>&1"); out2 = out2[-600:]
  meta["demo_without_change_rc"] = rc2
  meta["ran"].append("cargo test --offline --test demo   (without the change: must pass)")
  clean()
  json.dump({"meta": meta, "rc": rc, "fails": len(fails), "passed": passed, "rc1": rc1, "rc2": rc2, "out": out[-500:], "out1": out1, "out2": out2}, open(cj, "w"))
else:
  meta.update(saved["meta"]); rc, passed, rc1, rc2, out, out1, out2 = (saved[k_] for k_ in ("rc", "passed", "rc1", "rc2", "out", "out1", "out2")); fails = [0] * saved["fails"]
ok = (rc == 0 and len(fails) == 0 and passed >= 48 and rc1 != 0 and rc2 == 0)
meta["confirmed"] = ok
if "b" not in PHASE:
    print(prop, k, "confirmed" if ok else "NOT CONFIRMED"); sys.exit(0)
# our checks
res = {}
r = subprocess.run(["git", "-C", "/repo", "diff", "--quiet"])
assert r.returncode == 0, "repo dirty"
subprocess.run(["git", "-C", "/repo", "apply", f"{src}/patch.diff"], check=True)
try:
    for p in props:
        q = subprocess.run(["./check", p, "--tier", "quick"], cwd="/verif", capture_output=True, text=True)
        lines = [l for l in q.stdout.splitlines() if re.match(r"(OK|VIOLATION|KNOWN|INTERNAL)", l)]
        res[p] = {"rc": q.returncode, "lines": lines[:3]}
        for l in lines[:1]:
            m = re.search(r"replay=(\S+)", l)
            if m and os.path.exists(m.group(1)):
                v = json.load(open(m.group(1)))
                res[p]["replay_excerpt"] = {kk: v.get(kk) for kk in ("kind", "operation", "implementation", "specification", "note", "no_failing_input", "what") if kk in v}
finally:
    subprocess.run(["git", "-C", "/repo", "checkout", "--", "."], check=True)
    subprocess.run(["git", "-C", "/repo", "clean", "-fdq", "src", "tests"], check=True)
meta["checks_quick"] = res
meta["detected_by"] = [p for p, v in res.items() if v["rc"] == 1]
notes = open(f"{src}/notes.md").read() if os.path.exists(f"{src}/notes.md") else ""
m = re.search(r"(?is)(needs?|manifest)[^\n]*\n(.{0,600})", notes)
meta["needs_to_manifest"] = (notes[:1500])
print(json.dumps({k_: meta[k_] for k_ in ("confirmed", "suite_with_change", "demo_with_change_rc", "demo_without_change_rc", "detected_by")}))
for p, v in res.items():
    print(" ", p, v["rc"], v["lines"][:1], v.get("replay_excerpt", ""))
if ok:
    dst = f"/verif/seeded/{prop}-m{k}"
    os.makedirs(dst, exist_ok=True)
    for f in ("patch.diff", "demo.rs", "notes.md"):
        if os.path.exists(f"{src}/{f}"):
            shutil.copy(f"{src}/{f}", f"{dst}/{f}")
    json.dump(meta, open(f"{dst}/meta.json", "w"), indent=1)
else:
    print("NOT CONFIRMED:", out[-500:], out1[-800:], out2[-500:])
