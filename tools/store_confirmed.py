#!/usr/bin/env python3
"""usage: MUTOUT=/tmp/mutoutN tools/store_confirmed.py <PROP> <k>
Stores a change that tools/confirm_mutant.py (PHASE=a) has confirmed in its worktree under /verif/seeded/<PROP>-m<k>/ without running
the checks (tools/run_lanes.sh seeded <n> <names> does that afterwards)."""
import json, os, shutil, sys
prop, k = sys.argv[1], sys.argv[2]
src = f"{os.environ.get('MUTOUT', '/tmp/mutout')}/{prop}/m{k}"
c = json.load(open(f"{src}/confirm.json"))
ok = c["rc"] == 0 and c["fails"] == 0 and c["passed"] >= 48 and c["rc1"] != 0 and c["rc2"] == 0
if not ok:
    print(prop, k, "NOT CONFIRMED", c["out"][-300:], c["out1"][-500:], c["out2"][-300:]); sys.exit(1)
meta = dict(c["meta"], confirmed=True)
notes = open(f"{src}/notes.md").read() if os.path.exists(f"{src}/notes.md") else ""
meta["needs_to_manifest"] = notes[:1500]
dst = f"/verif/seeded/{prop}-m{k}"
os.makedirs(dst, exist_ok=True)
for f in ("patch.diff", "demo.rs", "notes.md"):
    if os.path.exists(f"{src}/{f}"):
        shutil.copy(f"{src}/{f}", f"{dst}/{f}")
json.dump(meta, open(f"{dst}/meta.json", "w"), indent=1)
print(prop, k, "stored")
