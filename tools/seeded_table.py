#!/usr/bin/env python3
"""seeded/RESULTS.json + meta.json -> seeded/README.md (which check catches which change, with what witness)"""
import json, os
S = "/verif/seeded"
res = json.load(open(os.path.join(S, "RESULTS.json")))
rows = []
for name in sorted(res):
    meta = json.load(open(os.path.join(S, name, "meta.json")))
    first = ""
    notes = os.path.join(S, name, "notes.md")
    if os.path.exists(notes):
        for l in open(notes):
            l = l.strip()
            if l and not l.startswith("#"):
                first = l[:160]; break
    for p, e in res[name].items():
        w = e.get("witness") or {}
        wit = w.get("operation") or w.get("probe_class") or w.get("what_no_longer_checks") or ""
        if isinstance(wit, dict):
            wit = f"{wit.get('kind')}: {wit.get('module', '')} {wit.get('msg', '')}"
        if w.get("implementation") is not None and w.get("operation"):
            wit += f" → {str(w.get('implementation'))[:40]} (spec {str(w.get('specification'))[:40]})"
        rows.append((name, p, "VIOLATION" if e["rc"] == 1 else ("OK (missed)" if e["rc"] == 0 else "INTERNAL-ERROR"),
                     e.get("kind") or "", wit.replace("|", "/")[:150], e.get("wall_s"), first.replace("|", "/")))
with open(os.path.join(S, "README.md"), "w") as f:
    f.write("# Seeded breaking changes and the check that reports each\n\n"
            "Written by independent sub-agents (property text + scratch worktree only), confirmed (suite passes with the change, "
            "demo fails with it and passes without), then run with `tools/run_seeded.py`: apply to /repo, `./check <property> --tier quick`, undo.\n\n"
            "| change | check | outcome | kind | witness (replay excerpt) | s | what the change is |\n|---|---|---|---|---|---|---|\n")
    for r in rows:
        f.write("| " + " | ".join(str(x) for x in r) + " |\n")
    n = len(rows); v = sum(1 for r in rows if r[2] == "VIOLATION")
    f.write(f"\n{v} of {n} reported as VIOLATION.\n")
print(open(os.path.join(S, "README.md")).read()[-400:])
