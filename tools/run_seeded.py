#!/usr/bin/env python3
"""Apply every seeded change to /repo in turn, run the quick check of the property it targets (and
of the properties recorded as detecting it), undo, and write seeded/RESULTS.json."""
import json, os, re, subprocess, sys, time
# lanes: LANE_REPO / LANE_VERIF point at private copies of /repo and /verif (tools/run_lanes.sh), LANE_RESULTS at the lane's result file
REPO = os.environ.get("LANE_REPO", "/repo")
VERIF = os.environ.get("LANE_VERIF", "/verif")
ENV = dict(os.environ, VERIF_REPO=REPO)
SEEDED = "/verif/seeded"
only = sys.argv[1:]
RES = os.environ.get("LANE_RESULTS", os.path.join(SEEDED, "RESULTS.json"))
results = json.load(open(RES)) if (only and os.path.exists(RES)) else {}
for name in sorted(os.listdir(SEEDED)):
    d = os.path.join(SEEDED, name)
    if not os.path.isdir(d) or (only and name not in only):
        continue
    meta = json.load(open(os.path.join(d, "meta.json")))
    props = [meta["property"]]
    assert subprocess.run(["git", "-C", REPO, "diff", "--quiet"]).returncode == 0, "repo dirty"
    subprocess.run(["git", "-C", REPO, "apply", os.path.join(d, "patch.diff")], check=True)
    res = {}
    try:
        for p in props:
            t0 = time.time()
            q = subprocess.run(["./check", p, "--tier", "quick"], cwd=VERIF, env=ENV, capture_output=True, text=True)
            lines = [l for l in q.stdout.splitlines() if re.match(r"(OK|VIOLATION|KNOWN|INTERNAL)", l)]
            first = next((l for l in lines if l.startswith(("VIOLATION", "INTERNAL", "OK"))), "")
            entry = {"rc": q.returncode, "line": first[:200], "wall_s": round(time.time() - t0)}
            m = re.search(r"replay=(\S+)", first)
            if m and os.path.exists(m.group(1)):
                v = json.load(open(m.group(1)))
                entry["kind"] = v.get("kind") or ("no-failing-input" if v.get("no_failing_input") else None)
                entry["witness"] = {k: v.get(k) for k in ("operation", "implementation", "specification", "probe_class", "what_no_longer_checks", "note") if v.get(k)}
            if q.returncode == 2:
                entry["stderr"] = q.stderr[-1500:]
            res[p] = entry
    finally:
        subprocess.run(["git", "-C", REPO, "checkout", "--", "."], check=True)
        subprocess.run(["git", "-C", REPO, "clean", "-fdq", "src", "tests"], check=True)
    results[name] = res
    print(name, {p: (e["rc"], e.get("kind")) for p, e in res.items()}, flush=True)
    json.dump(results, open(RES, "w"), indent=1)
