#!/usr/bin/env python3
"""usage: tools/confirm_area.py <AREA> <k>
Round 3 (changes written per source area): confirms /tmp/mutout3/<AREA>/m<k> in the worktree /tmp/mut/<AREA>
(suite passes with it, demo fails with it, demo passes without), then runs the quick check of the property named on
the first line of notes.md against /repo with the change applied and stores everything as /verif/seeded/R3-<AREA>-m<k>/."""
import json, os, re, shutil, subprocess, sys
area, k = sys.argv[1], sys.argv[2]
wt = f"/tmp/mut/{area}"
src = f"/tmp/mutout3/{area}/m{k}"
env = dict(os.environ, CARGO_NET_OFFLINE="true")
notes = open(f"{src}/notes.md").read()
m = re.search(r"property:\s*`?(C\d\d)", notes)
prop = m.group(1)
extra = sorted(set(re.findall(r"\bC\d\d\b", notes.split("\n", 3)[0] + " " + " ".join(notes.split("\n")[1:4]))) - {prop})

def sh(cmd, cwd=wt, timeout=3000):
    p = subprocess.run(cmd, shell=True, cwd=cwd, env=env, capture_output=True, text=True, timeout=timeout)
    return p.returncode, p.stdout + p.stderr

sh("git checkout -- . && rm -f tests/demo.rs")
meta = {"property": prop, "also_named": extra, "source": f"round 3 sub-agent for source area {area}, change m{k}", "ran": []}
rc, out = sh(f"git apply {src}/patch.diff"); assert rc == 0, out
rc, out = sh("cargo test --workspace --no-fail-fast --offline 2>&1")
out = "\n".join(l for l in out.splitlines() if re.match(r"test result|.*FAILED|error", l))
fails = re.findall(r"test result: FAILED|error(\[|:)", out)
passed = sum(int(x) for x in re.findall(r"(\d+) passed", out))
meta["suite_with_change"] = {"passed": passed, "failed": len(fails)}
shutil.copy(f"{src}/demo.rs", f"{wt}/tests/demo.rs")
rc1, out1 = sh("cargo test --offline --test demo 2>&1")
meta["demo_with_change_rc"] = rc1
sh("git checkout -- .")
rc2, out2 = sh("cargo test --offline --test demo 2>&1")
meta["demo_without_change_rc"] = rc2
sh("git checkout -- . && rm -f tests/demo.rs")
ok = (len(fails) == 0 and passed >= 48 and rc1 != 0 and rc2 == 0)
meta["confirmed"] = ok
res = {}
assert subprocess.run(["git", "-C", "/repo", "diff", "--quiet"]).returncode == 0, "repo dirty"
subprocess.run(["git", "-C", "/repo", "apply", f"{src}/patch.diff"], check=True)
try:
    for p in [prop] + extra:
        q = subprocess.run(["./check", p, "--tier", "quick"], cwd="/verif", capture_output=True, text=True)
        lines = [l for l in q.stdout.splitlines() if re.match(r"(OK|VIOLATION|KNOWN|INTERNAL)", l)]
        first = next((l for l in lines if l.startswith(("VIOLATION", "INTERNAL", "OK"))), "")
        res[p] = {"rc": q.returncode, "line": first[:200]}
        mm = re.search(r"replay=(\S+)", first)
        if mm and os.path.exists(mm.group(1)):
            v = json.load(open(mm.group(1)))
            res[p]["replay_excerpt"] = {kk: v.get(kk) for kk in ("kind", "operation", "implementation", "specification", "note", "no_failing_input", "probe_class") if kk in v}
finally:
    subprocess.run(["git", "-C", "/repo", "checkout", "--", "."], check=True)
        subprocess.run(["git", "-C", "/repo", "clean", "-fdq", "src", "tests"], check=True)
meta["checks_quick"] = res
meta["detected_by"] = [p for p, v in res.items() if v["rc"] == 1]
meta["needs_to_manifest"] = notes[:1500]
print(json.dumps({k_: meta[k_] for k_ in ("property", "confirmed", "suite_with_change", "demo_with_change_rc", "demo_without_change_rc", "detected_by")}))
for p, v in res.items():
    print(" ", p, v["rc"], v["line"][:120], v.get("replay_excerpt", ""))
if ok:
    dst = f"/verif/seeded/R3-{area}-m{k}"
    os.makedirs(dst, exist_ok=True)
    for f in ("patch.diff", "demo.rs", "notes.md"):
        shutil.copy(f"{src}/{f}", f"{dst}/{f}")
    json.dump(meta, open(f"{dst}/meta.json", "w"), indent=1)
else:
    print("NOT CONFIRMED", out[-400:], out1[-600:], out2[-300:])
