#!/usr/bin/env python3
"""Apply every behaviour-preserving rewrite of seeded-harmless/ to /repo in turn, run ALL quick checks, undo, and write
seeded-harmless/RESULTS.json.  Every check is expected to stay silent (OK, or the KNOWN-FINDING line of the unchanged tree)."""
import json, os, re, subprocess, sys, time
# lanes: LANE_REPO / LANE_VERIF point at private copies of /repo and /verif (tools/run_lanes.sh), LANE_RESULTS at the lane's result file
REPO = os.environ.get("LANE_REPO", "/repo")
VERIF = os.environ.get("LANE_VERIF", "/verif")
ENV = dict(os.environ, VERIF_REPO=REPO)
D = "/verif/seeded-harmless"
only = sys.argv[1:]
rp = os.environ.get("LANE_RESULTS", os.path.join(D, "RESULTS.json"))
results = json.load(open(rp)) if (only and os.path.exists(rp)) else {}
props = [f"C{i:02d}" for i in range(1, 20)]
for name in sorted(os.listdir(D)):
    d = os.path.join(D, name)
    if not os.path.isdir(d) or (only and name not in only):
        continue
    assert subprocess.run(["git", "-C", REPO, "diff", "--quiet"]).returncode == 0, "repo dirty"
    subprocess.run(["git", "-C", REPO, "apply", os.path.join(d, "patch.diff")], check=True)
    res = {}
    t0 = time.time()
    try:
        for p in props:
            q = subprocess.run(["./check", p, "--tier", "quick"], cwd=VERIF, env=ENV, capture_output=True, text=True)
            lines = [l for l in q.stdout.splitlines() if re.match(r"(OK|VIOLATION|INTERNAL)", l)]
            if q.returncode != 0:
                entry = {"rc": q.returncode, "line": (lines[0] if lines else "")[:220]}
                m = re.search(r"replay=(\S+)", entry["line"])
                if m and os.path.exists(m.group(1)):
                    v = json.load(open(m.group(1)))
                    entry["what"] = json.dumps(v.get("what_no_longer_checks") or v.get("kind"))[:600]
                res[p] = entry
    finally:
        subprocess.run(["git", "-C", REPO, "checkout", "--", "."], check=True)
        subprocess.run(["git", "-C", REPO, "clean", "-fdq", "src", "tests"], check=True)
    results[name] = {"alarms": res, "silent": not res, "wall_s": round(time.time() - t0)}
    print(name, "SILENT" if not res else res, flush=True)
    json.dump(results, open(rp, "w"), indent=1)
