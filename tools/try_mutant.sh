#!/bin/sh
# usage: tools/try_mutant.sh <patch.diff> <property id>...   — apply to /repo, run the quick checks, undo
patch="$1"; shift
cd /repo || exit 2
git diff --quiet || { echo "repo dirty"; exit 2; }
git apply "$patch" || { echo "patch does not apply"; exit 2; }
cd /verif
for p in "$@"; do
  ./check "$p" --tier quick 2>/dev/null | grep -E "^(OK|VIOLATION|KNOWN|INTERNAL)" | head -3
done
git -C /repo checkout -- .
