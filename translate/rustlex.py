"""A small Rust tokenizer + block-structure parser, sufficient for the idioms of enum-tools'
macro-time code.  Anything it does not recognise raises TranslateError (file:line)."""
import re


class TranslateError(Exception):
    pass


TOKEN_RE = re.compile(r"""
    (?P<ws>\s+)
  | (?P<lcomment>//[^\n]*)
  | (?P<bcomment>/\*.*?\*/)
  | (?P<rawstr>r\#*"(?:.|\n)*?"\#*)
  | (?P<str>b?"(?:[^"\\]|\\.)*")
  | (?P<char>b?'(?:[^'\\]|\\.)')
  | (?P<lifetime>'[A-Za-z_][A-Za-z0-9_]*)
  | (?P<num>\d[\d_]*(?:\.\d+)?(?:[iu](?:8|16|32|64|128|size))?)
  | (?P<ident>[A-Za-z_][A-Za-z0-9_]*)
  | (?P<punct>::|->|=>|==|!=|<=|>=|&&|\|\||\+=|-=|\.\.=|\.\.|[{}()\[\];,.:<>=!&|+\-*/%#?@^~$])
""", re.X | re.S)


class Tok:
    __slots__ = ("kind", "text", "line")

    def __init__(self, kind, text, line):
        self.kind, self.text, self.line = kind, text, line

    def __repr__(self):
        return f"{self.text}"


def tokenize(src, fname="?"):
    out = []
    pos = 0
    line = 1
    while pos < len(src):
        m = TOKEN_RE.match(src, pos)
        if not m:
            raise TranslateError(f"{fname}:{line}: cannot tokenize at {src[pos:pos+20]!r}")
        kind = m.lastgroup
        text = m.group(0)
        if kind not in ("ws", "lcomment", "bcomment"):
            out.append(Tok(kind, text, line))
        line += text.count("\n")
        pos = m.end()
    return out


CLOSE = {"{": "}", "(": ")", "[": "]"}


def match_close(toks, i):
    """index of the token closing toks[i] (an opening bracket)"""
    depth = 0
    op = toks[i].text
    cl = CLOSE[op]
    for j in range(i, len(toks)):
        t = toks[j].text
        if toks[j].kind == "punct":
            if t == op:
                depth += 1
            elif t == cl:
                depth -= 1
                if depth == 0:
                    return j
    raise TranslateError(f"line {toks[i].line}: unbalanced {op}")


def find_fn(toks, name):
    """(params_tokens, body_tokens) of `fn name`"""
    for i, t in enumerate(toks):
        if t.text == "fn" and i + 1 < len(toks) and toks[i + 1].text == name:
            j = i + 2
            while toks[j].text != "(":
                j += 1
            pe = match_close(toks, j)
            k = pe + 1
            while toks[k].text != "{":
                k += 1
            be = match_close(toks, k)
            return toks[j + 1:pe], toks[k + 1:be]
    return None


def text_of(toks):
    return " ".join(t.text for t in toks)


def split_top(toks, sep):
    """split a token list at top-level occurrences of punct `sep`"""
    out, cur, depth = [], [], 0
    for t in toks:
        if t.kind == "punct" and t.text in CLOSE:
            depth += 1
        elif t.kind == "punct" and t.text in CLOSE.values():
            depth -= 1
        if depth == 0 and t.kind == "punct" and t.text == sep:
            out.append(cur); cur = []
        else:
            cur.append(t)
    if cur:
        out.append(cur)
    return out


# ------------------------------------------------------------------ statement tree

class Node:
    pass


class If(Node):
    def __init__(self, cond, then, els, line):
        self.cond, self.then, self.els, self.line = cond, then, els, line


class Match(Node):
    def __init__(self, scrut, arms, line):
        self.scrut, self.arms, self.line = scrut, arms, line   # arms: [(pattern tokens, [Node])]


class Quote(Node):
    def __init__(self, toks, line):
        self.toks, self.line = toks, line


class Stmt(Node):
    def __init__(self, toks, line):
        self.toks, self.line = toks, line


def parse_block(toks, fname="?"):
    """a token list (function body or block contents) -> [Node]; expression statements are kept as Stmt,
    but `if`, `match` and `quote!` are found wherever they occur inside a statement"""
    nodes = []
    i = 0
    n = len(toks)
    start = 0
    while i < n:
        t = toks[i]
        if t.text == "if" and not (i > 0 and toks[i - 1].text == "else"):
            if start < i:
                nodes.append(Stmt(toks[start:i], toks[start].line))
            node, i = parse_if(toks, i, fname)
            nodes.append(node)
            start = i
        elif t.text == "match":
            if start < i:
                nodes.append(Stmt(toks[start:i], toks[start].line))
            j = i + 1
            depth = 0
            while not (toks[j].text == "{" and depth == 0):
                if toks[j].text in ("(", "["):
                    depth += 1
                elif toks[j].text in (")", "]"):
                    depth -= 1
                j += 1
            scrut = toks[i + 1:j]
            e = match_close(toks, j)
            arms = parse_arms(toks[j + 1:e], fname)
            nodes.append(Match(scrut, arms, t.line))
            i = e + 1
            start = i
        elif t.text == "quote" and i + 1 < n and toks[i + 1].text == "!":
            if start < i:
                nodes.append(Stmt(toks[start:i], toks[start].line))
            j = i + 2
            e = match_close(toks, j)
            nodes.append(Quote(toks[j + 1:e], t.line))
            i = e + 1
            start = i
        elif t.text == "{" and t.kind == "punct":
            # a nested block (closure body, for body, struct literal ...): recurse
            if start < i:
                nodes.append(Stmt(toks[start:i], toks[start].line))
            e = match_close(toks, i)
            nodes.extend(parse_block(toks[i + 1:e], fname))
            i = e + 1
            start = i
        elif t.text in ("(", "["):
            e = match_close(toks, i)
            inner = toks[i + 1:e]
            if any(x.text in ("quote", "match", "if") for x in inner):
                if start < i:
                    nodes.append(Stmt(toks[start:i], toks[start].line))
                nodes.extend(parse_block(inner, fname))
                start = e + 1
            i = e + 1
        elif t.text == ";":
            if start <= i:
                nodes.append(Stmt(toks[start:i + 1], toks[start].line))
            i += 1
            start = i
        else:
            i += 1
    if start < n:
        nodes.append(Stmt(toks[start:n], toks[start].line))
    return [x for x in nodes if not (isinstance(x, Stmt) and not x.toks)]


def parse_if(toks, i, fname):
    line = toks[i].line
    j = i + 1
    depth = 0
    if toks[j].text == "let":
        # `if let PATTERN = EXPR {`: the pattern may contain braces; skip to the `=` first
        d2 = 0
        while not (toks[j].text == "=" and d2 == 0):
            if toks[j].text in CLOSE:
                d2 += 1
            elif toks[j].text in CLOSE.values():
                d2 -= 1
            j += 1
    while not (toks[j].text == "{" and depth == 0):
        if toks[j].text in ("(", "["):
            depth += 1
        elif toks[j].text in (")", "]"):
            depth -= 1
        j += 1
    cond = toks[i + 1:j]
    e = match_close(toks, j)
    then = parse_block(toks[j + 1:e], fname)
    k = e + 1
    els = []
    if k < len(toks) and toks[k].text == "else":
        if toks[k + 1].text == "if":
            node, k = parse_if(toks, k + 1, fname)
            els = [node]
        else:
            e2 = match_close(toks, k + 1)
            els = parse_block(toks[k + 2:e2], fname)
            k = e2 + 1
    return If(cond, then, els, line), k


def parse_arms(toks, fname):
    arms = []
    i = 0
    n = len(toks)
    while i < n:
        j = i
        depth = 0
        while not (toks[j].text == "=>" and depth == 0):
            if toks[j].text in CLOSE:
                depth += 1
            elif toks[j].text in CLOSE.values():
                depth -= 1
            j += 1
        pat = toks[i:j]
        k = j + 1
        if toks[k].text == "{":
            e = match_close(toks, k)
            body = parse_block(toks[k + 1:e], fname)
            k = e + 1
            if k < n and toks[k].text == ",":
                k += 1
        else:
            e = k
            depth = 0
            while e < n and not (toks[e].text == "," and depth == 0):
                if toks[e].text in CLOSE:
                    depth += 1
                elif toks[e].text in CLOSE.values():
                    depth -= 1
                e += 1
            body = parse_block(toks[k:e], fname)
            k = e + 1
        arms.append((pat, body))
        i = k
    return arms
