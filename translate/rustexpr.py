"""Expression/statement parser for the Rust that occurs inside enum-tools' `quote!` templates
(token lists of rustlex).  Produces plain tuples; anything outside the subset raises TranslateError.

Expressions
  ('int', value, suffix|None)  ('str', text)  ('path', [seg...])      seg: 'name' | ('#', 'name')
  ('call', f, [args])  ('mcall', recv, name|('#',name), [args])  ('field', recv, 'name'|int)
  ('index', recv, idx)  ('cast', e, type)  ('unary', op, e)  ('binary', op, l, r)
  ('assign', lhs, rhs)  ('opassign', op, lhs, rhs)  ('range', lo, hi, inclusive)
  ('closure', [param names], body)  ('block', [stmts], tail|None)  ('if', cond, thenBlock, elseExpr|None)
  ('match', scrut, arms, splice|None)  arms: [(pattern tokens text, expr)], splice: name of `#(#name)*`
  ('loop', block)  ('for', pattern, iterExpr, block)  ('return', e|None)  ('tuple', [es])
  ('struct', path, [(field, expr)])  ('arraysplice', elemExpr, spliceName)  ('macro', name, text)
Types: ('ty', text)        Patterns: 'name' | '_' | ('ptuple', [patterns])
Statements: ('let', pattern, mutable, type|None, init|None)  ('expr', e, semi)  ('use',)
"""
from rustlex import TranslateError, match_close, text_of

BINOPS = [
    ["||"], ["&&"], ["==", "!=", "<", ">", "<=", ">="], ["+", "-"], ["*", "/", "%"],
]


class P:
    def __init__(self, toks, where="?"):
        self.t = toks
        self.i = 0
        self.where = where

    # -- helpers
    def peek(self, k=0):
        j = self.i + k
        return self.t[j].text if j < len(self.t) else None

    def kind(self, k=0):
        j = self.i + k
        return self.t[j].kind if j < len(self.t) else None

    def line(self):
        j = min(self.i, len(self.t) - 1)
        return self.t[j].line if self.t else 0

    def fail(self, msg):
        raise TranslateError(f"{self.where}:{self.line()}: template syntax outside the translated subset: {msg} (at `{text_of(self.t[self.i:self.i + 6])}`)")

    def eat(self, s):
        if self.peek() != s:
            self.fail(f"expected `{s}`")
        self.i += 1

    def at_end(self):
        return self.i >= len(self.t)

    def sub(self, lo, hi):
        return P(self.t[lo:hi], self.where)

    # -- types: a path with optional generics, optionally behind & / &'a / &mut
    def parse_type(self):
        start = self.i
        while self.peek() == "&":
            self.i += 1
            if self.kind() == "lifetime":
                self.i += 1
            if self.peek() == "mut":
                self.i += 1
        if self.peek() == "(":
            self.i = match_close(self.t, self.i) + 1
            return ("ty", text_of(self.t[start:self.i]))
        if self.peek() == "::":
            self.i += 1
        while True:
            if self.peek() == "#":
                self.i += 2
            elif self.kind() == "ident":
                self.i += 1
            else:
                self.fail("type")
            if self.peek() == "<":
                depth = 0
                while True:
                    x = self.peek()
                    if x == "<":
                        depth += 1
                    elif x == ">":
                        depth -= 1
                    elif x is None:
                        self.fail("unbalanced <>")
                    self.i += 1
                    if depth == 0:
                        break
            if self.peek() == "::":
                self.i += 1
                continue
            break
        return ("ty", text_of(self.t[start:self.i]))

    # -- patterns
    def parse_pattern(self):
        if self.peek() == "(":
            e = match_close(self.t, self.i)
            inner = self.sub(self.i + 1, e)
            self.i = e + 1
            ps = []
            while not inner.at_end():
                ps.append(inner.parse_pattern())
                if not inner.at_end():
                    inner.eat(",")
            return ("ptuple", ps)
        if self.peek() == "&":
            self.i += 1
            return self.parse_pattern()
        if self.peek() == "mut":
            self.i += 1
        if self.kind() == "ident":
            self.i += 1
            return self.t[self.i - 1].text
        self.fail("pattern")

    # -- blocks
    def parse_block_at(self):
        """`{ ... }` at the cursor"""
        if self.peek() != "{":
            self.fail("expected a block")
        e = match_close(self.t, self.i)
        inner = self.sub(self.i + 1, e)
        self.i = e + 1
        return inner.parse_block_contents()

    def parse_block_contents(self):
        stmts = []
        tail = None
        while not self.at_end():
            if self.peek() == ";":
                self.i += 1
                continue
            if self.peek() == "use":
                while self.peek() != ";":
                    if self.peek() in ("{",):
                        self.i = match_close(self.t, self.i)
                    self.i += 1
                self.i += 1
                stmts.append(("use",))
                continue
            if self.peek() == "#" and self.peek(1) == "[":
                self.i = match_close(self.t, self.i + 1) + 1
                continue
            if self.peek() == "let":
                self.i += 1
                mutable = False
                if self.peek() == "mut":
                    mutable = True
                    self.i += 1
                pat = self.parse_pattern()
                ty = None
                if self.peek() == ":":
                    self.i += 1
                    ty = self.parse_type()
                init = None
                if self.peek() == "=":
                    self.i += 1
                    init = self.parse_expr()
                self.eat(";")
                stmts.append(("let", pat, mutable, ty, init))
                continue
            e = self.parse_expr()
            if self.peek() == ";":
                self.i += 1
                stmts.append(("expr", e, True))
            elif self.at_end():
                tail = e
            elif e[0] in ("if", "for", "loop", "match", "block", "unsafe"):
                stmts.append(("expr", e, False))
            else:
                self.fail("expected `;`")
        return ("block", stmts, tail)

    # -- expressions
    def parse_expr(self, no_struct=False):
        if self.peek() == "return":
            self.i += 1
            if self.at_end() or self.peek() in (";", "}", ","):
                return ("return", None)
            return ("return", self.parse_expr(no_struct))
        if self.peek() in ("|", "||"):
            return self.parse_closure()
        lhs = self.parse_range(no_struct)
        if self.peek() == "=":
            self.i += 1
            return ("assign", lhs, self.parse_expr(no_struct))
        if self.peek() in ("+=", "-="):
            op = self.peek()[0]
            self.i += 1
            return ("opassign", op, lhs, self.parse_expr(no_struct))
        return lhs

    def parse_closure(self):
        params = []
        if self.peek() == "||":
            self.i += 1
        else:
            self.eat("|")
            while self.peek() != "|":
                params.append(self.parse_pattern())
                if self.peek() == ":":
                    self.i += 1
                    self.parse_type()
                if self.peek() == ",":
                    self.i += 1
            self.eat("|")
        return ("closure", params, self.parse_expr())

    def parse_range(self, no_struct):
        lo = self.parse_bin(0, no_struct)
        if self.peek() in ("..", "..="):
            incl = self.peek() == "..="
            self.i += 1
            hi = self.parse_bin(0, no_struct)
            return ("range", lo, hi, incl)
        return lo

    def parse_bin(self, level, no_struct):
        if level == len(BINOPS):
            return self.parse_cast(no_struct)
        lhs = self.parse_bin(level + 1, no_struct)
        while self.peek() in BINOPS[level] and self.kind() == "punct":
            # `|x|` closures never follow an operand, `<`/`>` generics only follow `::`
            op = self.peek()
            self.i += 1
            rhs = self.parse_bin(level + 1, no_struct)
            lhs = ("binary", op, lhs, rhs)
        return lhs

    def parse_cast(self, no_struct):
        e = self.parse_unary(no_struct)
        while self.peek() == "as":
            self.i += 1
            e = ("cast", e, self.parse_type())
        return e

    def parse_unary(self, no_struct):
        x = self.peek()
        if x in ("-", "!", "*"):
            self.i += 1
            return ("unary", x, self.parse_unary(no_struct))
        if x == "&":
            self.i += 1
            if self.peek() == "mut":
                self.i += 1
            return ("unary", "&", self.parse_unary(no_struct))
        return self.parse_postfix(no_struct)

    def parse_args(self):
        """`( a, b )` at the cursor"""
        e = match_close(self.t, self.i)
        inner = self.sub(self.i + 1, e)
        self.i = e + 1
        args = []
        while not inner.at_end():
            args.append(inner.parse_expr())
            if not inner.at_end():
                inner.eat(",")
        return args

    def parse_postfix(self, no_struct):
        e = self.parse_primary(no_struct)
        while True:
            x = self.peek()
            if x == ".":
                self.i += 1
                if self.kind() == "num":
                    e = ("field", e, int(self.t[self.i].text))
                    self.i += 1
                    continue
                if self.peek() == "#":
                    name = ("#", self.t[self.i + 1].text)
                    self.i += 2
                elif self.kind() == "ident":
                    name = self.t[self.i].text
                    self.i += 1
                else:
                    self.fail("field or method name")
                if self.peek() == "::":      # turbofish
                    self.i += 1
                    depth = 0
                    while True:
                        y = self.peek()
                        depth += (y == "<") - (y == ">")
                        self.i += 1
                        if depth == 0:
                            break
                if self.peek() == "(":
                    e = ("mcall", e, name, self.parse_args())
                else:
                    e = ("field", e, name)
            elif x == "(":
                e = ("call", e, self.parse_args())
            elif x == "[":
                c = match_close(self.t, self.i)
                inner = self.sub(self.i + 1, c)
                self.i = c + 1
                idx = inner.parse_expr()
                if not inner.at_end():
                    inner.fail("index expression")
                e = ("index", e, idx)
            else:
                return e

    def parse_path(self):
        segs = []
        if self.peek() == "::":
            segs.append("::")
            self.i += 1
        while True:
            if self.peek() == "#" and self.kind(1) == "ident":
                segs.append(("#", self.t[self.i + 1].text))
                self.i += 2
            elif self.kind() == "ident":
                segs.append(self.t[self.i].text)
                self.i += 1
            else:
                self.fail("path segment")
            if self.peek() == "::":
                if self.peek(1) == "<":      # generic arguments
                    self.i += 1
                    depth = 0
                    start = self.i
                    while True:
                        y = self.peek()
                        depth += (y == "<") - (y == ">")
                        self.i += 1
                        if depth == 0:
                            break
                    segs.append(("<>", text_of(self.t[start:self.i])))
                    if self.peek() == "::":
                        self.i += 1
                        continue
                    break
                self.i += 1
                continue
            break
        return ("path", segs)

    def parse_primary(self, no_struct):
        x = self.peek()
        k = self.kind()
        if x is None:
            self.fail("unexpected end")
        if k == "num":
            self.i += 1
            import re
            m = re.match(r"^([\d_]+)((?:[iu](?:8|16|32|64|128|size))?)$", x)
            if not m:
                self.fail("numeric literal")
            return ("int", int(m.group(1).replace("_", "")), m.group(2) or None)
        if k == "str":
            self.i += 1
            return ("str", x)
        if x == "(":
            e = match_close(self.t, self.i)
            inner = self.sub(self.i + 1, e)
            self.i = e + 1
            items = []
            trailing = False
            while not inner.at_end():
                items.append(inner.parse_expr())
                trailing = False
                if not inner.at_end():
                    inner.eat(",")
                    trailing = True
            if len(items) == 1 and not trailing:
                return items[0]
            return ("tuple", items)
        if x == "[":
            e = match_close(self.t, self.i)
            inner = self.t[self.i + 1:e]
            self.i = e + 1
            # `[ #(ELEM),* ]`
            if len(inner) >= 5 and inner[0].text == "#" and inner[1].text == "(" and inner[-1].text == "*" and inner[-2].text == ",":
                c = match_close(inner, 1)
                if c == len(inner) - 3:
                    body = inner[2:c]
                    names = [body[j + 1].text for j in range(len(body) - 1) if body[j].text == "#" and body[j + 1].kind == "ident"]
                    if len(names) == 1:
                        return ("arraysplice", P(body, self.where).parse_expr(), names[0])
            self.fail("array literal")
        if x == "{":
            return self.parse_block_at()
        if x == "unsafe":
            self.i += 1
            return self.parse_block_at()
        if x == "if":
            self.i += 1
            cond = self.parse_expr(no_struct=True)
            then = self.parse_block_at()
            els = None
            if self.peek() == "else":
                self.i += 1
                if self.peek() == "if":
                    els = self.parse_primary(no_struct)
                else:
                    els = self.parse_block_at()
            return ("if", cond, then, els)
        if x == "loop":
            self.i += 1
            return ("loop", self.parse_block_at())
        if x == "for":
            self.i += 1
            pat = self.parse_pattern()
            self.eat("in")
            it = self.parse_expr(no_struct=True)
            return ("for", pat, it, self.parse_block_at())
        if x == "match":
            self.i += 1
            scrut = self.parse_expr(no_struct=True)
            e = match_close(self.t, self.i)
            inner = self.sub(self.i + 1, e)
            self.i = e + 1
            arms, splice = [], None
            while not inner.at_end():
                if inner.peek() == "#" and inner.peek(1) == "(":
                    c = match_close(inner.t, inner.i + 1)
                    body = inner.t[inner.i + 2:c]
                    if len(body) == 2 and body[0].text == "#" and inner.t[c + 1].text == "*" and splice is None and not arms:
                        splice = body[1].text
                        inner.i = c + 2
                        continue
                    inner.fail("repetition in match")
                j = inner.i
                depth = 0
                while not (inner.t[j].text == "=>" and depth == 0):
                    depth += (inner.t[j].text in "([{") - (inner.t[j].text in ")]}")
                    j += 1
                pat = text_of(inner.t[inner.i:j])
                inner.i = j + 1
                body = inner.parse_expr()
                if inner.peek() == ",":
                    inner.i += 1
                arms.append((pat, body))
            return ("match", scrut, arms, splice)
        if x == "#" or k == "ident" or x == "::":
            if k == "ident" and self.peek(1) == "!":
                name = x
                c = match_close(self.t, self.i + 2)
                txt = text_of(self.t[self.i + 3:c])
                self.i = c + 1
                return ("macro", name, txt)
            p = self.parse_path()
            if self.peek() == "{" and not no_struct:
                # struct literal
                e = match_close(self.t, self.i)
                inner = self.sub(self.i + 1, e)
                self.i = e + 1
                fields = []
                while not inner.at_end():
                    if inner.kind() != "ident":
                        inner.fail("struct field")
                    fname = inner.t[inner.i].text
                    inner.i += 1
                    inner.eat(":")
                    fields.append((fname, inner.parse_expr()))
                    if not inner.at_end():
                        inner.eat(",")
                return ("struct", p, fields)
            return p
        self.fail("expression")


def parse_fn_items(toks, where):
    """the `fn` items of a quote! body, each with the impl header it sits in (or None):
    [(impl header text|None, name, [(param name, type text)], ret type text|None, body block)]"""
    out = []

    def scan(lo, hi, impl):
        i = lo
        while i < hi:
            x = toks[i].text
            if x == "#" and i + 1 < hi and toks[i + 1].text == "[":
                i = match_close(toks, i + 1) + 1
                continue
            if x == "impl":
                j = i
                while toks[j].text != "{":
                    j += 1
                e = match_close(toks, j)
                scan(j + 1, e, text_of(toks[i + 1:j]))
                i = e + 1
                continue
            if x == "struct":
                j = i
                while toks[j].text not in ("{", ";"):
                    j += 1
                i = (match_close(toks, j) if toks[j].text == "{" else j) + 1
                continue
            if x == "fn":
                if toks[i + 1].text == "#":
                    name = ("#", toks[i + 2].text)
                    j = i + 3
                else:
                    name = toks[i + 1].text
                    j = i + 2
                if toks[j].text != "(":
                    raise TranslateError(f"{where}:{toks[i].line}: generic template fn")
                pe = match_close(toks, j)
                params = []
                p = P(toks[j + 1:pe], where)
                while not p.at_end():
                    while p.peek() in ("&", "mut") or p.kind() == "lifetime":
                        p.i += 1
                    if p.peek() == "self":
                        p.i += 1
                        kind = "self"
                        pre = text_of(toks[j + 1:j + 1 + p.i])
                        params.append(("self", "&mut" if "mut" in pre else ("&" if "&" in pre else "")))
                    else:
                        nm = p.parse_pattern()
                        p.eat(":")
                        params.append((nm, p.parse_type()[1]))
                    if not p.at_end():
                        p.eat(",")
                k = pe + 1
                ret = None
                if toks[k].text == "->":
                    q = P(toks, where)
                    q.i = k + 1
                    ret = q.parse_type()[1]
                    k = q.i
                if toks[k].text != "{":
                    raise TranslateError(f"{where}:{toks[k].line}: template fn without body")
                be = match_close(toks, k)
                body = P(toks[k + 1:be], where).parse_block_contents()
                out.append((impl, name, params, ret, body, toks[i].line))
                i = be + 1
                continue
            i += 1

    scan(0, len(toks), None)
    return out
