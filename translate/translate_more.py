"""Further regenerated modules: Uses, Docs, Inventory, HashSites."""
import os
import re

from rustlex import (TranslateError, tokenize, find_fn, parse_block, text_of, split_top, If, Match, Quote, Stmt,
                     match_close)
from translate import FIELD_FLAG, MODE_VARIANT, err, parse_cond, mode_atom, arm_variants, feature_fields

# interpolated identifiers -> the feature (flag) whose item they name
IDENT_FLAG = {
    "ident_as_str": "asStr", "ident_from_str_fn": "fromStrFn", "ident_iter_fn": "iter", "ident_iter_struct": "iter",
    "ident_max": "maxC", "ident_min": "minC", "ident_names_fn": "names", "ident_names_struct": "names",
    "ident_next": "next", "ident_next_back": "nextBack", "ident_range_fn": "range", "ident_table_enum": "tableEnum",
    "ident_table_name": "tableName", "ident_table_range": "tableRange", "ident_to_fn": "intoFn",
    "ident_try_from_fn": "tryFromFn",
}
NON_ITEM_INTERP = {"repr", "repr_unsigned", "ident_enum", "vis", "vis_enum", "name", "v", "num_values", "doc_inner", "doc_outer",
                   "start", "end", "min_value", "max_value", "table", "matches", "enums", "hl", "h", "b1", "e1", "o1",
                   "ident_struct", "ident_item", "as_str_fn", "debug_trait", "display_trait", "from_str_fn", "from_str_trait",
                   "into_fn", "into_str_trait", "into_trait", "iter_inner", "iter_outer", "max_const", "min_const", "names_inner",
                   "names_outer", "next_back_fn", "next_fn", "range_fn", "table_enum", "table_name", "table_range", "try_from_fn",
                   "try_from_trait"}


def check_names_rs(src):
    """generator/names.rs must derive every ident_* from the feature that owns the item (`Src.names_rename` reads it;
    after the renaming every file uses the canonical field names of IDENT_FLAG)"""
    src.names_rename()
    return dict(IDENT_FLAG)


def quote_interps(q):
    """interpolated names in a quote! token list"""
    out = []
    t = q.toks
    for i, x in enumerate(t):
        if x.text == "#" and i + 1 < len(t) and t[i + 1].kind == "ident":
            out.append(t[i + 1].text)
    return out


def quote_uses_offset(q):
    t = q.toks
    for i, x in enumerate(t):
        if x.text == "." and i + 1 < len(t) and t[i + 1].text == "1" and t[i - 1].text in ("t", "r"):
            return True
    return False


def local_bindings(src, rel):
    """names bound by `let`, closure parameters and `for` patterns anywhere in a source file, none of which aliases an item
    name of `Names` (such an alias would hide a dependency from `usesTable`)"""
    cache = src.__dict__.setdefault("_local_bindings", {})
    if rel in cache:
        return cache[rel]
    t = src.toks(rel)
    out = set()
    n = len(t)
    inside = [False] * n          # inside a quote! body: that is generated code, not macro code
    i = 0
    while i < n:
        if t[i].text == "quote" and i + 2 < n and t[i + 1].text == "!" and t[i + 2].text in ("{", "("):
            e = match_close(t, i + 2)
            for k in range(i + 3, e):
                inside[k] = True
            i = e
        i += 1
    for i, x in enumerate(t):
        if inside[i]:
            continue
        if x.text == "let":
            j = i + 1
            if j < n and t[j].text == "mut":
                j += 1
            if j + 1 < n and t[j].kind == "ident" and t[j + 1].text in ("=", ":"):
                e = j
                depth = 0
                while e < n and not (t[e].text == ";" and depth == 0):
                    depth += (t[e].text in ("(", "[", "{")) - (t[e].text in (")", "]", "}"))
                    e += 1
                rhs = text_of(t[j + 1:e])
                if re.search(r"\bident_(?!enum\b)\w+|\bnames \.", rhs) and "quote !" not in rhs:
                    err(rel, x.line, f"local `{t[j].text}` aliases an item name of `Names`")
                out.add(t[j].text)
        elif x.text == "|" and i + 1 < n:
            # closure parameters: identifiers up to the closing bar (patterns included)
            j = i + 1
            tmp = []
            while j < n and t[j].text != "|" and j - i < 14:
                if t[j].kind == "ident" and t[j].text not in ("mut", "ref"):
                    tmp.append(t[j].text)
                j += 1
            if j < n and t[j].text == "|":
                out.update(tmp)
        elif x.text == "for":
            j = i + 1
            tmp = []
            while j < n and t[j].text not in ("in", "{") and j - i < 14:
                if t[j].kind == "ident":
                    tmp.append(t[j].text)
                j += 1
            if j < n and t[j].text == "in":
                out.update(tmp)
    cache[rel] = out
    return out


def walk_generate(src, nodes, rel, own, path, out, depth=0):
    """collect (flag, guard atoms, used flags) per quote! block"""
    for n in nodes:
        if isinstance(n, Quote):
            used = []
            for name in quote_interps(n):
                if name in IDENT_FLAG:
                    f = IDENT_FLAG[name]
                    if f != own and f not in used:
                        used.append(f)
                elif name not in NON_ITEM_INTERP and name not in local_bindings(src, rel):
                    err(rel, n.line, f"unknown interpolation `#{name}` in a template")
            if quote_uses_offset(n) and "tableRange" in used:
                used.append("tableRangeOfs")
            out.append((own, [p for p in path], used, rel, n.line))
        elif isinstance(n, If):
            c = parse_cond(n.cond, rel, own)
            s = text_of(n.cond)
            if c == [("self-disabled", None, None)]:
                continue
            if c is None:
                if s in ("with_offset", "range_inclusive_iterator", "let Some ( ref name ) = name"):
                    walk_generate(src, n.then, rel, own, path, out, depth)
                    walk_generate(src, n.els, rel, own, path, out, depth)
                    continue
                err(rel, n.line, f"unrecognised condition in generate: `{s}`")
            walk_generate(src, n.then, rel, own, path + c, out, depth)
            if n.els:
                if len(c) != 1 or c[0][2] is None:
                    err(rel, n.line, "else-branch of a condition without modelled negation")
                walk_generate(src, n.els, rel, own, path + [("atom", c[0][2], c[0][1])], out, depth)
        elif isinstance(n, Match):
            sc = text_of(n.scrut)
            if sc == "self . mode":
                mflag = own
            elif sc == "iter_mode":
                mflag = "iter"
            else:
                # a match that is not about modes (e.g. on an Option): visit all arms unconditionally
                for pat, body in n.arms:
                    walk_generate(src, body, rel, own, path, out, depth)
                continue
            for pat, body in n.arms:
                vs = arm_variants(pat, rel, n.line)
                if vs is None:
                    # `_ => panic!(...)`: unreachable after resolve
                    if any(isinstance(b, Quote) for b in body):
                        err(rel, n.line, "template in a wildcard arm")
                    continue
                if all(isinstance(b, Stmt) and text_of(b.toks).startswith("panic !") for b in body) and body:
                    continue
                walk_generate(src, body, rel, own, path + [("atom", mode_atom(mflag, vs, rel, n.line), None)], out, depth)
        elif isinstance(n, Stmt):
            s = text_of(n.toks)
            m = re.search(r"self . (iter_\w+) \(", s)
            if m and depth < 3:
                for r2 in src.iter_files():
                    found = find_fn(src.toks(r2), m.group(1))
                    if found:
                        walk_generate(src, parse_block(found[1], r2), r2, own, path, out, depth + 1)
                        break
                else:
                    err(rel, n.line, f"fn {m.group(1)} not found")


def gen_uses(src):
    check_names_rs(src)
    fields = feature_fields(src)
    rows = []
    for field in fields:
        rel = src.feature_file(field)
        found = find_fn(src.toks(rel), "generate")
        if not found:
            err(rel, 1, "fn generate not found")
        body_nodes = parse_block(found[1], rel)
        # every generate starts with `if !self.enabled { return … }`
        if "if ! self . enabled { return" not in text_of(found[1]):
            err(rel, found[1][0].line, "generate does not return early when the feature is disabled")
        walk_generate(src, body_nodes, rel, FIELD_FLAG[field], [], rows)
    # the top-level assembly must splice every feature's output
    top = text_of(src.toks("generator/mod.rs"))
    for field in fields:
        base = field
        if f"# {base}" not in top and f"# {base}_inner" not in top:
            err("generator/mod.rs", 1, f"output of `{field}` is not spliced into the result")
    if "features . resolve ( & self )" not in top:
        err("generator/mod.rs", 1, "generate does not call features.resolve first")
    L = ["-- GENERATED by /verif/translate from /repo/src (every `fn generate` / `fn iter_*`, generator/names.rs). Do not edit.",
         "import EnumToolsModel.Config", "namespace ET.Generated", "",
         "/-- one row per quote! template: owning feature, the branch condition it sits under, the other features' items it names -/",
         "def usesTable : List (Flag × List Atom × List Flag) := ["]
    body = []
    for own, path, used, rel, line in rows:
        g = "[" + ", ".join(p[1] for p in path if p[0] == "atom") + "]"
        body.append(f"  (.{own}, {g}, [{', '.join('.' + u for u in used)}])   -- {rel}:{line}")
    L.append(",\n".join(x.split("   --")[0] for x in body))
    L += ["]", "",
          "/-- the helper items the templates of feature `f` reference in mode `m` on a gapless / with-holes enum -/",
          "def uses (f : Flag) (m : Modes) (gapless : Bool) : List Flag :=",
          "  (usesTable.filter (fun row => row.1 == f && guardHolds m gapless row.2.1)).flatMap (·.2.2)", "",
          "end ET.Generated", ""]
    return "\n".join(L), {"templates": len(rows)}


# ------------------------------------------------------------------ Docs

def gen_docs(src):
    text = open(src.path("lib.rs")).read().split("\n")
    docs = [l[4:] if l.startswith("/// ") else ("" if l.strip() == "///" else None) for l in text]
    # the derive macro's documentation: from `/// Derive Macro for enums` to `#[proc_macro_error]`
    start = next((i for i, l in enumerate(text) if l.startswith("/// Derive Macro for enums")), None)
    if start is None:
        raise TranslateError("src/lib.rs: documentation of the derive macro not found")
    feats = {}
    cur = None
    cur_param = None
    common_vis = []
    order = []
    for i in range(start, len(text)):
        l = text[i]
        if not l.startswith("///"):
            break
        d = l[3:].rstrip()
        if d.startswith(" "):
            d = d[1:]
        m = re.match(r"## (\w+)$", d)
        if m:
            cur = m.group(1)
            feats[cur] = {"sig": None, "params": {}, "line": i + 1}
            order.append(cur)
            cur_param = None
            continue
        if d.startswith("# "):
            cur = None
            continue
        m = re.match(r"- `vis`: the visibility, either (.*), defaults", d)
        if m:
            common_vis = re.findall(r'`"([^"]*)"`', m.group(1))
        if cur is None:
            continue
        m = re.match(r"`(\$vis .*)`$", d)
        if m and feats[cur]["sig"] is None:
            feats[cur]["sig"] = m.group(1)
            continue
        m = re.match(r"- ((?:`\w+`(?:, )?)+):?(.*)$", d)
        if m and not d.startswith("-  "):
            names = re.findall(r"`(\w+)`", m.group(1))
            for n in names:
                feats[cur]["params"].setdefault(n, [])
            cur_param = names[-1] if len(names) == 1 else None
            continue
        m = re.match(r"\s+- `\"(\w+)\"`", d)
        if m and cur_param:
            feats[cur]["params"][cur_param].append(m.group(1))
    if not common_vis:
        raise TranslateError("src/lib.rs: documented visibility values not found")
    L = ["-- GENERATED by /verif/translate from the doc comments of /repo/src/lib.rs. Do not edit.", "namespace ET.Generated", "",
         "/-- documented feature: key, signature line (if any), parameters, documented mode values -/",
         "structure DocFeature where", "  key : String", "  sig : Option String", "  params : List String", "  modes : List String",
         "deriving Repr, DecidableEq", "", "def docFeatures : List DocFeature := ["]
    rows = []
    for k in order:
        f = feats[k]
        params = [p for p in f["params"]]
        modes = f["params"].get("mode", [])
        sig = ("some " + lean_str(f["sig"])) if f["sig"] else "none"
        rows.append(f'  {{ key := "{k}", sig := {sig}, params := [{", ".join(lean_str(p) for p in params)}], modes := [{", ".join(lean_str(x) for x in modes)}] }}')
    L.append(",\n".join(rows))
    L += ["]", "", f"def docVisValues : List String := [{', '.join(lean_str(v) for v in common_vis)}]", "",
          "/-- documented signature lines in the normal form also used for `featureHeaders` -/",
          "def docSigsNormalised : List (String × String) := [" + ", ".join(f'({lean_str(k)}, {lean_str(norm_doc(feats[k]["sig"]))})' for k in order if feats[k]["sig"]) + "]", "",
          "end ET.Generated", ""]
    return "\n".join(L), {"features": len(order), "vis_values": common_vis}


def norm_doc(s):
    """common normal form of a documented signature line and of a template header"""
    s = s.strip()
    s = re.sub(r"^\$vis ", "", s)
    s = re.sub(r"\s*\{\.\.\}$", "", s)
    s = re.sub(r"\s*= \.\.$", "", s)
    s = s.replace("$repr", "#repr").replace("SelfIter", "#ident_iter_struct").replace("SelfNames", "#ident_names_struct")
    s = re.sub(r"^(const fn|fn|const(?! fn)) ([A-Za-z_]\w*)(?=\s*[(:])", r"\1 #NAME", s)
    s = re.sub(r"\s+", "", s)
    return s


def lean_str(s):
    return '"' + s.replace("\\", "\\\\").replace('"', '\\"') + '"'


GENERATORS = [("Uses.lean", gen_uses), ("Docs.lean", gen_docs)]


# ------------------------------------------------------------------ Inventory (C15, C16, C19)

KEYWORDS = {"fn", "let", "if", "else", "match", "for", "in", "loop", "return", "unsafe", "impl", "where", "as", "mut", "self", "Self",
            "pub", "const", "struct", "type", "use", "true", "false", "move", "ref", "static", "crate", "super", "dyn", "while",
            "break", "continue", "enum", "trait", "mod"}
PRIMITIVES = {"usize", "str", "u8", "u16", "u32", "u64", "u128", "i8", "i16", "i32", "i64", "i128", "isize", "bool", "char"}
ATTR_NAMES = {"inline", "doc"}


def all_templates(src):
    """(rel, group id, Quote) for every quote! in feature/** and generator/mod.rs; templates of one Rust fn share a group"""
    out = []
    rels = []
    for dp, _, fns in sorted(os.walk(src.path("feature"))):
        for fn in sorted(fns):
            if fn.endswith(".rs"):
                rels.append(os.path.relpath(os.path.join(dp, fn), src.path("")))
    rels.append("generator/mod.rs")
    for rel in rels:
        toks = src.toks(rel)
        # spans of Rust-level fns
        spans = []
        i = 0
        while i < len(toks):
            if toks[i].text == "fn" and i + 1 < len(toks) and toks[i + 1].kind == "ident" and (i == 0 or toks[i - 1].text != "#"):
                j = i + 2
                while toks[j].text != "{" and toks[j].text != ";":
                    if toks[j].text in ("(", "["):
                        j = match_close(toks, j)
                    j += 1
                if toks[j].text == "{":
                    e = match_close(toks, j)
                    spans.append((j, e, toks[i + 1].text))
                    i = e + 1
                    continue
            i += 1
        i = 0
        while i < len(toks):
            if toks[i].text == "quote" and i + 1 < len(toks) and toks[i + 1].text == "!":
                e = match_close(toks, i + 2)
                grp = next((f"{rel}::{nm}" for (a, b, nm) in spans if a < i < b), f"{rel}::?")
                q = Quote(toks[i + 3:e], toks[i].line)
                # `LIST.push(quote!{…})`: a fragment spliced into another template as `#(#LIST)*`
                q.pushed_to = toks[i - 4].text if i >= 4 and text_of(toks[i - 3:i]) == ". push (" else None
                if q.pushed_to is None:
                    # `let LIST = <iterator>.map(|…| quote!{…}).collect…;`: also a fragment of LIST
                    b = i - 1
                    while b >= 0 and (toks[b].text not in (";", "{", "}") or (toks[b].text == "{" and b > 0 and toks[b - 1].text == "|")):
                        b -= 1
                    st = toks[b + 1:i]
                    if len(st) > 3 and st[0].text == "let":
                        k = 2 if st[1].text == "mut" else 1
                        if st[k].kind == "ident" and st[k + 1].text == "=" and len(st) > k + 2 and ". map (" in text_of(st):
                            q.pushed_to = st[k].text
                out.append((rel, grp, q))
                i = e + 1
            else:
                i += 1
    return out


def template_scope(q):
    """(local bindings, names brought in by function-local `use` of absolute paths, relative uses)"""
    t = q.toks
    n = len(t)
    locals_, local_use, rel_use = set(), set(), []
    for i, x in enumerate(t):
        if x.text == "let":
            j = i + 1
            if t[j].text == "mut":
                j += 1
            if t[j].kind == "ident":
                locals_.add(t[j].text)
        if x.text == "for":
            j = i + 1
            tmp = []
            while j < n and t[j].text not in ("in", "{"):
                if t[j].kind == "ident":
                    tmp.append(t[j].text)
                j += 1
            if j < n and t[j].text == "in":      # a loop, not `impl Trait for Type`
                locals_.update(tmp)
        if x.text in ("|", "||") and x.text == "|":
            j = i + 1
            while j < n and t[j].text != "|" and j - i < 6:
                if t[j].kind == "ident" and t[j].text != "mut":
                    locals_.add(t[j].text)
                j += 1
        if x.text == "fn" and i + 2 < n:
            j = i + 1
            while j < n and t[j].text not in ("(",):
                if t[j].text == "<":
                    k = j + 1
                    while t[k].text != ">":
                        if t[k].kind == "ident":
                            locals_.add(t[k].text)
                        k += 1
                j += 1
            if j < n:
                e = match_close(t, j)
                for part in split_top(t[j + 1:e], ","):
                    ids = [y for y in part if y.kind == "ident"]
                    if ids and ids[0].text not in ("self", "mut") and len(part) > 1 and part[1].text == ":":
                        locals_.add(ids[0].text)
                    elif len(ids) > 1 and ids[0].text == "mut":
                        locals_.add(ids[1].text)
        if x.text == "use":
            j = i + 1
            if t[j].text != "::":
                rel_use.append((text_of(t[i:i + 6]), x.line))
            e = j
            while t[e].text != ";":
                e += 1
            seg = t[j:e]
            if seg and seg[-1].text == "}":
                b = max(k for k, y in enumerate(seg) if y.text == "{")
                for y in seg[b + 1:-1]:
                    if y.kind == "ident":
                        local_use.add(y.text)
            elif seg:
                local_use.add(seg[-1].text)
    return locals_, local_use, rel_use


def fn_regions(q):
    """[(first token, last token)] of every `fn` item of a template (keyword through the end of its body)"""
    t = q.toks
    out = []
    i = 0
    while i < len(t):
        if t[i].text == "fn" and (i == 0 or t[i - 1].text != "#"):
            j = i + 1
            while j < len(t) and t[j].text not in ("{", ";"):
                if t[j].text in ("(", "["):
                    j = match_close(t, j)
                j += 1
            if j < len(t) and t[j].text == "{":
                e = match_close(t, j)
                out.append((i, e))
                i = e + 1
                continue
        i += 1
    return out


def scope_map(q):
    """per token index: (local bindings, names imported by a `use` of an absolute path) that are in scope there.
    A `let`, a parameter or a `use` inside one generated function says nothing about another function."""
    regions = []
    rel_use = []
    for a, b in fn_regions(q):
        l, u, ru = template_scope(Quote(q.toks[a:b + 1], q.line))
        regions.append((a, b, l, u))
        rel_use += ru
    outside_toks = []
    pos = 0
    for a, b, _, _ in regions:
        outside_toks += q.toks[pos:a]
        pos = b + 1
    outside_toks += q.toks[pos:]
    lo, uo, ru = template_scope(Quote(outside_toks, q.line)) if outside_toks else (set(), set(), [])
    rel_use += ru

    def at(i):
        for a, b, l, u in regions:
            if a <= i <= b:
                return l, u
        return lo, uo
    return at, rel_use, regions


def _all_quotes(nodes):
    for n in nodes:
        if isinstance(n, Quote):
            yield n
        elif isinstance(n, If):
            yield from _all_quotes(n.then)
            yield from _all_quotes(n.els)
        elif isinstance(n, Match):
            for _, b in n.arms:
                yield from _all_quotes(b)


def classify_names(q, rel, scope_at):
    """classify every identifier occurrence of a template; returns [(name, class, line)]"""
    t = q.toks
    n = len(t)
    out = []
    # pass 2: occurrences
    i = 0
    while i < n:
        x = t[i]
        if x.kind != "ident":
            i += 1
            continue
        prev = t[i - 1].text if i > 0 else ""
        prev2 = t[i - 2].text if i > 1 else ""
        nxt = t[i + 1].text if i + 1 < n else ""
        name = x.text
        locals_, local_use = scope_at(i)
        if prev == "#":
            cls = "interpolation"
        elif prev == "::":
            # inside a path: find its head
            j = i
            PATHKW = ("Self", "self", "crate", "super")
            while j >= 2 and t[j - 1].text == "::":
                if t[j - 2].kind == "ident" and (t[j - 2].text not in KEYWORDS or t[j - 2].text in PATHKW):
                    j -= 2
                elif t[j - 2].text == ">":
                    # turbofish `::<T>::name`: step over the generic arguments
                    k = j - 2
                    d = 0
                    while k >= 0:
                        if t[k].text == ">":
                            d += 1
                        elif t[k].text == "<":
                            d -= 1
                            if d == 0:
                                break
                        k -= 1
                    if k >= 2 and t[k - 1].text == "::" and t[k - 2].kind == "ident":
                        j = k - 2
                    else:
                        break
                else:
                    break
            head_abs = j >= 1 and t[j - 1].text == "::"
            if head_abs:
                first = t[j].text
                cls = "absCore" if first == "core" else "absOther"
            else:
                first = t[j].text
                if first in ("Self", "self"):
                    cls = "selfRelative"
                elif j >= 1 and t[j - 1].text == "#":
                    cls = "interpRelative"
                elif first in local_use:
                    cls = "localUseRelative"
                else:
                    cls = "barePathTail"
        elif name in KEYWORDS or name == "_":
            cls = "keyword"
        elif prev == "fn":
            cls = "declaredFn"
        elif prev == ".":
            cls = "methodOrField"
        elif prev == "'":
            cls = "lifetime"
        elif name in locals_:
            cls = "localBinding"
        elif name in local_use:
            cls = "localUse"
        elif name in PRIMITIVES:
            cls = "primitive"
        elif nxt == "!":
            cls = "bareMacro"
        elif prev == "[" and prev2 == "#":
            cls = "attribute"
        elif nxt == ":" and (i + 2 < n and t[i + 2].text != ":") and prev in ("{", ","):
            cls = "fieldInit"
        elif nxt == "=" and prev in ("type",):
            cls = "assocTypeDecl"
        elif prev == "type":
            cls = "assocTypeDecl"
        elif nxt == "::" :
            cls = "barePathHead"
        else:
            cls = "bare"
        out.append((name, cls, x.line))
        i += 1
    return out


def item_headers(q):
    """normalised headers of the items a template declares"""
    t = q.toks
    n = len(t)
    heads = []
    i = 0
    depth = 0
    while i < n:
        x = t[i]
        # visibility prefix
        vis = None
        j = i
        if x.text == "#" and i + 1 < n and t[i + 1].text in ("vis",):
            vis = "#vis"; j = i + 2
        elif x.text == "#" and i + 1 < n and t[i + 1].text == "vis_enum":
            vis = "#vis_enum"; j = i + 2
        elif x.text == "pub":
            vis = "pub"
            j = i + 1
            if j < n and t[j].text == "(":
                e = match_close(t, j)
                vis = "pub" + text_of(t[j:e + 1]).replace(" ", "")
                j = e + 1
        if j < n and t[j].text in ("fn", "const", "struct") and not (j > 0 and t[j - 1].text in ("::",)):
            kind = t[j].text
            k = j + 1
            if kind == "const" and t[k].text == "fn":
                kind = "const fn"; k += 1
            if t[k].text == "(":      # a fn-pointer type, not an item
                i = k
                continue
            # up to the body / `=` / `;`
            e = k
            d = 0
            while e < n:
                if t[e].text in ("(", "[", "<") :
                    d += 1
                elif t[e].text in (")", "]", ">") and not (t[e].text == ">" and t[e - 1].text == "-"):
                    d -= 1
                if d == 0 and t[e].text in ("{", "=", ";", "where"):
                    break
                e += 1
            sig = text_of(t[k:e])
            inside_trait_impl = False
            heads.append({"vis": vis or "", "kind": kind, "sig": norm_sig(sig), "line": t[j].line})
            i = e
            continue
        if x.text == "impl":
            e = i
            while e < n and t[e].text not in ("{",):
                e += 1
            heads.append({"vis": "", "kind": "impl", "sig": norm_sig(text_of(t[i + 1:e])), "line": x.line})
            i = e
            continue
        i += 1
    return heads


def norm_sig(s):
    s = s.replace(":: core :: option :: ", "").replace(":: core :: result :: ", "").replace(":: core :: iter :: ", "")
    s = s.replace(":: core :: convert :: ", "").replace(":: core :: str :: ", "").replace(":: core :: fmt :: ", "")
    s = s.replace(":: core :: ops :: ", "").replace(":: core :: marker :: ", "")
    s = re.sub(r"# ident_enum\b", "Self", s)
    s = re.sub(r"\s+", " ", s).strip()
    s = s.replace(" :: ", "::").replace("( ", "(").replace(" )", ")").replace(" ,", ",").replace("< ", "<").replace(" >", ">")
    s = s.replace("& '", "&'").replace("& ", "&").replace(" :", ":").replace("# ", "#")
    return s


def gen_inventory(src):
    temps = all_templates(src)
    occ_rows = []
    head_rows = []
    classes = {}
    maps = {}
    for rel, grp, q in temps:
        maps[id(q)] = scope_map(q)
    for rel, grp, q in temps:
        at, rel_use, _ = maps[id(q)]
        if getattr(q, "pushed_to", None):
            # a fragment lives in the function of the template that splices it: `#(#LIST)*`
            hosts = []
            for rel2, grp2, q2 in temps:
                if grp2 != grp or q2 is q:
                    continue
                t2 = q2.toks
                for i in range(len(t2) - 5):
                    if text_of(t2[i:i + 5]) == f"# ( # {q.pushed_to} )" and (t2[i + 5].text == "*" or (t2[i + 5].text == "," and i + 6 < len(t2) and t2[i + 6].text == "*")):
                        hosts.append((q2, i))
            if len(hosts) != 1:
                err(rel, q.line, f"template pushed to `{q.pushed_to}` is spliced {len(hosts)} times in its function")
            hq, hi = hosts[0]
            hat = maps[id(hq)][0]
            l0, u0 = at(0)
            hl, hu = hat(hi)
            at = (lambda i, l=l0 | hl, u=u0 | hu: (l, u))
        for name, cls, line in classify_names(q, rel, at):
            classes[cls] = classes.get(cls, 0) + 1
            occ_rows.append((rel, line, name, cls))
        for h in item_headers(q):
            head_rows.append((rel, h))
        for txt, line in rel_use:
            occ_rows.append((rel, line, txt, "relativeUse"))
    # vis source: every generate of a feature with a user-visible item computes `vis` from self.vis or the enum's
    vis_ok = []
    for field in feature_fields(src):
        rel = src.feature_file(field)
        found = find_fn(src.toks(rel), "generate")
        body = text_of(found[1]) if found else ""
        uses_vis = "# vis" in text_of(src.toks(rel)) or any("# vis" in text_of(src.toks(r)) for r in (src.iter_files() if field == "iter" else []))
        if uses_vis:
            texts = [body] + ([text_of(src.toks(r)) for r in src.iter_files()] if field == "iter" else [])
            def vis_from_user_or_enum(tx):
                if "let vis = self . vis . as_ref ( ) . unwrap_or ( & derive . vis_enum )" in tx or "let vis = self . vis . as_ref ( ) . unwrap_or ( vis_enum )" in tx:
                    return True
                # the same expression behind a helper method of `Derive`
                m = re.search(r"let vis = derive \. (\w+) \( & self \. vis \) ;", tx)
                if m:
                    hf = find_fn(src.toks("generator/mod.rs"), m.group(1))
                    if hf:
                        pm = re.search(r"(\w+) : & (?:'\w+ )?Option < Visibility >", text_of(hf[0]))
                        if pm and text_of(hf[1]) == f"{pm.group(1)} . as_ref ( ) . unwrap_or ( & self . vis_enum )":
                            return True
                # … or behind a helper method of the feature itself
                m = re.search(r"let vis = self \. (\w+) \( derive \) ;", tx)
                if m:
                    for r2 in [rel] + (src.iter_files() if field == "iter" else []):
                        hf = find_fn(src.toks(r2), m.group(1))
                        if hf and text_of(hf[1]) in ("self . vis . as_ref ( ) . unwrap_or ( & derive . vis_enum )",
                                                      "self . vis . as_ref ( ) . unwrap_or ( & derive . vis_enum ) ;"):
                            return True
                return False
            ok = all(vis_from_user_or_enum(tx) for tx in texts if "# vis" in tx)
            vis_ok.append((FIELD_FLAG[field], ok))
    L = ["-- GENERATED by /verif/translate from every quote! template of /repo/src. Do not edit.", "namespace ET.Generated", "",
         "inductive NameClass where",
         "  | interpolation | absCore | absOther | selfRelative | interpRelative | localUseRelative | barePathTail | keyword",
         "  | methodOrField | lifetime | localBinding | localUse | primitive | bareMacro | attribute | fieldInit | assocTypeDecl",
         "  | barePathHead | bare | relativeUse | declaredFn",
         "deriving Repr, DecidableEq", "",
         "/-- every identifier occurrence in every template: (file, line, name, class) -/",
         "def nameOccurrences : List (String × Nat × String × NameClass) := ["]
    L.append(",\n".join(f'  ("{rel}", {line}, {lean_str(name)}, .{cls})' for rel, line, name, cls in occ_rows))
    L += ["]", "", "/-- item headers: (file, line, visibility expression, kind, normalised signature) -/",
          "def itemHeaders : List (String × Nat × String × String × String) := ["]
    L.append(",\n".join(f'  ("{rel}", {h["line"]}, {lean_str(h["vis"])}, {lean_str(h["kind"])}, {lean_str(h["sig"])})' for rel, h in head_rows))
    # --- per documented feature: the headers of its main item in every branch, normalised like the documentation
    key_file = {"as_str": ["feature/as_str_fn.rs"], "from_str": ["feature/from_str_fn.rs"], "into": ["feature/into_fn.rs"],
                "MAX": ["feature/max_const.rs"], "MIN": ["feature/min_const.rs"], "next": ["feature/next_fn.rs"],
                "next_back": ["feature/next_back_fn.rs"], "try_from": ["feature/try_from_fn.rs"], "names": ["feature/names.rs"],
                "range": ["feature/range_fn.rs"],
                "iter": ["feature/iter/next_and_back.rs", "feature/iter/range.rs", "feature/iter/table.rs", "feature/iter/table_inline.rs"]}
    feat_headers = []
    for key, files in key_file.items():
        hs = []
        for rel, h in head_rows:
            if rel in files and h["kind"] in ("fn", "const fn", "const") and h["vis"] == "#vis":
                sig = re.sub(r"#ident_\w+(?= ?[(:])", "#NAME", h["sig"], count=1)
                hs.append(norm_doc(h["kind"] + " " + sig))
        feat_headers.append((key, hs))
    # --- trait impls of every iterator struct emitter
    def impls_in(rel):
        return sorted({h["sig"].split(" for ")[0] for r, h in head_rows if r == rel and h["kind"] == "impl" and " for " in h["sig"]})
    common = impls_in("feature/iter/mod.rs")
    emitters = []
    for rel in ["feature/iter/next_and_back.rs", "feature/iter/range.rs", "feature/iter/table.rs", "feature/iter/table_inline.rs", "feature/names.rs"]:
        own = impls_in(rel)
        uses_common = "extend_common (" in text_of(src.toks(rel))
        emitters.append((rel, sorted(set(own) | (set(common) if uses_common else set()))))
    item_types = []
    for rel in ["feature/iter/next_and_back.rs", "feature/iter/mod.rs"]:
        s2 = text_of(src.toks(rel))
        for m in re.finditer(r"type Item = # (\w+) ;", s2):
            item_types.append((rel, "#" + m.group(1)))
    trait_fns = []
    for rel, h in head_rows:
        if rel.endswith("_trait.rs") and h["kind"] == "fn":
            trait_fns.append((rel, re.sub(r"\s+", "", h["sig"])))
    L += ["]", "", "/-- the methods of the trait-implementing features, in every branch: (file, normalised header) -/",
          "def traitFnHeaders : List (String × String) := [" + ", ".join(f'({lean_str(r)}, {lean_str(x)})' for r, x in trait_fns) + "]", ""]
    assoc = []
    for rel, grp, q in temps:
        tx = text_of(q.toks)
        for m in re.finditer(r"type (\w+) = (.*?) ;", tx):
            assoc.append((rel, m.group(1), re.sub(r"\s+", "", m.group(2))))
    vis_rows = []
    for rel, h in head_rows:
        if h["kind"] in ("fn", "const fn", "const", "struct") and h["sig"].startswith("#ident_"):
            nm = re.match(r"#ident_\w+", h["sig"]).group(0)
            vis_rows.append((rel, nm, h["vis"]))
    L += ["/-- every declared item that carries a generated name: (file, name interpolation, visibility expression) -/",
          "def itemVisibility : List (String × String × String) := [" + ", ".join(f'({lean_str(r)}, {lean_str(n)}, {lean_str(v)})' for r, n, v in vis_rows) + "]", ""]
    # --- forwarding methods of `extend_common`: fn NAME(..) { self.inner.CALLED(ARGS) }
    forwarders = []
    mt = src.toks("feature/iter/mod.rs")
    fnd = find_fn(mt, "extend_common")
    if not fnd:
        err("feature/iter/mod.rs", 1, "fn extend_common not found")
    for n in [x for x in _all_quotes(parse_block(fnd[1], "feature/iter/mod.rs"))]:
        t = n.toks
        i = 0
        while i < len(t):
            if t[i].text == "fn" and t[i + 1].kind == "ident":
                name = t[i + 1].text
                j = i + 2
                while t[j].text != "(":
                    j += 1
                pe = match_close(t, j)
                params = [text_of(x).split(" :")[0].replace("& mut ", "").replace("& ", "").replace("mut ", "").strip() for x in split_top(t[j + 1:pe], ",")]
                params = [x for x in params if x not in ("self", "")]
                k = pe
                while t[k].text != "{":
                    k += 1
                be = match_close(t, k)
                body = [x for x in t[k + 1:be]]
                # drop a leading `use …;`
                while body and body[0].text == "use":
                    e = 0
                    while body[e].text != ";":
                        e += 1
                    body = body[e + 1:]
                bt = text_of(body)
                m = re.fullmatch(r"self . inner . (\w+) \((.*)\)((?: \. \w+)*)", bt)
                if not m:
                    err("feature/iter/mod.rs", t[i].line, f"forwarder `{name}` is not of the form self.inner.method(args): `{bt}`")
                args = [a.strip() for a in m.group(2).split(",") if a.strip()]
                forwarders.append((name, m.group(1), " ".join(params), " ".join(args), m.group(3).replace(" ", "")))
                i = be
            i += 1
    L += ["/-- the forwarding methods of `extend_common`: (method, method called on `self.inner`, parameters, arguments passed, projection) -/",
          "def forwarders : List (String × String × String × String × String) := [" +
          ", ".join(f'({lean_str(a)}, {lean_str(b)}, {lean_str(c)}, {lean_str(d)}, {lean_str(e)})' for a, b, c, d, e in forwarders) + "]", ""]
    L += ["/-- associated types declared by the trait impls: (file, name, type) -/",
          "def assocTypes : List (String × String × String) := [" + ", ".join(f'({lean_str(r)}, {lean_str(n)}, {lean_str(v)})' for r, n, v in assoc) + "]", ""]
    L += ["/-- per feature key: the normalised header of its item in every template branch -/",
          "def featureHeaders : List (String × List String) := [" + ", ".join(f'({lean_str(k)}, [{", ".join(lean_str(x) for x in hs)}])' for k, hs in feat_headers) + "]", "",
          "/-- per iterator-struct emitter: the traits implemented for the struct -/",
          "def iteratorImpls : List (String × List String) := [" + ", ".join(f'({lean_str(r)}, [{", ".join(lean_str(x) for x in im)}])' for r, im in emitters) + "]", "",
          "def iteratorItemTypes : List (String × String) := [" + ", ".join(f'({lean_str(r)}, {lean_str(x)})' for r, x in item_types) + "]", ""]
    L += ["/-- per feature with a visible item: does `generate` take the visibility from the user's `vis` or else the enum's? -/",
          "def visFromUserOrEnum : List (String × Bool) := [" + ", ".join(f'("{f}", {"true" if ok else "false"})' for f, ok in vis_ok) + "]",
          "", "end ET.Generated", ""]
    return "\n".join(L), {"templates": len(temps), "name_occurrences": len(occ_rows), "classes": classes, "headers": len(head_rows)}


# ------------------------------------------------------------------ HashSites (C17)

NONDET_PATTERNS = [r"\bstd :: env\b", r"\bSystemTime\b", r"\bInstant\b", r"\bstatic mut\b", r"\bthread\b", r"\brand\b", r"\bRandomState\b",
                   r"\bAtomic\w+\b", r"\bthread_local\b", r"\bOnceCell\b", r"\bLazy\w*\b", r"\bstd :: process\b", r"\bstd :: fs\b",
                   r"(?<![A-Za-z_])static (?!str)", r"\bHashSet\b"]


def gen_hashsites(src):
    sites = []
    nondet = []
    root = src.path("")
    for dp, _, fns in sorted(os.walk(root)):
        for fn in sorted(fns):
            if not fn.endswith(".rs"):
                continue
            rel = os.path.relpath(os.path.join(dp, fn), root)
            toks = src.toks(rel)
            s = text_of(toks)
            for pat in NONDET_PATTERNS:
                for m in re.finditer(pat, s):
                    ctx = s[max(0, m.start() - 20):m.end() + 20]
                    if "& 'static" in ctx or "'static str" in ctx or "< 'static" in ctx:
                        continue
                    nondet.append((rel, m.group(0)))
            if "HashMap" not in s:
                continue
            # names bound to a HashMap: `let mut x = HashMap::new()`, fields `x: HashMap<..>`, tuple struct `(HashMap<..>)`
            names = set(re.findall(r"let (?:mut )?(\w+) = HashMap :: new", s))
            names |= set(re.findall(r"(\w+) : HashMap <", s))
            tuple_struct = re.search(r"struct (\w+) \( HashMap <", s)
            recv = [rf"\b{nm}\b" for nm in names] + ([r"self \. 0"] if tuple_struct else []) + [rf"self \. {nm}\b" for nm in names]
            for i, t in enumerate(toks):
                if t.text in ("iter", "into_iter", "iter_mut", "keys", "values", "drain", "into_keys", "into_values") and toks[i - 1].text == "." and toks[i + 1].text == "(":
                    # receiver text
                    j = i - 2
                    r = []
                    while j >= 0 and (toks[j].kind in ("ident", "num") or toks[j].text == "."):
                        r.insert(0, toks[j].text); j -= 1
                    rtxt = " ".join(r)
                    if not any(re.fullmatch(p.replace("\\b", ""), rtxt) for p in recv):
                        continue
                    sites.append((rel, t.line, rtxt + " . " + t.text, classify_site(toks, i, rel)))
    L = ["-- GENERATED by /verif/translate from all of /repo/src. Do not edit.", "namespace ET.Generated", "",
         "inductive SiteClass | sortedBeforeUse | errorPathOnly | other", "deriving Repr, DecidableEq", "",
         "/-- every iteration over a HashMap: (file, line, expression, class) -/",
         "def hashIterSites : List (String × Nat × String × SiteClass) := ["]
    L.append(",\n".join(f'  ("{rel}", {line}, {lean_str(ex)}, .{cls})' for rel, line, ex, cls in sites))
    L += ["]", "", "/-- other sources of per-process state found in the sources -/",
          "def nondeterminismSources : List (String × String) := [" + ", ".join(f'("{r}", {lean_str(w)})' for r, w in nondet) + "]", "",
          "end ET.Generated", ""]
    return "\n".join(L), {"hash_iteration_sites": len(sites), "nondeterminism_sources": len(nondet)}


def classify_site(toks, i, rel):
    """is the iteration's order observable?"""
    # statement containing the call, and the statement after it
    s0 = i
    while s0 > 0 and toks[s0 - 1].text not in (";", "{", "}"):
        s0 -= 1
    e0 = i
    depth = 0
    while e0 < len(toks):
        if toks[e0].text in ("(", "[", "{"):
            depth += 1
        elif toks[e0].text in (")", "]", "}"):
            depth -= 1
        if depth <= 0 and toks[e0].text in (";", "{"):
            break
        e0 += 1
    stmt = text_of(toks[s0:e0 + 1])
    if stmt.startswith("for ") and toks[e0].text == "{":
        be = match_close(toks, e0)
        body = text_of(toks[e0 + 1:be])
        if re.fullmatch(r"(emit_error ! \( [^;]* \) ;? ?)+", body.strip()):
            return "errorPathOnly"
        return "other"
    m = re.match(r"let (?:mut )?(\w+) = ", stmt)
    if m and ". collect" in stmt:
        v = m.group(1)
        nxt_s = e0 + 1
        nxt_e = nxt_s
        while nxt_e < len(toks) and toks[nxt_e].text != ";":
            nxt_e += 1
        nxt = text_of(toks[nxt_s:nxt_e + 1])
        if nxt == f"{v} . sort_by_key ( | v | v . 0 ) ;":
            return "sortedBeforeUse"
    return "other"


GENERATORS += [("Inventory.lean", gen_inventory), ("HashSites.lean", gen_hashsites)]

# ------------------------------------------------------------------ the repr table of Derive::parse

def gen_reprtable(src):
    """parser/mod.rs: `match repr.to_string().as_str() { "u8" | "i8" => (1, "u8"), .. _ => abort!(.., "unsupported repr") }` -- the table
    repr ident -> (guessed size in bytes, ident of the unsigned type of the same width), wherever in the file it sits and whatever the
    bound names are.  No other string literal of the file may name an integer type (the companion must come from this table)."""
    rel = "parser/mod.rs"
    text = text_of(src.toks(rel))
    ms = list(re.finditer(r'match (\w+) . to_string \( \) . as_str \( \) \{(.*?)_ => abort ! \( \w+ , "unsupported repr" \) ,? \}', text, re.S))
    if len(ms) != 1:
        raise TranslateError(f"{rel}: expected exactly one match on the repr's name ending in the \"unsupported repr\" arm, found {len(ms)}")
    body = ms[0].group(2)
    arms = re.findall(r'((?:"\w+" \| )*"\w+") => \( (\d+) , "(\w+)" \) ,', body)
    rest = re.sub(r'((?:"\w+" \| )*"\w+") => \( (\d+) , "(\w+)" \) ,', "", body).strip()
    if rest:
        raise TranslateError(f"{rel}: an arm of the repr table is not of the form \"name\" | .. => (size, \"unsigned\"): {rest[:120]}")
    outside = text[:ms[0].start()] + text[ms[0].end():]
    stray = re.findall(r'"([ui](?:8|16|32|64|128|size))"', outside)
    if stray:
        raise TranslateError(f"{rel}: integer type named in a string literal outside the repr table: {stray[:3]}")
    rows = []
    for pats, size, uns in arms:
        for r in re.findall(r'"(\w+)"', pats):
            rows.append((r, int(size), uns))
    if len({r for r, _, _ in rows}) != len(rows):
        raise TranslateError(f"{rel}: a repr appears in two arms of the repr table")
    L = ["-- GENERATED by /verif/translate from /repo/src/parser/mod.rs (the match on the repr's name). Do not edit.", "namespace ET.Generated", "",
         "/-- (repr ident, guessed size in bytes, ident of the unsigned companion type) -/",
         "def reprArms : List (String × Nat × String) := [",
         ",\n".join(f'  ("{r}", {sz}, "{u}")' for r, sz, u in rows), "]", "", "end ET.Generated", ""]
    return "\n".join(L), {"arms": len(rows)}


GENERATORS += [("ReprTable.lean", gen_reprtable)]



def gen_templates(src):
    import translate_templates
    return translate_templates.gen_templates(src)


GENERATORS += [("Templates.lean", gen_templates)]
