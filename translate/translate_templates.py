"""Templates.lean <- the bodies of the functions inside the quote! templates of src/feature/**.

Every `fn` of every template (inherent functions, trait methods, the hand-written `next_and_back`
iterator) is compiled into a Lean definition over the vocabulary of EnumToolsModel/Rust.lean, one
definition per quote! branch plus a dispatcher that repeats the Rust-level `if is_gapless` /
`match self.mode` / `match iter_mode` around the branches.  The forwarding impls of
`iter/mod.rs::extend_common` are not translated here (Inventory.lean carries their wiring).

The compilation is continuation-passing: an effectful Rust operation (checked arithmetic, indexing,
transmute, unchecked unwrap/assume_init, calls of other generated functions) becomes a `Res.bind`;
`return` discards the continuation; assignments rebind (shadow) the variable; a `for` loop becomes
`forRet` (body may return) or `forFold` (body updates variables); `loop { let r = it.next()
.unwrap_unchecked(); … }` becomes `loopNext`/`loopNextBack`.  Anything else raises TranslateError.
"""
import re

import rustexpr
from rustlex import TranslateError, find_fn, parse_block, text_of, If, Match, Quote, Stmt
from translate import FIELD_FLAG, feature_fields, err

# ------------------------------------------------------------------ types
INT = lambda k: ("int", k)          # k in repr, urepr, usize, None (untyped literal)
ENUM, STR, BOOL, UNIT, RENTRY, ITERSTATE = "enum", "str", "bool", "unit", "rentry", "iterstate"
OPT = lambda t: ("opt", t)
LIST = lambda t: ("list", t)
TUP = lambda ts: ("tuple", tuple(ts))
UNINIT = lambda t: ("uninit", t)
RINCL = "rangeincl"                 # `r.0` of a range-table entry; the Lean term is the entry itself


class V:
    """a pure Lean term with its Rust-side type"""
    __slots__ = ("t", "ty", "aux")

    def __init__(self, t, ty, aux=None):
        self.t, self.ty, self.aux = t, ty, aux


def prim(k):
    return {"repr": "D.repr", "urepr": "(ITy.urepr.prim D tg)", "usize": "(ITy.usize.prim D tg)"}[k]


def par(s):
    s = s.strip()
    if re.match(r"^[\w.«»']+$", s) or (s.startswith("(") and s.endswith(")") and balanced(s[1:-1])):
        return s
    return "(" + s + ")"


def balanced(s):
    d = 0
    for c in s:
        d += (c == "(") - (c == ")")
        if d < 0:
            return False
    return d == 0


# names destructured from `Names` / `Derive` and what they denote in the model
TABLES = {
    "ident_table_range": ("(tableRange D)", LIST(RENTRY)),
    "ident_table_name": ("(tableName D)", LIST(STR)),
    "ident_table_enum": ("(tableEnum D)", LIST(ENUM)),
}
CONSTS = {"ident_min": ("(minC D)", ENUM), "ident_max": ("(maxC D)", ENUM)}
# generated functions callable from other templates: interpolated name -> (Lean function, arg types, result type, effectful)
FUNCS = {
    "ident_next": ("T.next D tg md", [ENUM], OPT(ENUM)),
    "ident_next_back": ("T.nextBack D tg md", [ENUM], OPT(ENUM)),
    "ident_as_str": ("T.asStr D tg md", [ENUM], STR),
    "ident_to_fn": ("T.intoFn D tg md", [ENUM], INT("repr")),
    "ident_try_from_fn": ("T.tryFromFn D tg md", [INT("repr")], OPT(ENUM)),
    "ident_from_str_fn": ("T.fromStrFn D tg md", [STR], OPT(ENUM)),
}
TYPE_OF_TEXT = {"# repr": INT("repr"), "# repr_unsigned": INT("urepr"), "usize": INT("usize"), "Self": ENUM,
                "# ident_enum": ENUM, "& str": STR, "& 'static str": STR}


class Ctx:
    def __init__(self, where, interp, ret):
        self.where = where
        self.interp = interp        # macro-time bindings visible in this template
        self.ret = ret              # how `return v` ends the function: V -> str
        self.n = 0
        self.pure_only = False
        self.line = 0

    def fresh(self, base="x"):
        self.n += 1
        return f"{base}{self.n}"

    def fail(self, msg):
        raise TranslateError(f"{self.where}: {msg}")


class NotPure(Exception):
    pass


def lean_ty(ty):
    if ty in (ENUM,) or (isinstance(ty, tuple) and ty[0] == "int"):
        return "Int"
    if ty == STR:
        return "Name"
    if ty == BOOL:
        return "Bool"
    if ty == UNIT:
        return "Unit"
    if ty == RENTRY or ty == RINCL:
        return "RangeEntry"
    if ty == ITERSTATE:
        return "(IterState Int)"
    if ty == "iterstate_str":
        return "(IterState Name)"
    if ty[0] in ("opt", "uninit"):
        return f"(Option {lean_ty(ty[1])})"
    if ty[0] == "list":
        return f"(List {lean_ty(ty[1])})"
    if ty[0] == "tuple":
        return "(" + " × ".join(lean_ty(x) for x in ty[1]) + ")"
    raise TranslateError(f"no Lean type for {ty}")


def is_int(ty):
    return isinstance(ty, tuple) and ty[0] == "int"


def unify_int(a, b, ctx):
    """the integer type of a binary operation"""
    ka, kb = a.ty[1], b.ty[1]
    if ka is None:
        return kb
    if kb is None or ka == kb:
        return ka
    ctx.fail(f"integer operands of different types ({ka}, {kb})")


# ------------------------------------------------------------------ expressions (CPS)
def bind(ctx, eff, ty, k, env, base="x"):
    """`eff : Res τ` followed by the continuation"""
    if ctx.pure_only:
        raise NotPure()
    x = ctx.fresh(base)
    return f"({eff}).bind fun {x} =>\n{k(V(x, ty), env)}"


def comp_args(args, env, ctx, k, acc=None):
    acc = acc or []
    if not args:
        return k(acc, env)
    return comp(args[0], env, ctx, lambda v, env2: comp_args(args[1:], env2, ctx, k, acc + [v]))


def path_text(segs):
    return " :: ".join(s if isinstance(s, str) else ("#" + s[1] if s[0] == "#" else s[1]) for s in segs).replace(":: ::", "::")


def comp_path(e, env, ctx):
    segs = [s for s in e[1] if not (isinstance(s, tuple) and s[0] == "<>")]
    if len(segs) == 1 and isinstance(segs[0], str):
        n = segs[0]
        if n in env:
            return env[n]
        if n == "None":
            return V("none", OPT(None))
        ctx.fail(f"unknown name `{n}` in a template body")
    if len(segs) == 1 and segs[0][0] == "#":
        return interp_value(segs[0][1], ctx)
    if len(segs) == 2 and segs[0] in ("Self", ("#", "ident_enum")) and isinstance(segs[1], tuple):
        n = segs[1][1]
        if n in TABLES:
            return V(*TABLES[n])
        if n in CONSTS:
            return V(*CONSTS[n])
        iv = ctx.interp.get(n)
        if iv and iv[0] == "variant":
            return V(iv[1], ENUM)
        ctx.fail(f"`Self::#{n}` does not name a table, MIN/MAX or a variant of the surrounding repetition")
    txt = path_text(segs)
    if txt in (":: core :: option :: Option :: None", "Option :: None"):
        return V("none", OPT(None))
    ctx.fail(f"unknown path `{txt}`")


def interp_value(n, ctx):
    iv = ctx.interp.get(n)
    if iv is None:
        ctx.fail(f"interpolation `#{n}` has no translated meaning")
    kind = iv[0]
    if kind == "lit":
        return V(f"(lit D.repr D.{iv[1]})", INT("repr"))
    if kind == "usizelit" or (kind == "field" and iv[1] == "Derive" and iv[2] == "num_values"):
        return V("(D.numValues : Int)", INT("usize"))
    if kind == "name":
        return V(iv[1], STR)
    if kind == "variant":
        return V(iv[1], ENUM)
    ctx.fail(f"interpolation `#{n}` ({kind}) used as a value")


def as_type(tytext, ctx):
    t = TYPE_OF_TEXT.get(tytext)
    if t is None:
        ctx.fail(f"cast or annotation to unsupported type `{tytext}`")
    return t


def comp_closure_res(cl, argtys, env, ctx):
    """a closure as a Lean `fun` returning `Res τ`; (text, result type, pure?)"""
    if cl[0] != "closure":
        ctx.fail("expected a closure")
    params = cl[1]
    if len(params) != len(argtys):
        ctx.fail("closure arity")
    env2 = dict(env)
    names = []
    for p, ty in zip(params, argtys):
        binder, bound = bind_pattern(p, ty, ctx)
        env2.update(bound)
        names.append(binder)
    out = {}
    # pure attempt first
    saved = ctx.pure_only
    ctx.pure_only = True
    try:
        body = comp(cl[2], env2, ctx, lambda v, e: out.setdefault("v", v) and v.t)
        ctx.pure_only = saved
        return f"fun {' '.join(names)} => {body}", out["v"].ty, True
    except NotPure:
        ctx.pure_only = saved
    out = {}
    body = comp(cl[2], env2, ctx, lambda v, e: (out.setdefault("v", v), f".ok {par(v.t)}")[1])
    return f"fun {' '.join(names)} =>\n{body}", out["v"].ty, False


def comp(e, env, ctx, k):
    """compile expression `e`; `k(value, env)` produces the rest of the function (a `Res` term)"""
    tag = e[0]
    if tag == "int":
        ty = {None: None, "usize": "usize"}.get(e[2], "sfx")
        if ty == "sfx":
            ctx.fail(f"integer literal with suffix {e[2]}")
        return k(V(str(e[1]), INT(ty)), env)
    if tag == "str":
        ctx.fail("string literal in a template body")
    if tag == "path":
        return k(comp_path(e, env, ctx), env)
    if tag == "tuple":
        return comp_args(e[1], env, ctx, lambda vs, env2: k(V("(" + ", ".join(v.t for v in vs) + ")", TUP([v.ty for v in vs])), env2))
    if tag == "unary":
        op = e[1]
        if op in ("&", "*"):
            return comp(e[2], env, ctx, k)
        if op == "!":
            def kn(v, env2):
                if v.ty != BOOL:
                    ctx.fail("`!` on a non-boolean")
                if isinstance(v.aux, dict) and "neg_of" in v.aux:
                    return k(V(v.aux["neg_of"], BOOL), env2)
                return k(V(f"(!{par(v.t)})", BOOL, {"neg_of": v.t}), env2)
            return comp(e[2], env, ctx, kn)
        ctx.fail(f"unary `{op}`")
    if tag == "cast":
        target = as_type(e[2][1], ctx)
        if not is_int(target):
            ctx.fail("cast to a non-integer type")

        def kc(v, env2):
            if v.ty == ENUM or is_int(v.ty):
                return k(V(f"(cast {prim(target[1])} {par(v.t)})", target), env2)
            ctx.fail(f"cast of a value of type {v.ty}")
        return comp(e[1], env, ctx, kc)
    if tag == "binary":
        op = e[1]

        def kl(a, env2):
            def kr(b, env3):
                if op in ("==", "!=", "<", ">", "<=", ">="):
                    if is_int(a.ty) and is_int(b.ty):
                        unify_int(a, b, ctx)
                    elif not (a.ty == b.ty and a.ty in (STR, ENUM)):
                        ctx.fail(f"comparison `{op}` of {a.ty} and {b.ty}")
                    if a.ty == ENUM and op not in ("==", "!="):
                        ctx.fail("ordering comparison of enum values")
                    # one normal form for the six comparisons: operands of `=` in textual order, only `<` / `≤`,
                    # `!=` as a negated `=` (an `if` on a negated condition swaps its branches)
                    x, y = par(a.t), par(b.t)
                    if op in ("==", "!="):
                        x, y = sorted((x, y))
                        pos = f"decide ({x} = {y})"
                        if op == "==":
                            return k(V(pos, BOOL), env3)
                        return k(V(f"(!{pos})", BOOL, {"neg_of": pos}), env3)
                    if op in (">", "<="):
                        x, y = y, x
                    pos = f"decide ({x} < {y})"
                    if op in ("<", ">"):
                        return k(V(pos, BOOL), env3)
                    # `a <= b` is `!(b < a)`, `a >= b` is `!(a < b)`
                    return k(V(f"(!{pos})", BOOL, {"neg_of": pos}), env3)
                if op in ("&&", "||"):
                    if a.ty != BOOL or b.ty != BOOL:
                        ctx.fail("boolean operator on non-booleans")
                    return k(V(f"({par(a.t)} {op} {par(b.t)})", BOOL), env3)
                if op in ("+", "-"):
                    if not (is_int(a.ty) and is_int(b.ty)):
                        ctx.fail(f"`{op}` on non-integers")
                    kk = unify_int(a, b, ctx)
                    if kk is None:
                        ctx.fail("arithmetic on two untyped literals")
                    fn = "add" if op == "+" else "sub"
                    return bind(ctx, f"{fn} {prim(kk)} {par(a.t)} {par(b.t)}", INT(kk), k, env3)
                ctx.fail(f"binary `{op}`")
            return comp(e[3], env2, ctx, kr)
        return comp(e[2], env, ctx, kl)
    if tag == "field":
        def kf(v, env2):
            f = e[2]
            if v.ty == RENTRY and f == 0:
                return k(V(v.t, RINCL), env2)
            if v.ty == RENTRY and f == 1:
                return k(V(f"{par(v.t)}.ofs", INT("repr")), env2)
            if isinstance(v.ty, tuple) and v.ty[0] == "tuple" and isinstance(f, int) and len(v.ty[1]) == 2:
                return k(V(f"{par(v.t)}.{f + 1}", v.ty[1][f]), env2)
            ctx.fail(f"field `.{f}` of a value of type {v.ty}")
        if e[1] == ("path", ["self"]) and isinstance(e[2], str) and ("self." + e[2]) in env:
            return k(env["self." + e[2]], env)
        return comp(e[1], env, ctx, kf)
    if tag == "index":
        def ki(tbl, env2):
            if not (isinstance(tbl.ty, tuple) and tbl.ty[0] == "list"):
                ctx.fail("indexing a non-table")
            idx = e[2]
            if idx[0] == "if" and idx[3] is not None:
                # `T[if c { a..b } else { c..d }]`
                def kcond(c, env3):
                    a = comp(("index", ("__v", tbl), block_value(idx[2], ctx)), env3, ctx, k)
                    b = comp(("index", ("__v", tbl), block_value(idx[3], ctx)), env3, ctx, k)
                    if isinstance(c.aux, dict) and "neg_of" in c.aux:
                        return f"if {c.aux['neg_of']} then\n{b}\nelse\n{a}"
                    return f"if {c.t} then\n{a}\nelse\n{b}"
                return comp(idx[1], env2, ctx, kcond)
            if idx[0] == "range":
                if idx[3]:
                    ctx.fail("inclusive range as index")
                return comp_args([idx[1], idx[2]], env2, ctx, lambda vs, env3: (
                    check_usize(vs, ctx), bind(ctx, f"sliceExcl {par(tbl.t)} {par(vs[0].t)} {par(vs[1].t)}", tbl.ty, k, env3, "sl"))[1])

            def kidx(i, env3):
                check_usize([i], ctx)
                return bind(ctx, f"Rust.index {par(tbl.t)} {par(i.t)}", tbl.ty[1], k, env3)
            return comp(idx, env2, ctx, kidx)
        return comp(e[1], env, ctx, ki)
    if tag == "__v":
        return k(e[1], env)
    if tag == "call":
        return comp_call(e, env, ctx, k)
    if tag == "mcall":
        return comp_mcall(e, env, ctx, k)
    if tag == "block":
        return comp_block(e, env, ctx, k)
    if tag == "if":
        def kcond(c, env2):
            if c.ty != BOOL:
                ctx.fail("non-boolean condition")
            if e[3] is None:
                a = comp_block(e[2], env2, ctx, lambda v, env3: k(V("()", UNIT), env3))
                b = k(V("()", UNIT), env2)
            else:
                a = comp(e[2], env2, ctx, k)
                b = comp(e[3], env2, ctx, k)
            if isinstance(c.aux, dict) and "neg_of" in c.aux:
                return f"if {c.aux['neg_of']} then\n{b}\nelse\n{a}"
            return f"if {c.t} then\n{a}\nelse\n{b}"
        return comp(e[1], env, ctx, kcond)
    if tag == "return":
        if ctx.pure_only:
            raise NotPure()
        if e[1] is None:
            ctx.fail("bare return")
        return comp(e[1], env, ctx, lambda v, env2: ctx.ret(v))
    if tag == "struct":
        return comp_struct(e, env, ctx, k)
    if tag == "match":
        return comp_match(e, env, ctx, k)
    if tag == "for":
        return comp_for(e, env, ctx, k)
    if tag == "loop":
        return comp_loop(e, env, ctx, k)
    if tag == "assign" or tag == "opassign":
        return comp_assign(e, env, ctx, k)
    if tag == "arraysplice":
        iv = ctx.interp.get(e[2])
        if iv and iv[0] == "enums" and e[1] == ("path", ["Self", ("#", e[2])]):
            return k(V("D.vals", LIST(ENUM)), env)
        ctx.fail("array repetition that is not `[#(Self::#enums),*]` over derive.values")
    if tag == "range":
        ctx.fail("range expression outside `.map(..)` / an index")
    if tag == "macro":
        ctx.fail(f"macro `{e[1]}!` in a template body")
    ctx.fail(f"expression form `{tag}`")


def block_value(b, ctx):
    if b[0] != "block" or b[1] or b[2] is None:
        ctx.fail("branch of an index expression is not a single expression")
    return b[2]


def check_usize(vs, ctx):
    for v in vs:
        if not (is_int(v.ty) and v.ty[1] in ("usize", None)):
            ctx.fail(f"index of type {v.ty}")


def comp_call(e, env, ctx, k):
    f = e[1]
    if f[0] != "path":
        ctx.fail("call of a non-path")
    segs = [s for s in f[1] if not (isinstance(s, tuple) and s[0] == "<>")]
    txt = path_text(segs)

    def with_args(fn):
        return comp_args(e[2], env, ctx, fn)
    mu = re.fullmatch(r":: core :: iter :: (?:Iterator|DoubleEndedIterator|ExactSizeIterator|IntoIterator) :: (\w+)", txt)
    if mu and e[2]:
        return comp_mcall(("mcall", e[2][0], mu.group(1), e[2][1:]), env, ctx, k)
    if txt in (":: core :: mem :: transmute",):
        def kt(vs, env2):
            if len(vs) != 1 or not is_int(vs[0].ty) or vs[0].ty[1] != "repr":
                ctx.fail("transmute of something that is not a repr value")
            return bind(ctx, f"transmute D {par(vs[0].t)}", ENUM, k, env2, "e")
        return with_args(kt)
    if txt in ("Some", "Ok", ":: core :: option :: Option :: Some", ":: core :: result :: Result :: Ok"):
        return with_args(lambda vs, env2: k(V(f"some {par(vs[0].t)}", OPT(vs[0].ty)), env2))
    if txt in ("Err", ":: core :: result :: Result :: Err"):
        if e[2] != [("tuple", [])]:
            ctx.fail("Err with a payload")
        return k(V("none", OPT(None)), env)
    if txt == ":: core :: mem :: MaybeUninit :: uninit":
        g = [s for s in f[1] if isinstance(s, tuple) and s[0] == "<>"]
        if not g or g[0][1] != "< usize >":
            ctx.fail("MaybeUninit of a type other than usize")
        return k(V("none", UNINIT(INT("usize"))), env)
    if len(segs) == 2 and segs[0] in ("Self", ("#", "ident_enum")) and isinstance(segs[1], tuple) and segs[1][1] in FUNCS:
        return comp_fn_call(segs[1][1], e[2], env, ctx, k)
    ctx.fail(f"call of `{txt}`")


def comp_fn_call(name, args, env, ctx, k):
    fn, argtys, rty = FUNCS[name]

    def ka(vs, env2):
        if len(vs) != len(argtys) or any(v.ty != t for v, t in zip(vs, argtys)):
            ctx.fail(f"call of generated function `#{name}` with arguments of types {[v.ty for v in vs]}")
        return bind(ctx, f"{fn} {' '.join(par(v.t) for v in vs)}", rty, k, env2)
    return comp_args(args, env, ctx, ka)


def comp_mcall(e, env, ctx, k):
    recv, name, args = e[1], e[2], e[3]
    # methods on a mutable iterator variable / MaybeUninit variable / self fields
    if recv[0] == "path" and len(recv[1]) == 1 and isinstance(recv[1][0], str) and recv[1][0] in env:
        var = recv[1][0]
        v = env[var]
        if isinstance(v.ty, tuple) and v.ty[0] == "list" and name in ("next", "next_back") and not args:
            if ctx.pure_only:
                raise NotPure()
            x = ctx.fresh("o")
            env2 = dict(env)
            lv = lean_name(var)
            env2[var] = V(lv, v.ty, (v.aux or 0) + 1)
            head, tail = ("head?", "tail") if name == "next" else ("getLast?", "dropLast")
            return f"let {x} := {par(v.t)}.{head}\nlet {lv} := {par(v.t)}.{tail}\n{k(V(x, OPT(v.ty[1])), env2)}"
        if isinstance(v.ty, tuple) and v.ty[0] == "uninit" and name == "write" and len(args) == 1:
            def kw(a, env2):
                if a.ty != v.ty[1]:
                    ctx.fail("MaybeUninit::write of another type")
                env3 = dict(env2)
                env3[var] = V(lean_name(var), v.ty, (v.aux or 0) + 1)
                return f"let {lean_name(var)} := some {par(a.t)}\n{k(V('()', UNIT), env3)}"
            return comp(args[0], env, ctx, kw)
    if name == "then" and len(args) == 1 and args[0][0] == "closure" and not args[0][1]:
        # `c.then(|| e)` is `if c { Some(e) } else { None }`
        return comp(("if", recv, ("block", [], ("call", ("path", ["Some"]), [args[0][2]])), ("block", [], ("path", ["None"]))), env, ctx, k)
    if isinstance(name, tuple):
        # `x.#ident_next()`
        if name[1] in FUNCS:
            return comp_fn_call(name[1], [recv] + args, env, ctx, k)
        ctx.fail(f"method `#{name[1]}`")

    def kr(r, env2):
        ty = r.ty
        if ty == RINCL:
            if name == "contains" and len(args) == 1:
                return comp(args[0], env2, ctx, lambda a, env3: (
                    None if (is_int(a.ty) and a.ty[1] == "repr") else ctx.fail("contains() of a non-repr value"),
                    k(V(f"RangeEntry.contains {par(r.t)} {par(a.t)}", BOOL), env3))[1])
            if name == "start" and not args:
                return k(V(f"{par(r.t)}.start", INT("repr")), env2)
            if name == "end" and not args:
                return k(V(f"{par(r.t)}.stop", INT("repr")), env2)
        if is_int(ty) and name in ("wrapping_add", "wrapping_sub") and len(args) == 1:
            def kw(a, env3):
                kk = unify_int(r, a, ctx)
                if kk is None:
                    ctx.fail("wrapping arithmetic on untyped literals")
                fn = "wrappingAdd" if name == "wrapping_add" else "wrappingSub"
                return k(V(f"({fn} {prim(kk)} {par(r.t)} {par(a.t)})", INT(kk)), env3)
            return comp(args[0], env2, ctx, kw)
        if isinstance(ty, tuple) and ty[0] == "list":
            if name in ("iter", "into_iter", "copied") and not args:
                return k(r, env2)
            if name == "enumerate" and not args:
                return k(V(f"(enumerate {par(r.t)})", LIST(TUP([INT("usize"), ty[1]]))), env2)
            if name == "zip" and len(args) == 1:
                return comp(args[0], env2, ctx, lambda o, env3: (
                    None if (isinstance(o.ty, tuple) and o.ty[0] == "list") else ctx.fail("zip with a non-iterator"),
                    k(V(f"(List.zip {par(r.t)} {par(o.t)})", LIST(TUP([ty[1], o.ty[1]]))), env3))[1])
            if name == "find" and len(args) == 1:
                fn, rty, pure = comp_closure_res(args[0], [ty[1]], env2, ctx)
                if not pure or rty != BOOL:
                    ctx.fail("find() with a closure that is not a pure predicate")
                return k(V(f"(List.find? ({fn}) {par(r.t)})", OPT(ty[1])), env2)
            if name == "map" and len(args) == 1:
                fn, rty, pure = comp_closure_res(args[0], [ty[1]], env2, ctx)
                if pure:
                    return k(V(f"(List.map ({fn}) {par(r.t)})", LIST(rty)), env2)
                return bind(ctx, f"mapM ({fn}) {par(r.t)}", LIST(rty), k, env2, "l")
            if name == "position" and len(args) == 1:
                fn, rty, pure = comp_closure_res(args[0], [ty[1]], env2, ctx)
                if not pure or rty != BOOL:
                    ctx.fail("position() with a closure that is not a pure predicate")
                return k(V(f"(position ({fn}) {par(r.t)})", OPT(INT("usize"))), env2)
            if name == "find_map" and len(args) == 1:
                fn, rty, pure = comp_closure_res(args[0], [ty[1]], env2, ctx)
                if not pure or not (isinstance(rty, tuple) and rty[0] == "opt"):
                    ctx.fail("find_map() with a closure that is not a pure function into Option")
                return k(V(f"(List.findSome? ({fn}) {par(r.t)})", rty), env2)
        if isinstance(ty, tuple) and ty[0] == "opt":
            if name == "ok_or" and args == [("tuple", [])]:
                return k(r, env2)       # Result<T, ()> is rendered as Option<T>
            if name == "unwrap_unchecked" and not args:
                return bind(ctx, f"unwrapUnchecked {par(r.t)}", ty[1], k, env2, "r")
            if name in ("map", "and_then") and len(args) == 1:
                fn, rty, pure = comp_closure_res(args[0], [ty[1]], env2, ctx)
                if name == "map":
                    if pure:
                        return k(V(f"(Option.map ({fn}) {par(r.t)})", OPT(rty)), env2)
                    return bind(ctx, f"optMapM {par(r.t)} ({fn})", OPT(rty), k, env2, "o")
                if not (isinstance(rty, tuple) and rty[0] == "opt"):
                    ctx.fail("and_then with a closure that does not return an Option")
                if pure:
                    return k(V(f"(Option.bind {par(r.t)} ({fn}))", rty), env2)
                return bind(ctx, f"optAndThenM {par(r.t)} ({fn})", rty, k, env2, "o")
        if isinstance(ty, tuple) and ty[0] == "uninit" and name == "assume_init" and not args:
            return bind(ctx, f"assumeInit {par(r.t)}", ty[1], k, env2, "i")
        if isinstance(ty, tuple) and ty[0] == "rangelit" and name == "map" and len(args) == 1:
            fn, rty, pure = comp_closure_res(args[0], [INT("repr")], env2, ctx)
            if pure:
                return k(V(f"(List.map ({fn}) {r.t})", LIST(rty)), env2)
            return bind(ctx, f"mapM ({fn}) {r.t}", LIST(rty), k, env2, "l")
        ctx.fail(f"method `.{name}()` on a value of type {ty}")

    if recv[0] == "range":
        # `(a..=b).map(..)`
        if not recv[3]:
            ctx.fail("half-open range iterator")
        return comp_args([recv[1], recv[2]], env, ctx, lambda vs, env2: (
            None if all(is_int(v.ty) and v.ty[1] == "repr" for v in vs) else ctx.fail("range over non-repr values"),
            kr(V(f"(interval {par(vs[0].t)} {par(vs[1].t)})", ("rangelit",)), env2))[1])
    return comp(recv, env, ctx, kr)


def comp_struct(e, env, ctx, k):
    segs = e[1][1]
    if not (len(segs) == 1 and isinstance(segs[0], tuple) and segs[0][1] in ("ident_iter_struct", "ident_names_struct")):
        ctx.fail("struct literal of an unknown struct")
    fields = [f for f, _ in e[2]]

    def kf(vs, env2):
        if fields == ["inner"]:
            v = vs[0]
            if not (isinstance(v.ty, tuple) and v.ty[0] == "list"):
                ctx.fail("`inner` is not an iterator")
            if segs[0][1] == "ident_names_struct":
                if v.ty[1] != STR:
                    ctx.fail("names struct over non-strings")
                return k(V(f"(IterState.cursor {par(v.t)})", "iterstate_str"), env2)
            if v.ty[1] != ENUM:
                ctx.fail("iterator struct over non-variants")
            return k(V(f"(IterState.cursor {par(v.t)})", ITERSTATE), env2)
        if sorted(fields) == ["bwd", "fwd", "len"]:
            # the initialisers were evaluated in the order written; the struct does not care
            byname = dict(zip(fields, vs))
            f_, b_, l_ = byname["fwd"], byname["bwd"], byname["len"]
            if f_.ty != OPT(ENUM) or b_.ty != OPT(ENUM) or not (is_int(l_.ty) and l_.ty[1] in ("usize", None)):
                ctx.fail("next_and_back struct with fields of unexpected types")
            return k(V(f"(IterState.nb {par(f_.t)} {par(b_.t)} (Int.toNat {par(l_.t)}))", ITERSTATE), env2)
        ctx.fail(f"iterator struct with fields {fields}")
    return comp_args([x for _, x in e[2]], env, ctx, kf)


def comp_match(e, env, ctx, k):
    scrut, arms, splice = e[1], e[2], e[3]
    if splice is None and sorted(a[0] for a in arms) == ["false", "true"]:
        # `match c { true => a, false => b }` is `if c { a } else { b }`
        d = dict(arms)
        blk = lambda x: x if x[0] == "block" else ("block", [], x)
        return comp(("if", scrut, blk(d["true"]), blk(d["false"])), env, ctx, k)
    if splice is None:
        ctx.fail("match without a repetition of arms")
    arm = ctx.interp.get(splice)
    if not arm or arm[0] != "arms":
        ctx.fail(f"`#(#{splice})*` is not a list of arms pushed in a loop over derive.values")
    pat_toks, body_expr, arm_interp = arm[1], arm[2], arm[3]

    def ks(s, env2):
        actx = Ctx(ctx.where, dict(ctx.interp, **arm_interp), ctx.ret)
        actx.pure_only = True
        # pattern
        ptxt = pat_toks
        if s.ty == ENUM and ptxt in ("# ident_enum :: # v", "Self :: # v"):
            key = "x.1"
        elif s.ty == STR and ptxt == "# name":
            key = "x.2.2"
        else:
            ctx.fail(f"arm pattern `{ptxt}` for a scrutinee of type {s.ty}")
        out = {}
        try:
            body = comp(body_expr, {}, actx, lambda v, e2: (out.setdefault("v", v), v.t)[1])
        except NotPure:
            ctx.fail("effectful match arm")
        rty = out["v"].ty
        table = f"(D.values.map fun x => ({key}, {body}))"
        if s.ty == ENUM:
            if arms:
                ctx.fail("extra arms in a match on self")
            return bind(ctx, f"matchEnum {table} {par(s.t)}", rty, k, env2)
        # match on a string: the only extra arm is the default
        if len(arms) != 1 or arms[0][0] != "_":
            ctx.fail("string match without a single `_` arm")
        dflt = {}
        dbody = comp(arms[0][1], env2, actx, lambda v, e2: (dflt.setdefault("v", v), v.t)[1])
        if not (isinstance(rty, tuple) and rty[0] == "opt" and dflt["v"].ty[0] == "opt"):
            ctx.fail("string match whose arms are not Options")
        return k(V(f"((matchFirst {table} {par(s.t)}).getD {par(dbody)})", rty), env2)
    return comp(scrut, env, ctx, ks)


def assigned_vars(node, env, acc=None):
    """outer variables a loop body rebinds (assignment, .write, .next on an iterator variable)"""
    acc = acc if acc is not None else []

    def add(n):
        if n in env and n not in acc:
            acc.append(n)

    def walk(x):
        if isinstance(x, tuple):
            if x and x[0] in ("assign", "opassign"):
                lhs = x[1] if x[0] == "assign" else x[2]
                if lhs[0] == "path" and len(lhs[1]) == 1:
                    add(lhs[1][0])
            if x and x[0] == "mcall" and x[1][0] == "path" and len(x[1][1]) == 1 and x[2] in ("write", "next", "next_back"):
                add(x[1][1][0])
            if x and x[0] == "closure":
                return
            for y in x:
                walk(y)
        elif isinstance(x, list):
            for y in x:
                walk(y)
    walk(node)
    return acc


def has_return(node):
    if isinstance(node, tuple):
        if node and node[0] == "return":
            return True
        if node and node[0] == "closure":
            return False
        return any(has_return(y) for y in node)
    if isinstance(node, list):
        return any(has_return(y) for y in node)
    return False


LEAN_RESERVED = {"end", "from", "at", "fun", "do", "then", "else", "if", "let", "have", "show", "by", "in", "with", "where", "open",
                 "D", "tg", "md", "T", "Type", "Prop", "Sort", "instance", "def", "theorem", "namespace", "section", "variable", "match"}


def lean_name(n):
    return n + "_" if n in LEAN_RESERVED else n


def bind_pattern(pat, ty, ctx):
    """(lean binder text, {name: V})"""
    if isinstance(pat, str):
        if pat == "_":
            return "_", {}
        return lean_name(pat), {pat: V(lean_name(pat), ty)}
    if pat[0] == "ptuple":
        if not (isinstance(ty, tuple) and ty[0] == "tuple" and len(ty[1]) == len(pat[1])):
            ctx.fail("tuple pattern against a non-tuple")
        parts, names = [], {}
        for p, t in zip(pat[1], ty[1]):
            b, n = bind_pattern(p, t, ctx)
            parts.append(b)
            names.update(n)
        return "(" + ", ".join(parts) + ")", names
    ctx.fail("pattern")


def comp_for(e, env, ctx, k):
    pat, it, body = e[1], e[2], e[3]
    if ctx.pure_only:
        raise NotPure()

    def kl(l, env2):
        if not (isinstance(l.ty, tuple) and l.ty[0] == "list"):
            ctx.fail("for over a non-iterator")
        binder, names = bind_pattern(pat, l.ty[1], ctx)
        benv = dict(env2)
        benv.update(names)
        ret = has_return(body)
        st = [n for n in assigned_vars(body, env2) if n not in names]
        if ret and st:
            ctx.fail("for loop that both returns and updates outer variables")
        if ret:
            saved = ctx.ret
            ctx.ret = lambda v: f".ok (some {par(v.t)})"
            b = comp_block(body, benv, ctx, lambda v, env3: ".ok none")
            ctx.ret = saved
            rest = k(V("()", UNIT), env2)
            return f"forRet {par(l.t)} (fun {binder} =>\n{b})\n(fun _ =>\n{rest})"
        if not st:
            ctx.fail("for loop without effect")
        tup = "(" + ", ".join(lean_name(n) for n in st) + ")" if len(st) > 1 else lean_name(st[0])
        for n in st:
            benv[n] = V(lean_name(n), env2[n].ty, 0)
        b = comp_block(body, benv, ctx, lambda v, env3: ".ok " + ("(" + ", ".join(env3[n].t for n in st) + ")" if len(st) > 1 else par(env3[st[0]].t)))
        sty = TUP([env2[n].ty for n in st]) if len(st) > 1 else env2[st[0]].ty
        env4 = dict(env2)
        for n in st:
            env4[n] = V(lean_name(n), env2[n].ty, (env2[n].aux or 0) + 1)
        init = "(" + ", ".join(env2[n].t for n in st) + ")" if len(st) > 1 else env2[st[0]].t
        return f"(forFold {par(l.t)} {init} (fun {tup} {binder} =>\n{b})).bind fun {tup} =>\n{k(V('()', UNIT), env4)}"
    return comp(it, env, ctx, kl)


def comp_loop(e, env, ctx, k):
    """`loop { let r = unsafe { IT.next().unwrap_unchecked() }; … }`"""
    if ctx.pure_only:
        raise NotPure()
    body = e[1]
    stmts = body[1]
    if not stmts or stmts[0][0] != "let" or not isinstance(stmts[0][1], str):
        ctx.fail("loop that does not start by taking the next element of an iterator")
    init = stmts[0][4]
    while init and init[0] == "block" and not init[1] and init[2] is not None:
        init = init[2]
    ok = (init and init[0] == "mcall" and init[2] == "unwrap_unchecked" and init[1][0] == "mcall" and init[1][2] in ("next", "next_back")
          and init[1][1][0] == "path" and len(init[1][1][1]) == 1 and init[1][1][1][0] in env)
    if not ok:
        ctx.fail("loop that does not start with `let r = it.next().unwrap_unchecked()`")
    back = init[1][2] == "next_back"
    itvar = init[1][1][1][0]
    it = env[itvar]
    if not (isinstance(it.ty, tuple) and it.ty[0] == "list"):
        ctx.fail("loop over a non-iterator")
    r = stmts[0][1]
    rest_block = ("block", stmts[1:], body[2])
    st = [n for n in assigned_vars(rest_block, env) if n != itvar]
    tup = "(" + ", ".join(lean_name(n) for n in st) + ")" if len(st) > 1 else (lean_name(st[0]) if st else "_u")
    init_t = "(" + ", ".join(env[n].t for n in st) + ")" if len(st) > 1 else (env[st[0]].t if st else "()")
    benv = dict(env)
    benv[r] = V(lean_name(r), it.ty[1])
    benv[itvar] = V(lean_name(itvar), it.ty, 0)
    for n in st:
        benv[n] = V(lean_name(n), env[n].ty, 0)
    saved = ctx.ret
    rt = {}

    def inner_ret(v):
        if rt.get("ty") in (None, OPT(None)):
            rt["ty"] = v.ty
        return f".ok (.inl {par(v.t)})"
    ctx.ret = inner_ret

    def fall(v, env3):
        if (env3[itvar].aux or 0) != 0:
            ctx.fail("the loop advances its iterator on a path that goes round again")
        cur = "(" + ", ".join(env3[n].t for n in st) + ")" if len(st) > 1 else (env3[st[0]].t if st else "()")
        return f".ok (.inr {cur})"
    b = comp_block(rest_block, benv, ctx, fall)
    ctx.ret = saved
    fn = "loopNextBack" if back else "loopNext"
    # a `loop` never falls through: the value of the whole expression is what `return` gave
    return f"({fn} {par(it.t)} {init_t} (fun {lean_name(r)} {lean_name(itvar)} {tup} =>\n{b})).bind fun v =>\n{saved(V('v', rt.get('ty')))}"


def comp_assign(e, env, ctx, k):
    if ctx.pure_only:
        raise NotPure()
    if e[0] == "assign":
        lhs, rhs = e[1], e[2]
    else:
        lhs, rhs = e[2], ("binary", e[1], e[2], e[3])
    if lhs[0] == "path" and len(lhs[1]) == 1 and lhs[1][0] in env:
        key = lhs[1][0]
        lean = lean_name(key)
    elif lhs[0] == "field" and lhs[1] == ("path", ["self"]) and ("self." + str(lhs[2])) in env:
        key = "self." + lhs[2]
        lean = env[key].t
    else:
        ctx.fail("assignment to something that is not a local variable or a field of self")
    old = env[key]

    def ka(v, env2):
        if not (v.ty == old.ty or (is_int(v.ty) and is_int(old.ty) and v.ty[1] in (None, old.ty[1]))
                or (isinstance(v.ty, tuple) and v.ty[0] == "opt" and old.ty[0] == "opt" and v.ty[1] in (None, old.ty[1]))):
            ctx.fail(f"assignment of a {v.ty} to a variable of type {old.ty}")
        env3 = dict(env2)
        env3[key] = V(lean, old.ty, (old.aux or 0) + 1)
        return f"let {lean} := {v.t}\n{k(V('()', UNIT), env3)}"
    return comp(rhs, env, ctx, ka)


def comp_block(b, env, ctx, k):
    stmts, tail = b[1], b[2]

    def go(i, env2):
        if i == len(stmts):
            if tail is None:
                return k(V("()", UNIT), env2)
            return comp(tail, env2, ctx, k)
        s = stmts[i]
        if s[0] == "use":
            return go(i + 1, env2)
        if s[0] == "let":
            pat, ty, init = s[1], s[3], s[4]
            if init is None:
                ctx.fail("let without initialiser")

            def kl(v, env3):
                vty = v.ty
                if ty is not None:
                    want = as_type(ty[1], ctx)
                    if is_int(want) and is_int(vty) and vty[1] in (None, want[1]):
                        vty = want
                    elif want != vty:
                        ctx.fail("let annotation disagrees with the initialiser")
                binder, names = bind_pattern(pat, vty, ctx)
                env4 = dict(env3)
                env4.update(names)
                if isinstance(pat, str) and v.t == pat:
                    return go(i + 1, env4)
                return f"let {binder} := {v.t}\n{go(i + 1, env4)}"
            return comp(init, env2, ctx, kl)
        if s[0] == "expr":
            return comp(s[1], env2, ctx, lambda v, env3: go(i + 1, env3))
        ctx.fail("statement")
    return go(0, env)


# ------------------------------------------------------------------ walking `generate`
COND = {"derive . mode . is_gapless ( )": ("D.gapless", "gapless", "holes"),
        "derive . mode . is_with_holes ( )": ("!D.gapless", "holes", "gapless")}
MODE_SCRUT = {"asStr": "md.asStr", "fromStrFn": "md.fromStrFn", "fromStrTrait": "md.fromStrTrait", "iter": "md.iter"}
MODE_VARIANTS = {"Auto": "auto", "Match": "«match»", "Table": "table", "Range": "range", "NextAndBack": "nextAndBack",
                 "TableInline": "tableInline"}
LET_PATTERNS = [
    (re.compile(r'^LitInt :: new \( & format ! \( "\{(min_key|max_key)\}\{repr\}" \) , Span :: call_site \( \) \)$'),
     lambda m: ("lit", {"min_key": "minKey", "max_key": "maxKey"}[m.group(1)])),
    (re.compile(r"^derive \. values \. iter \( \) \. map \( \| \( _ , \( v , _ \) \) \| v \)$"), lambda m: ("enums",)),
    (re.compile(r"^LitInt :: new \( & derive \. num_values \. to_string \( \) , Span :: call_site \( \) \)$"),
     lambda m: ("usizelit", "numValues")),
]
DESTRUCTURED_OK = {"repr", "repr_unsigned", "ident_enum", "vis_enum", "num_values", "min_key", "max_key"}


class Walker:
    def __init__(self, src):
        self.src = src
        self.leaves = []      # (flag, [(cond text, tag)], Quote, rel, interp)

    def scan_destructuring(self, toks, rel, interp):
        """`let Derive { a, b, .. } = derive;` / `let Names { .. } = names;` anywhere in a Rust fn"""
        s = text_of(toks)
        for m in re.finditer(r"let (\w+) \{([^{}]*)\} = (\w+) ;", s):
            if (m.group(1), m.group(3)) not in (("Derive", "derive"), ("Names", "names")):
                if m.group(3) == "self":
                    continue
                err(rel, toks[0].line, f"destructuring of `{m.group(3)}` as `{m.group(1)}`")
            for fld in m.group(2).split(","):
                fld = fld.strip()
                if fld and fld != "..":
                    if not re.match(r"^\w+$", fld):
                        err(rel, toks[0].line, f"renaming destructuring `{fld}`")
                    interp[fld] = ("field", m.group(1), fld)

    def walk(self, nodes, rel, flag, path, interp, depth=0):
        interp = dict(interp)
        pending_loop = None
        i = 0
        while i < len(nodes):
            n = nodes[i]
            if isinstance(n, Stmt):
                s = text_of(n.toks)
                m = re.match(r"^let (mut )?(\w+) = (.*) ;$", s)
                if m and not m.group(3).startswith(("quote", "if", "match")):
                    name, rhs = m.group(2), m.group(3)
                    if rhs == "Vec :: new ( )":
                        interp[name] = ("armlist",)
                    else:
                        for rx, mk in LET_PATTERNS:
                            mm = rx.match(rhs)
                            if mm:
                                interp[name] = mk(mm)
                                break
                        else:
                            interp[name] = ("opaque", rhs, n.line)
                m = re.match(r"^for (.*) in & derive \. values$", s)
                if m:
                    if m.group(1) != "( _ , ( v , name ) )":
                        err(rel, n.line, f"loop over derive.values with pattern `{m.group(1)}`")
                    pending_loop = n.line
                m = re.match(r"^let (\w+) = derive \. values \. iter \( \) \. map$", s)
                if (m and i + 2 < len(nodes) and isinstance(nodes[i + 1], Stmt) and isinstance(nodes[i + 2], Quote)
                        and text_of(nodes[i + 1].toks) == "| ( _ , ( v , name ) ) |"):
                    q = nodes[i + 2]
                    toks = q.toks
                    j = next((j for j, t in enumerate(toks) if t.text == "=>"), None)
                    if j is None or toks[-1].text != ",":
                        err(rel, q.line, "mapped template is not a match arm")
                    body = rustexpr.P(toks[j + 1:-1], "src/" + rel).parse_expr()
                    interp[m.group(1)] = ("arms", text_of(toks[:j]), body,
                                          {"v": ("variant", "x.1"), "name": ("name", "x.2.2")})
                    i += 3
                    continue
                m = re.match(r"^(\w+) \. push$", s)
                if m and pending_loop is not None and i + 1 < len(nodes) and isinstance(nodes[i + 1], Quote):
                    q = nodes[i + 1]
                    toks = q.toks
                    j = next((j for j, t in enumerate(toks) if t.text == "=>"), None)
                    if j is None or toks[-1].text != ",":
                        err(rel, q.line, "pushed template is not a match arm")
                    body = rustexpr.P(toks[j + 1:-1], "src/" + rel).parse_expr()
                    interp[m.group(1)] = ("arms", text_of(toks[:j]), body,
                                          {"v": ("variant", "x.1"), "name": ("name", "x.2.2")})
                    i += 2
                    continue
                m = re.search(r"self \. (iter_\w+) \(", s)
                if m and depth < 3:
                    for r2 in self.src.iter_files():
                        found = find_fn(self.src.toks(r2), m.group(1))
                        if found:
                            i2 = {}
                            self.scan_destructuring(found[1], r2, i2)
                            self.walk(parse_block(found[1], r2), r2, flag, path, i2, depth + 1)
                            break
                    else:
                        err(rel, n.line, f"fn {m.group(1)} not found")
            elif isinstance(n, Quote):
                self.leaves.append((flag, list(path), n, rel, dict(interp)))
            elif isinstance(n, If):
                c = text_of(n.cond)
                if c == "! self . enabled":
                    i += 1
                    continue
                if c in COND:
                    lean, tag, ntag = COND[c]
                    self.walk(n.then, rel, flag, path + [(lean, tag)], interp, depth)
                    if n.els:
                        self.walk(n.els, rel, flag, path + [(f"!({lean})" if not lean.startswith("!") else lean[1:], ntag)], interp, depth)
                elif c == "let Mode :: WithHoles { ref value_ranges } = derive . mode":
                    pass   # table_range: macro-time table construction, not a function body
                else:
                    # conditions that select between template variants without function bodies
                    sub = Walker(self.src)
                    sub.walk(n.then, rel, flag, path, interp, depth)
                    sub.walk(n.els, rel, flag, path, interp, depth)
                    for lf in sub.leaves:
                        if rustexpr.parse_fn_items(lf[2].toks, "src/" + rel):
                            err(rel, n.line, f"function template under an untranslated condition `{c}`")
            elif isinstance(n, Match):
                sc = text_of(n.scrut)
                mflag = flag if sc == "self . mode" else ("iter" if sc == "iter_mode" else None)
                if mflag is None:
                    for pat, body in n.arms:
                        self.walk(body, rel, flag, path, interp, depth)
                else:
                    for pat, body in n.arms:
                        ptxt = text_of(pat)
                        if ptxt == "_":
                            if any(isinstance(b, Quote) for b in body):
                                err(rel, n.line, "template in a wildcard arm")
                            continue
                        vs = []
                        for alt in ptxt.split("|"):
                            mm = re.match(r"^\s*\w+ :: (\w+)\s*$", alt)
                            if not mm or mm.group(1) not in MODE_VARIANTS:
                                err(rel, n.line, f"mode pattern `{ptxt}`")
                            vs.append(mm.group(1))
                        cond = " || ".join(f"{MODE_SCRUT[mflag]} == .{MODE_VARIANTS[v]}" for v in vs)
                        tag = "_".join(MODE_VARIANTS[v].strip("«»") for v in vs)
                        self.walk(body, rel, flag, path + [(cond, tag)], interp, depth)
            i += 1


# per template fn: how it is presented in Lean
def fn_signature(flag, impl, name, params, ret, ctx):
    """(base name, [(lean param, lean type)], initial env, result type builder)"""
    env = {}
    lp = []
    state = None
    for p in params:
        if p[0] == "self":
            if impl is None or "for # ident_enum" in impl or impl.endswith("for # ident_enum"):
                env["self"] = V("self", ENUM)
                lp.append(("self", "Int"))
            elif "# ident_iter_struct" in impl:
                state = p[1]
                env["self.fwd"] = V("fwd", OPT(ENUM))
                env["self.bwd"] = V("bwd", OPT(ENUM))
                env["self.len"] = V("len", INT("usize"))
                lp += [("fwd", "Option Int"), ("bwd", "Option Int"), ("len", "Int")]
            else:
                ctx.fail(f"method of `{impl}`")
        else:
            n, ty = p
            if ty.startswith("& mut :: core :: fmt :: Formatter"):
                env[n] = V(n, "formatter")
                continue
            t = TYPE_OF_TEXT.get(ty)
            if t is None:
                ctx.fail(f"parameter `{n}: {ty}`")
            env[n] = V(lean_name(n), t)
            lp.append((lean_name(n), lean_ty(t)))
    return lp, env, state


IMPL_KEY = [
    (r"^:: core :: iter :: Iterator for # ident_iter_struct$", "Iterator"),
    (r"^:: core :: iter :: DoubleEndedIterator for # ident_iter_struct$", "DoubleEnded"),
    (r"^:: core :: iter :: ExactSizeIterator for # ident_iter_struct$", "ExactSize"),
    (r"^:: core :: convert :: TryFrom < # repr > for # ident_enum$", ""),
    (r"^:: core :: str :: FromStr for # ident_enum$", ""),
    (r"^:: core :: convert :: From < # ident_enum > for # repr$", ""),
    (r"^:: core :: convert :: From < # ident_enum > for & 'static str$", ""),
    (r"^:: core :: fmt :: (Debug|Display) for # ident_enum$", ""),
]


def gen_templates(src):
    fields = feature_fields(src)
    w = Walker(src)
    for field in fields:
        rel = src.feature_file(field)
        found = find_fn(src.toks(rel), "generate")
        if not found:
            err(rel, 1, "fn generate not found")
        i0 = {}
        w.scan_destructuring(found[1], rel, i0)
        w.walk(parse_block(found[1], rel), rel, FIELD_FLAG[field], [], i0)
    defs = {}        # base -> [(path, leaf name, text)]
    order = []
    sigs = {}
    n_fns = 0
    for flag, path, q, rel, interp in w.leaves:
        where = f"src/{rel}:{q.line}"
        items = rustexpr.parse_fn_items(q.toks, "src/" + rel)
        for impl, name, params, ret, body, line in items:
            where = f"src/{rel}:{line}"
            key = None
            if impl is not None:
                for rx, kname in IMPL_KEY:
                    if re.match(rx, impl):
                        key = kname
                        break
                else:
                    raise TranslateError(f"{where}: function in an impl the translator does not know: `{impl}`")
            fname = name if isinstance(name, str) else None
            base = flag if not key else f"{flag}_{key}_{fname}"
            if impl is not None and not key:
                base = flag
            if isinstance(name, tuple) and impl is None:
                base = flag
            ctx = Ctx(where, interp, None)
            # opaque macro-time lets may not be interpolated
            lp, env, state = fn_signature(flag, impl, name, params, ret, ctx)
            out = {}

            def final(v, env2, state=state, out=out):
                out["ty"] = v.ty
                if state == "&mut":
                    st = f"IterState.nb {par(env2['self.fwd'].t)} {par(env2['self.bwd'].t)} (Int.toNat {par(env2['self.len'].t)})"
                    return f".ok ({v.t}, {st})"
                return f".ok {par(v.t)}"
            ctx.ret = lambda v, f=final, e=env: f(v, e)
            if flag in ("debug", "display"):
                # `f.write_str(Self::as_str(*self))`: what is written is the translated value
                body_txt, rty = comp_fmt(body, env, ctx)
            else:
                body_txt = comp_block(body, env, ctx, final)
                rty = out.get("ty")
            suffix = "_".join(t for _, t in path)
            leaf = base + ("_" + suffix if suffix else "")
            n_fns += 1
            if base not in defs:
                defs[base] = []
                order.append(base)
            sig = (tuple(lp), state)
            if base in sigs and sigs[base][0] != sig:
                raise TranslateError(f"{where}: branches of `{base}` take different parameters")
            sigs[base] = (sig, rty)
            defs[base].append((path, leaf, body_txt, where, rty, state))
    return render(defs, order, sigs), {"functions": n_fns, "definitions": len(order)}


def comp_fmt(body, env, ctx):
    """`f.write_str(EXPR)`"""
    t = body[2]
    if body[1] and any(s[0] != "use" for s in body[1]):
        ctx.fail("fmt body with statements")
    if not (t and t[0] == "mcall" and t[2] == "write_str" and len(t[3]) == 1 and t[1] == ("path", ["f"])):
        ctx.fail("fmt body is not `f.write_str(..)`")
    out = {}
    txt = comp(t[3][0], env, ctx, lambda v, e: (out.setdefault("ty", v.ty), f".ok {par(v.t)}")[1])
    if out["ty"] != STR:
        ctx.fail("write_str of a non-string")
    return txt, STR


def result_lean_type(rty, state):
    if rty is None:
        raise TranslateError("function whose result type could not be determined")
    if isinstance(rty, tuple) and rty[0] == "opt" and rty[1] is None:
        rty = OPT(ENUM)
    t = lean_ty(rty)
    if state == "&mut":
        return f"Res ({t} × IterState Int)"
    return f"Res {t}"


def indent(txt, n):
    pad = " " * n
    return "\n".join(pad + l for l in txt.split("\n"))


ORDER_FIRST = ["minC", "maxC", "intoFn", "intoTrait", "tryFromFn", "tryFromTrait", "next", "nextBack", "asStr", "debug", "display", "intoStr",
               "fromStrFn", "fromStrTrait", "names", "iter"]


def render(defs, order, sigs):
    L = ["-- GENERATED by /verif/translate/translate_templates.py from the quote! templates of /repo/src/feature/**. Do not edit.",
         "import EnumToolsModel.Rust", "set_option linter.unusedVariables false", "namespace ET.T", "open ET ET.Rust", ""]
    order = sorted(order, key=lambda b: (next((i for i, p in enumerate(ORDER_FIRST) if b == p or b.startswith(p + "_")), 99), b))
    for base in order:
        (lp, state), _ = sigs[base]
        params = "(D : Derive) (tg : Target) (md : Modes)" + "".join(f" ({n} : {ty})" for n, ty in lp)
        leaves = defs[base]
        rtys = {str(x[4]) for x in leaves if not (isinstance(x[4], tuple) and x[4] == ("opt", None))}
        rty = next((x[4] for x in leaves if not (isinstance(x[4], tuple) and x[4][0] == "opt" and x[4][1] is None)), leaves[0][4])
        if len({str(x) for x in rtys}) > 1:
            raise TranslateError(f"branches of `{base}` return different types: {sorted(rtys)}")
        rt = result_lean_type(rty, state)
        for path, leaf, body, where, _, _ in leaves:
            L.append(f"/-- {where} -/")
            L.append(f"def {leaf} {params} : {rt} :=")
            L.append(indent(body, 2))
            L.append("")
        if len(leaves) > 1 or leaves[0][0]:
            L.append(f"def {base} {params} : {rt} :=")
            args = " ".join(n for n, _ in lp)
            txt = ""
            for path, leaf, *_ in leaves:
                cond = " && ".join(f"({c})" for c, _ in path) or "true"
                txt += f"  if {cond} then {leaf} D tg md {args}\n  else"
            txt += " .panic .unreachableConfig"
            L.append(txt)
            L.append("")
    leaves = sorted(leaf for base in order for _, leaf, *_ in defs[base])
    L += ["/-- every function body found in a template (one name per quote! branch): an extra `fn` in an impl — say an override of",
          "`nth`, `last`, `count`, `min` … next to the hand-written `next` / `next_back` — shows up here -/",
          "def translatedFunctions : List String := [" + ", ".join(f'"{x}"' for x in leaves) + "]", ""]
    L += ["end ET.T", ""]
    return "\n".join(L)


if __name__ == "__main__":
    import sys
    from translate import Src
    text, info = gen_templates(Src(sys.argv[1] if len(sys.argv) > 1 else "/repo"))
    open(sys.argv[2] if len(sys.argv) > 2 else "/tmp/tt/Templates.lean", "w").write(text)
    print(info)
