"""Translator: regenerates lean/EnumToolsModel/Generated/*.lean from /repo/src on every run.

  Catalog.lean   <- parser/mod.rs (order of Feature*::parse), every `fn parse` in feature/**
  Resolve.lean   <- generator/features.rs (resolve_enable order, resolve_auto), every `fn check*`
  Uses.lean      <- every `fn generate` / `fn iter_*`: which helper items each quote! branch references
  Docs.lean      <- doc comments of src/lib.rs (documented features, parameters, modes, signatures)
  Inventory.lean <- all quote! templates: classified name occurrences, item headers, visibilities
  HashSites.lean <- all of src/**: HashMap iteration sites and other nondeterminism sources

Anything not recognised raises TranslateError naming file and line: the tie is then broken, never guessed.
"""
import os
import re

from rustlex import (TranslateError, tokenize, find_fn, parse_block, text_of, split_top, If, Match, Quote, Stmt,
                     match_close)

FIELD_FLAG = {
    "as_str_fn": "asStr", "debug_trait": "debug", "display_trait": "display", "from_str_fn": "fromStrFn",
    "from_str_trait": "fromStrTrait", "into_fn": "intoFn", "into_str_trait": "intoStr", "into_trait": "intoTrait",
    "iter": "iter", "max_const": "maxC", "min_const": "minC", "names": "names", "next_back_fn": "nextBack",
    "next_fn": "next", "range_fn": "range", "table_enum": "tableEnum", "table_name": "tableName",
    "table_range": "tableRange", "try_from_fn": "tryFromFn", "try_from_trait": "tryFromTrait",
}
MODE_VARIANT = {"Auto": "auto", "Match": "«match»", "Table": "table", "Range": "range", "NextAndBack": "nextAndBack",
                "TableInline": "tableInline"}
MODE_FIELD = {"asStr": "asStr", "fromStrFn": "fromStrFn", "fromStrTrait": "fromStrTrait", "iter": "iter"}
IDENT_FLAG_SUFFIX = {"min": "minC", "max": "maxC", "table_name": "tableName", "table_enum": "tableEnum",
                     "table_range": "tableRange"}


class Src:
    def __init__(self, repo):
        self.repo = repo
        self.cache = {}

    def path(self, rel):
        return os.path.join(self.repo, "src", rel)

    def raw_toks(self, rel):
        p = self.path(rel)
        if not os.path.exists(p):
            raise TranslateError(f"src/{rel}: file not found")
        return tokenize(open(p).read(), "src/" + rel)

    def toks(self, rel):
        """tokens of a source file, with the fields of `generator::names::Names` renamed to canonical names:
        what an `ident_*` interpolation denotes is read from generator/names.rs, not from how the field is spelt"""
        if rel not in self.cache:
            self.cache[rel] = self.inline_fragments(self.inline_conditional_fragments(self.inline_helpers(self.renamed_toks(rel), rel), rel), rel)
        return self.cache[rel]

    def renamed_toks(self, rel):
        ren = self.names_rename()
        ts = self.raw_toks(rel)
        for t in ts:
            if t.kind == "ident" and t.text in ren:
                t.text = ren[t.text]
        return ts

    # ---- macro-time helper functions that return a piece of template
    NOT_HELPERS = {"generate", "parse", "check", "new"}

    def helper_fns(self):
        """{name: (file, [(param, type text)], body tokens)} of every fn under src/feature and src/generator that returns a
        `TokenStream`, is not an entry point, and whose body is destructuring `let`s followed by a single `quote!`"""
        if getattr(self, "_helpers", None) is not None:
            return self._helpers
        self._helpers = {}
        rels = []
        for dp, _, fns in sorted(os.walk(self.path("feature"))):
            rels += [os.path.relpath(os.path.join(dp, f), self.path("")) for f in sorted(fns) if f.endswith(".rs")]
        for rel in rels:
            ts = self.renamed_toks(rel)
            i = 0
            while i < len(ts) - 2:
                if ts[i].text == "fn" and ts[i + 1].kind == "ident" and (i == 0 or ts[i - 1].text != "#"):
                    name = ts[i + 1].text
                    j = i + 2
                    if ts[j].text == "<":       # lifetimes / generics
                        d = 0
                        while True:
                            d += (ts[j].text == "<") - (ts[j].text == ">")
                            j += 1
                            if d == 0:
                                break
                    if ts[j].text != "(":
                        i += 1
                        continue
                    pe = match_close(ts, j)
                    k = pe + 1
                    ret = []
                    while ts[k].text not in ("{", ";"):
                        ret.append(ts[k].text)
                        k += 1
                    if ts[k].text == "{":
                        be = match_close(ts, k)
                        body = ts[k + 1:be]
                        txt = text_of(body)
                        is_ts = " ".join(ret) in ("-> TokenStream", "-> proc_macro2 :: TokenStream")
                        qpos = [x for x in range(len(body) - 1) if body[x].text == "quote" and body[x + 1].text == "!"]
                        outside = text_of(body[:qpos[0]]) if len(qpos) == 1 else ""
                        tail_ok = len(qpos) == 1 and match_close(body, qpos[0] + 2) == len(body) - 1
                        if (is_ts and name not in self.NOT_HELPERS and not name.startswith("iter_") and tail_ok
                                and not re.search(r"\b(if|match|for|while|loop|return)\b", outside)):
                            params = []
                            for part in split_top(ts[j + 1:pe], ","):
                                if part and part[0].kind == "ident" and len(part) > 2 and part[1].text == ":":
                                    params.append((part[0].text, text_of(part[2:])))
                                elif part and text_of(part) not in ("& self", "self"):
                                    params = None
                                    break
                            if params is not None:
                                self._helpers[name] = (rel, params, body, (i, be))
                        i = be + 1
                        continue
                i += 1
        return self._helpers

    def inline_helpers(self, ts, rel):
        """replace a call of a template helper by a block holding its body (a `quote!` argument is substituted for the
        parameter it is bound to), and drop the helper's own definition from the file"""
        helpers = self.helper_fns()
        if not helpers:
            return ts
        import copy
        # drop definitions located in this file (walk back over attributes / doc / visibility in front of `fn`)
        drops = sorted((span for name, (r, _, _, span) in helpers.items() if r == rel), reverse=True)
        for a, b in drops:
            while a > 0 and ts[a - 1].text in ("pub", ")", "crate", "(", "super") :
                a -= 1
            ts = ts[:a] + ts[b + 1:]
        out = []
        i = 0
        n = len(ts)
        while i < n:
            t = ts[i]
            if t.kind == "ident" and t.text in helpers and i + 1 < n and ts[i + 1].text == "(" and (i == 0 or ts[i - 1].text != "fn"):
                _, params, body, _ = helpers[t.text]
                e = match_close(ts, i + 1)
                args = [a for a in split_top(ts[i + 2:e], ",") if a]
                if len(args) != len(params):
                    raise TranslateError(f"src/{rel}:{t.line}: call of template helper `{t.text}` with {len(args)} arguments")
                subst = {}
                for (pn, pty), a in zip(params, args):
                    at = text_of(a)
                    if at in (pn, "& " + pn, "self", "& self"):
                        continue
                    if len(a) > 3 and a[0].text == "quote" and a[1].text == "!" and match_close(a, 2) == len(a) - 1:
                        subst[pn] = a[3:-1]
                        continue
                    if at.replace("& ", "").replace("self . ", "") == pn:
                        continue
                    raise TranslateError(f"src/{rel}:{t.line}: argument `{at}` of template helper `{t.text}` (parameter `{pn}`)")
                b2 = []
                k = 0
                while k < len(body):
                    if body[k].text == "#" and k + 1 < len(body) and body[k + 1].text in subst:
                        b2 += copy.deepcopy(subst[body[k + 1].text])
                        k += 2
                    else:
                        b2.append(copy.copy(body[k]))
                        k += 1
                # remove a path in front of the call (`Self::`, `crate::feature::x::`)
                while len(out) >= 2 and out[-1].text == "::" and out[-2].kind == "ident":
                    out = out[:-2]
                from rustlex import Tok
                out += [Tok("punct", "{", t.line)] + b2 + [Tok("punct", "}", t.line)]
                i = e + 1
                continue
            out.append(t)
            i += 1
        return out

    def inline_conditional_fragments(self, ts, rel):
        """`let X = if C { quote!{A} } else { quote!{B} };` with `#X` spliced into a later `quote!{Q}` of the same block:
        rewrite that later template as `if C { quote!{Q[A/X]} } else { quote!{Q[B/X]} }` (C is a plain name or field: no side effect)"""
        import copy
        from rustlex import Tok
        for _ in range(4):
            n = len(ts)
            hit = None
            for i in range(n - 6):
                if not (ts[i].text == "let" and ts[i + 1].kind == "ident" and ts[i + 2].text == "=" and ts[i + 3].text == "if"):
                    continue
                j = i + 4
                while j < n and ts[j].text != "{":
                    j += 1
                cond = ts[i + 4:j]
                if not cond or not all(t.kind == "ident" or t.text in (".", "!") for t in cond):
                    continue
                e1 = match_close(ts, j)
                if not (ts[j + 1].text == "quote" and ts[j + 2].text == "!" and match_close(ts, j + 3) == e1 - 1):
                    continue
                if not (e1 + 2 < n and ts[e1 + 1].text == "else" and ts[e1 + 2].text == "{"):
                    continue
                e2 = match_close(ts, e1 + 2)
                if not (ts[e1 + 3].text == "quote" and ts[e1 + 4].text == "!" and match_close(ts, e1 + 5) == e2 - 1 and ts[e2 + 1].text == ";"):
                    continue
                a_body, b_body = ts[j + 4:e1 - 1], ts[e1 + 6:e2 - 1]
                name = ts[i + 1].text
                # the first later quote! of the same block that splices #name
                depth, k, target = 0, e2 + 2, None
                while k < n:
                    x = ts[k].text
                    if x == "quote" and k + 2 < n and ts[k + 1].text == "!":
                        qe = match_close(ts, k + 2)
                        if any(ts[u].text == "#" and ts[u + 1].text == name for u in range(k + 3, qe - 1)):
                            target = (k, qe)
                            break
                        k = qe + 1
                        continue
                    depth += (x in ("{", "(", "[")) - (x in ("}", ")", "]"))
                    if depth < 0:
                        break
                    k += 1
                if target:
                    hit = (i, e2 + 1, cond, a_body, b_body, name, target)
                    break
            if not hit:
                return ts
            i, stmt_end, cond, a_body, b_body, name, (qs, qe) = hit

            def subst(body):
                out, u = [], qs + 3
                while u < qe:
                    if ts[u].text == "#" and ts[u + 1].text == name:
                        out += [copy.copy(x) for x in body]
                        u += 2
                    else:
                        out.append(copy.copy(ts[u]))
                        u += 1
                return out
            ln = ts[qs].line
            T = lambda kind, text: Tok(kind, text, ln)
            q = lambda body: [T("ident", "quote"), T("punct", "!"), T("punct", "{")] + body + [T("punct", "}")]
            repl = ([T("ident", "if")] + [copy.copy(x) for x in cond] + [T("punct", "{")] + q(subst(a_body)) + [T("punct", "}"), T("ident", "else"), T("punct", "{")]
                    + q(subst(b_body)) + [T("punct", "}")])
            ts = ts[:i] + ts[stmt_end + 1:qs] + repl + ts[qe + 1:]
        return ts

    def inline_fragments(self, ts, rel):
        """`let X = quote!{F};` (or a block ending in one) whose `#X` is spliced into later templates of the same function:
        put F where `#X` stands and empty the fragment's own `quote!`"""
        import copy
        n = len(ts)
        i = 0
        edits = []
        while i < n - 4:
            if ts[i].text == "let" and ts[i + 1].kind == "ident" and ts[i + 2].text == "=":
                name = ts[i + 1].text
                j = i + 3
                frag = None
                stmt_end = None
                if ts[j].text == "quote" and ts[j + 1].text == "!":
                    e = match_close(ts, j + 2)
                    if e + 1 < n and ts[e + 1].text == ";":
                        frag = (j + 2, e)
                        stmt_end = e + 1
                elif ts[j].text == "{":
                    e = match_close(ts, j)
                    # block whose last expression is a quote!
                    q = [k for k in range(j, e) if ts[k].text == "quote" and ts[k + 1].text == "!"]
                    if len(q) == 1 and match_close(ts, q[0] + 2) == e - 1 and e + 1 < n and ts[e + 1].text == ";":
                        frag = (q[0] + 2, e - 1)
                        stmt_end = e + 1
                if frag:
                    # to the end of the enclosing block: scan forward tracking depth
                    depth = 0
                    k = stmt_end + 1
                    uses = []
                    while k < n:
                        x = ts[k].text
                        depth += (x in ("{", "(", "[")) - (x in ("}", ")", "]"))
                        if depth < 0:
                            break
                        if x == "#" and k + 1 < n and ts[k + 1].text == name and not (k >= 2 and ts[k - 1].text == "(" and ts[k - 2].text == "#"):
                            uses.append(k)
                        k += 1
                    if uses:
                        edits.append((frag, uses))
            i += 1
        if not edits:
            return ts
        if len(edits) > 8:
            raise TranslateError(f"src/{rel}: too many template fragments")
        # apply from the back so that indices stay valid
        ops = []
        for (a, b), uses in edits:
            body = ts[a + 1:b]
            for u in uses:
                ops.append((u, u + 2, body))
            ops.append((a + 1, b, []))
        ops.sort(key=lambda o: o[0], reverse=True)
        for a, b, body in ops:
            ts = ts[:a] + [copy.copy(x) for x in body] + ts[b:]
        return ts

    # (feature field of `Features`, kind) -> the name the rest of the translator uses for it
    CANON = {("as_str_fn", "name"): "ident_as_str", ("from_str_fn", "name"): "ident_from_str_fn", ("iter", "name"): "ident_iter_fn",
             ("iter", "struct_name"): "ident_iter_struct", ("max_const", "name"): "ident_max", ("min_const", "name"): "ident_min",
             ("names", "name"): "ident_names_fn", ("names", "struct_name"): "ident_names_struct", ("next_fn", "name"): "ident_next",
             ("next_back_fn", "name"): "ident_next_back", ("range_fn", "name"): "ident_range_fn", ("into_fn", "name"): "ident_to_fn",
             ("try_from_fn", "name"): "ident_try_from_fn", ("__ENUM", "lit"): "ident_table_enum", ("__NAME", "lit"): "ident_table_name",
             ("__RANGES", "lit"): "ident_table_range"}

    def names_rename(self):
        if getattr(self, "_rename", None) is not None:
            return self._rename
        self._rename = {}
        rel = "generator/names.rs"
        ts = self.raw_toks(rel)
        # the struct literal `Self { field: expr, … }` of `Names::new`
        roles = {}
        i = next((k for k in range(len(ts) - 3) if ts[k].text == "Self" and ts[k + 1].text == "{" and ts[k + 2].kind == "ident"
                  and ts[k + 3].text == ":"), None)
        if i is None:
            raise TranslateError(f"src/{rel}: `Names::new` does not build `Self {{ .. }}`")
        e = match_close(ts, i + 1)
        for part in split_top(ts[i + 2:e], ","):
            if len(part) < 3 or part[1].text != ":":
                raise TranslateError(f"src/{rel}:{part[0].line if part else 0}: field initialiser not of the form `name: expr`")
            field, expr = part[0].text, text_of(part[2:])
            m = re.findall(r"features \. (\w+) \. (name|struct_name)", expr)
            lits = re.findall(r'"(__\w+)"', expr)
            if len(set(m)) == 1 and not lits:
                role = m[0]
            elif len(lits) == 1 and not m:
                role = (lits[0], "lit")
            else:
                raise TranslateError(f"src/{rel}:{part[0].line}: cannot tell which item `{field}` names (`{expr[:80]}`)")
            if role not in self.CANON:
                raise TranslateError(f"src/{rel}:{part[0].line}: `{field}` names an item the model does not know ({role})")
            if role in roles:
                raise TranslateError(f"src/{rel}:{part[0].line}: two fields name the same item {role}")
            if role[1] == "struct_name":
                sfx = {"iter": "Iter", "names": "Names"}[role[0]]
                if f'Iter"' not in text_of(ts) or f'Names"' not in text_of(ts) or f'{sfx}"' not in expr:
                    raise TranslateError(f"src/{rel}:{part[0].line}: default struct name of `{field}` is no longer EnumName+{sfx}")
            roles[role] = field
        missing = [r for r in self.CANON if r not in roles]
        if missing:
            raise TranslateError(f"src/{rel}: no field of `Names` for {missing}")
        ren = {actual: self.CANON[role] for role, actual in roles.items() if actual != self.CANON[role]}
        clash = set(ren.values()) & set(roles.values()) - set(ren)
        if clash:
            raise TranslateError(f"src/{rel}: field names {sorted(clash)} are used for other items than usual")
        self._rename = ren
        return ren

    def feature_file(self, field):
        for rel in (f"feature/{field}.rs", f"feature/{field}/mod.rs"):
            if os.path.exists(self.path(rel)):
                return rel
        raise TranslateError(f"no source file for feature field `{field}`")

    def iter_files(self):
        d = self.path("feature/iter")
        return sorted("feature/iter/" + f for f in os.listdir(d) if f.endswith(".rs"))


def err(rel, line, msg):
    raise TranslateError(f"src/{rel}:{line}: {msg}")


# ------------------------------------------------------------------ feature list

def feature_fields(src):
    """fields of `struct Features` in declaration order"""
    toks = src.toks("generator/features.rs")
    for i, t in enumerate(toks):
        if t.text == "struct" and toks[i + 1].text == "Features" and toks[i + 2].text == "{":
            e = match_close(toks, i + 2)
            fields = []
            for part in split_top(toks[i + 3:e], ","):
                names = [x for x in part if x.kind == "ident" and x.text not in ("pub", "crate")]
                if names:
                    fields.append(names[0].text)
            for f in fields:
                if f not in FIELD_FLAG:
                    err("generator/features.rs", t.line, f"unknown feature field `{f}` (the model has no flag for it)")
            return fields
    err("generator/features.rs", 1, "struct Features not found")


# ------------------------------------------------------------------ conditions

def parse_cond(toks, rel, own_flag):
    """a condition of the propagation code -> list of ('atom', lean) / ('flagnot', flag) ; None if unsupported"""
    s = text_of(toks)
    parts = [p.strip() for p in s.split("&&")]
    out = []
    for p in parts:
        p = p.strip()
        if p.startswith("(") and p.endswith(")"):
            p = p[1:-1].strip()
        if p == "derive . mode . is_gapless ( )":
            out.append(("atom", ".gapless", ".holes"))
        elif p == "derive . mode . is_with_holes ( )":
            out.append(("atom", ".holes", ".gapless"))
        elif re.fullmatch(r"let Mode :: WithHoles \{ .* \} = derive . mode", p):
            out.append(("atom", ".holes", ".gapless"))
        elif re.fullmatch(r"self . mode == (\w+) :: (\w+)", p):
            m = re.fullmatch(r"self . mode == (\w+) :: (\w+)", p)
            out.append(("atom", mode_atom(own_flag, [m.group(2)], rel, toks[0].line), None))
        elif re.fullmatch(r"! features . (\w+) . enabled", p):
            m = re.fullmatch(r"! features . (\w+) . enabled", p)
            out.append(("flagnot", FIELD_FLAG[m.group(1)], None))
        elif p == "! self . enabled":
            out.append(("self-disabled", None, None))
        elif p == "self . enabled":
            out.append(("self-enabled", None, None))
        else:
            return None
    return out


def mode_atom(flag, variants, rel, line):
    vs = []
    for v in variants:
        if v not in MODE_VARIANT:
            err(rel, line, f"unknown mode variant `{v}`")
        vs.append("." + MODE_VARIANT[v])
    if flag == "iter":
        return f".iterIn [{', '.join(vs)}]"
    if flag not in MODE_FIELD:
        err(rel, line, f"mode test in a feature without modes ({flag})")
    if len(vs) != 1:
        err(rel, line, "alternative patterns on a three-valued mode")
    return f".{flag}Is {vs[0]}"


def arm_variants(pat, rel, line):
    s = text_of(pat)
    if s.strip() == "_":
        return None
    out = []
    for alt in s.split("|"):
        m = re.fullmatch(r"\s*(\w+) :: (\w+)\s*", alt)
        if not m:
            err(rel, line, f"unsupported match pattern `{s}`")
        out.append(m.group(2))
    return out


ABORT_ERR = [("requires the feature iter to be enabled", ".rangeNeedsIter"), ("table_inline", ".rangeTableInline"),
             ("only valid when the enum is gapless", ".iterRangeHoles")]


def abort_err(toks):
    s = text_of(toks)
    for key, e in ABORT_ERR:
        if key in s:
            return e
    return ".invalidMode"


# ------------------------------------------------------------------ Resolve

def extract_check(src, field, fn_name="check", rel=None, own_flag=None, path=None, rules=None, aborts=None, depth=0):
    rel = rel or src.feature_file(field)
    own_flag = own_flag or FIELD_FLAG[field]
    found = find_fn(src.toks(rel), fn_name)
    if found is None and fn_name != "check":
        for r2 in src.iter_files():
            found = find_fn(src.toks(r2), fn_name)
            if found:
                rel = r2
                break
    if found is None:
        err(rel, 1, f"fn {fn_name} not found")
    _, body = found
    nodes = parse_block(body, rel)
    walk_check(src, nodes, rel, own_flag, path or [], rules, aborts, depth)


def walk_check(src, nodes, rel, own, path, rules, aborts, depth):
    for n in nodes:
        if isinstance(n, Stmt):
            s = text_of(n.toks)
            m = re.fullmatch(r"features . (\w+) . enabled = true ;", s)
            if m:
                rules.append((own, list(path), FIELD_FLAG[m.group(1)])); continue
            if s == "features . table_range . with_offset = true ;":
                rules.append((own, list(path), "tableRangeOfs")); continue
            if s in ("return ;", "}", ";") or s.startswith("return"):
                continue
            if s.startswith("abort !"):
                flagnot = [p for p in path if p[0] == "flagnot"]
                aborts.append((own, [p for p in path if p[0] == "atom"], flagnot[0][1] if flagnot else None, abort_err(n.toks)))
                continue
            m = re.fullmatch(r"features . (\w+) . (\w+) \( \) ;", s)
            if m and m.group(1) in FIELD_FLAG:
                for fl in feature_method_effects(src, m.group(1), m.group(2), rel, n.line):
                    rules.append((own, list(path), fl))
                continue
            m = re.fullmatch(r"self . (check_\w+) \((.*)\)( ;| ,)?", s)
            if m:
                if depth > 3:
                    err(rel, n.line, "check recursion too deep")
                extract_check(src, None, m.group(1), rel, own, path, rules, aborts, depth + 1)
                continue
            err(rel, n.line, f"unrecognised statement in check: `{s}`")
        elif isinstance(n, If):
            c = parse_cond(n.cond, rel, own)
            if c is None:
                err(rel, n.line, f"unrecognised condition `{text_of(n.cond)}`")
            if c == [("self-disabled", None, None)]:
                continue
            if any(x[0] == "self-disabled" for x in c):
                err(rel, n.line, "`!self.enabled` inside a conjunction")
            if any(x[0] == "self-enabled" for x in c):
                # `if self.enabled [&& …] { BODY }`: every rule is about an enabled source anyway; nothing may hang on the else side
                if n.els:
                    err(rel, n.line, "else-branch of a test of self.enabled")
                c = [x for x in c if x[0] != "self-enabled"]
            walk_check(src, n.then, rel, own, path + [x for x in c], rules, aborts, depth)
            if n.els:
                if len(c) != 1 or c[0][2] is None:
                    err(rel, n.line, "else-branch of a condition that has no modelled negation")
                walk_check(src, n.els, rel, own, path + [("atom", c[0][2], c[0][1])], rules, aborts, depth)
        elif isinstance(n, Match):
            sc = text_of(n.scrut)
            if sc == "self . mode":
                mflag = own
            elif re.fullmatch(r"features . (\w+) . mode", sc):
                mflag = FIELD_FLAG[re.fullmatch(r"features . (\w+) . mode", sc).group(1)]
            else:
                err(rel, n.line, f"unrecognised match scrutinee `{sc}`")
            for pat, body in n.arms:
                vs = arm_variants(pat, rel, n.line)
                if vs is None:
                    err(rel, n.line, "wildcard arm in a propagation match")
                walk_check(src, body, rel, own, path + [("atom", mode_atom(mflag, vs, rel, n.line), None)], rules, aborts, depth)
        elif isinstance(n, Quote):
            err(rel, n.line, "quote! inside check")


def feature_method_effects(src, field, method, rel, line, depth=0):
    """flags that `features.<field>.<method>()` sets: the method may only assign `true` to fields of its own feature"""
    if depth > 3:
        err(rel, line, "feature helper methods nest too deeply")
    frel = src.feature_file(field)
    found = find_fn(src.toks(frel), method)
    if not found:
        err(rel, line, f"method `{method}` of feature `{field}` not found")
    if text_of(found[0]).replace(" ", "") not in ("&mutself",):
        err(rel, line, f"helper method `{method}` takes arguments")
    out = []
    for st in [x for x in text_of(found[1]).split(";") if x.strip()]:
        st = st.strip()
        if st == "self . enabled = true":
            out.append(FIELD_FLAG[field])
        elif st == "self . with_offset = true" and field == "table_range":
            out.append("tableRangeOfs")
        else:
            m = re.fullmatch(r"self . (\w+) \( \)", st)
            if not m:
                err(frel, found[1][0].line, f"helper method `{method}` does something other than enabling its feature: `{st}`")
            out += feature_method_effects(src, field, m.group(1), rel, line, depth + 1)
    return out


def resolve_order(src):
    """fields in the order `resolve_enable` calls their check()"""
    toks = src.toks("generator/features.rs")
    found = find_fn(toks, "resolve_enable")
    if not found:
        err("generator/features.rs", 1, "fn resolve_enable not found")
    _, body = found
    order = []
    for i, t in enumerate(body):
        if t.text == "check" and body[i - 1].text == "." and body[i + 1].text == "(":
            order.append(body[i - 2].text)
    for f in order:
        if f not in FIELD_FLAG:
            err("generator/features.rs", body[0].line, f"check() on unknown field `{f}`")
    return order


def fmt_guard(path):
    return "[" + ", ".join(p[1] for p in path if p[0] == "atom") + "]"


# ---- resolve_auto: a syntax-directed translation of a small imperative subset into Lean

def tr_expr(toks, rel, lets):
    """boolean / arithmetic expression over self.<f>.enabled, self.<f>.mode, derive.*, let-bound names"""
    s = text_of(toks)
    s = re.sub(r"derive . mode . is_gapless \( \)", "sh.gapless", s)
    s = re.sub(r"derive . mode . is_with_holes \( \)", "(!sh.gapless)", s)
    s = re.sub(r"derive . num_values", "sh.numValues", s)
    s = re.sub(r"derive . repr_size_guessed", "sh.sizeGuess", s)

    def en(m):
        return f"fl.contains .{FIELD_FLAG[m.group(1)]}"
    s = re.sub(r"self . (\w+) . enabled", en, s)

    def md(m):
        f = FIELD_FLAG[m.group(1)]
        if f not in MODE_FIELD:
            err(rel, toks[0].line, f"mode of `{m.group(1)}`")
        return f"m.{MODE_FIELD[f]}"
    s = re.sub(r"self . (\w+) . mode", md, s)

    s = re.sub(r"usize :: from \( (\w+) \)", r"(if \1 then 1 else 0)", s)

    def var(m):
        return "." + MODE_VARIANT[m.group(2)] if m.group(2) in MODE_VARIANT else m.group(0)
    s = re.sub(r"(\w+) :: (\w+)", var, s)
    s = s.replace("! ", "!")
    leftover = re.findall(r"[A-Za-z_][A-Za-z0-9_.]*", s)
    for w in leftover:
        base = w.split(".")[0]
        if base in ("fl", "m", "sh", "contains", "if", "then", "else") or w.startswith(".") or base in lets or w in MODE_VARIANT.values():
            continue
        if re.fullmatch(r"\d+", w):
            continue
        if w in ("auto", "table", "range", "nextAndBack", "tableInline", "match", "asStr", "fromStrFn", "fromStrTrait", "iter",
                 "numValues", "sizeGuess", "gapless") or w in FIELD_FLAG.values():
            continue
        err(rel, toks[0].line, f"unrecognised name `{w}` in expression `{text_of(toks)}`")
    return s


def tr_count_idiom(toks, rel, lets):
    """`[a, b, c].into_iter().filter(|b| *b).count() > 1`"""
    s = text_of(toks)
    m = re.fullmatch(r"\[ (.*) \] . into_iter \( \) . filter \( \| b \| \* b \) . count \( \) > (\d+)", s)
    if not m:
        return None
    inner_start = 1
    e = match_close(toks, 0)
    elems = split_top(toks[1:e], ",")
    exprs = [tr_expr(x, rel, lets) for x in elems if x]
    return f"([{', '.join(exprs)}].filter id).length > {m.group(2)}"


def assigned(nodes):
    """which of the two state variables (fl, m) a block assigns"""
    out = set()
    for n in nodes:
        if isinstance(n, Stmt):
            s = text_of(n.toks)
            if re.fullmatch(r"self . (\w+) . enabled = true ;", s):
                out.add("fl")
            elif re.fullmatch(r"self . (\w+) . mode = (\w+) :: (\w+) ;", s):
                out.add("m")
        elif isinstance(n, If):
            out |= assigned(n.then) | assigned(n.els)
    return out


def tr_value(nodes, var, rel, lets):
    """the value of state variable `var` after executing the block (an expression over the current fl / m)"""
    steps = []
    for n in nodes:
        if isinstance(n, Stmt):
            s = text_of(n.toks)
            m = re.fullmatch(r"self . (\w+) . enabled = true ;", s)
            if m:
                f = FIELD_FLAG[m.group(1)]
                steps.append(f"(if fl.contains .{f} then fl else fl ++ [.{f}])"); continue
            m = re.fullmatch(r"self . (\w+) . mode = (\w+) :: (\w+) ;", s)
            if m:
                f = FIELD_FLAG[m.group(1)]
                steps.append(f"{{ m with {MODE_FIELD[f]} := .{MODE_VARIANT[m.group(3)]} }}"); continue
            err(rel, n.line, f"unrecognised statement in resolve_auto: `{s}`")
        elif isinstance(n, If):
            c = tr_count_idiom(n.cond, rel, lets) or tr_expr(n.cond, rel, lets)
            t = tr_value(n.then, var, rel, lets)
            e = tr_value(n.els, var, rel, lets) if n.els else var
            steps.append(f"(if {c} then {t} else {e})")
        else:
            err(rel, n.line, "unsupported construct in resolve_auto")
    if not steps:
        return var
    if len(steps) == 1:
        return steps[0]
    return "(" + " ".join(f"let {var} := {st};" for st in steps) + f" {var})"


def mode_fields_assigned(nodes):
    out = set()
    for n in nodes:
        if isinstance(n, Stmt):
            m = re.fullmatch(r"self . (\w+) . mode = (\w+) :: (\w+) ;", text_of(n.toks))
            if m:
                out.add(MODE_FIELD[FIELD_FLAG[m.group(1)]])
        elif isinstance(n, If):
            out |= mode_fields_assigned(n.then) | mode_fields_assigned(n.els)
    return out


def tr_field_value(nodes, field, rel, lets):
    """value of mode field `field` after the block, as an expression over the ORIGINAL modes `m`.
    Sound because (checked) the conditions on the way read no mode field other than `field` itself."""
    if not nodes:
        return f"m.{field}"
    if len(nodes) != 1:
        err(rel, nodes[0].line, "several statements assign one mode in sequence")
    n = nodes[0]
    if isinstance(n, Stmt):
        m = re.fullmatch(r"self . (\w+) . mode = (\w+) :: (\w+) ;", text_of(n.toks))
        if not m:
            err(rel, n.line, "unrecognised statement in resolve_auto")
        return "." + MODE_VARIANT[m.group(3)]
    if isinstance(n, If):
        c = tr_expr(n.cond, rel, lets)
        reads = set(re.findall(r"\bm\.(\w+)", c))
        for w in re.findall(r"[A-Za-z_]\w*", c):
            reads |= LET_MODE_READS.get(w, set())
        for other in reads:
            if other != field:
                err(rel, n.line, f"the choice of `{field}` reads another feature's mode (`{other}`)")
        return f"(if {c} then {tr_field_value(n.then, field, rel, lets)} else {tr_field_value(n.els, field, rel, lets)})"
    err(rel, n.line, "unsupported construct in resolve_auto")


LET_MODE_READS = {}     # let-bound name -> mode fields its definition reads (transitively)


def push_assign_into_if(nodes):
    """`self.X.mode = if c { A } else { B };`  ==>  `if c { self.X.mode = A; } else { self.X.mode = B; }`"""
    from rustlex import Tok

    def rewrite(branch, lhs, semi):
        if len(branch) == 1 and isinstance(branch[0], Stmt) and re.fullmatch(r"\w+ :: \w+", text_of(branch[0].toks)):
            return [Stmt(lhs + branch[0].toks + [semi], branch[0].line)]
        if len(branch) == 1 and isinstance(branch[0], If):
            n = branch[0]
            return [If(n.cond, rewrite(n.then, lhs, semi), rewrite(n.els, lhs, semi), n.line)]
        raise TranslateError(f"line {branch[0].line if branch else 0}: branch of an assigned if-expression is not a mode value")
    out = []
    i = 0
    while i < len(nodes):
        n = nodes[i]
        if (isinstance(n, Stmt) and re.fullmatch(r"self \. \w+ \. mode =", text_of(n.toks)) and i + 2 < len(nodes)
                and isinstance(nodes[i + 1], If) and isinstance(nodes[i + 2], Stmt) and text_of(nodes[i + 2].toks) == ";"):
            f = nodes[i + 1]
            semi = nodes[i + 2].toks[0]
            out.append(If(f.cond, rewrite(f.then, n.toks, semi), rewrite(f.els, n.toks, semi), f.line))
            i += 3
            continue
        if isinstance(n, If):
            n = If(n.cond, push_assign_into_if(n.then), push_assign_into_if(n.els), n.line)
        out.append(n)
        i += 1
    return out


def flags_set_in(nodes):
    out = set()
    for n in nodes:
        if isinstance(n, Stmt):
            m = re.fullmatch(r"self . (\w+) . enabled = true ;", text_of(n.toks))
            if m:
                out.add(FIELD_FLAG[m.group(1)])
        elif isinstance(n, If):
            out |= flags_set_in(n.then) | flags_set_in(n.els)
    return out


def tr_block(nodes, rel, lets, indent):
    """top level of resolve_auto: `let fl := …`, `let name := …`, and one expression per mode field"""
    pad = "  " * indent
    out = []
    fields = {}
    nodes = push_assign_into_if(nodes)
    LET_MODE_READS.clear()
    for idx, n in enumerate(nodes):
        if isinstance(n, Stmt):
            s = text_of(n.toks)
            m = re.fullmatch(r"let (\w+) = (.*) ;", s)
            if m:
                lets.add(m.group(1))
                ex = tr_expr(n.toks[3:-1], rel, lets)
                # `autoModes` evaluates every `let` over the flags as they are at the end: a `let` must not read a flag set later
                later = flags_set_in(nodes[idx + 1:])
                for fl_read in re.findall(r"fl\.contains \.(\w+)", ex):
                    if fl_read in later:
                        err(rel, n.line, f"`{m.group(1)}` reads the flag `{fl_read}` before resolve_auto sets it")
                rd = set(re.findall(r"\bm\.(\w+)", ex))
                for w in re.findall(r"[A-Za-z_]\w*", ex):
                    rd |= LET_MODE_READS.get(w, set())
                LET_MODE_READS[m.group(1)] = rd
                out.append(f"{pad}let {m.group(1)} := {ex}"); continue
            if assigned([n]) == {"fl"}:
                if fields:
                    err(rel, n.line, "a flag is set after a mode was chosen")
                out.append(f"{pad}let fl := {tr_value([n], 'fl', rel, lets)}"); continue
            err(rel, n.line, f"unrecognised statement in resolve_auto: `{s}`")
        elif isinstance(n, If):
            a = assigned([n])
            if a == {"fl"}:
                if fields:
                    err(rel, n.line, "a flag is set after a mode was chosen")
                out.append(f"{pad}let fl := {tr_value([n], 'fl', rel, lets)}")
            elif a == {"m"}:
                fs = mode_fields_assigned([n])
                if len(fs) != 1:
                    err(rel, n.line, f"one branch chooses several modes: {sorted(fs)}")
                f = fs.pop()
                if f in fields:
                    err(rel, n.line, f"mode `{f}` is chosen twice")
                fields[f] = tr_field_value([n], f, rel, lets)
            else:
                err(rel, n.line, "a branch of resolve_auto assigns both flags and modes (or neither)")
        else:
            err(rel, n.line, "unsupported construct in resolve_auto")
    lit = ", ".join(f"{f} := {fields.get(f, 'm.' + f)}" for f in ("asStr", "fromStrFn", "fromStrTrait", "iter"))
    last_flag = max((k for k, l in enumerate(out) if l.strip().startswith("let fl :=")), default=-1)
    flag_lines = out[:last_flag + 1]          # the `let`s in front of a flag assignment belong to it
    let_lines = [l for l in out if not l.strip().startswith("let fl :=")]
    res = ["/-- the flags `resolve_auto` sets -/", "def autoFlags (sh : Shape) (fl : Flags) (m : Modes) : Flags :="]
    res += flag_lines + [f"{pad}fl", "",
                         "/-- the modes `resolve_auto` picks, given the flags as they are after `autoFlags` -/",
                         "def autoModes (sh : Shape) (fl : Flags) (m : Modes) : Modes :="]
    res += let_lines + [f"{pad}{{ {lit} }}", "", "/-- `resolve_auto` -/",
                        "def resolveAuto (sh : Shape) (fl : Flags) (m : Modes) : Flags × Modes :=",
                        f"{pad}let fl := autoFlags sh fl m", f"{pad}(fl, autoModes sh fl m)"]
    return res


def gen_resolve(src):
    order = resolve_order(src)
    rules, aborts = [], []
    for field in order:
        extract_check(src, field, rules=rules, aborts=aborts)
    # a setting rule must not read flags
    for own, path, f in rules:
        if any(p[0] == "flagnot" for p in path):
            raise TranslateError(f"a propagation rule of `{own}` is guarded by another feature's flag")
    # merge consecutive rules with identical (src, guard)
    merged = []
    for own, path, f in rules:
        g = fmt_guard(path)
        if merged and merged[-1][0] == own and merged[-1][1] == g:
            if f not in merged[-1][2]:
                merged[-1][2].append(f)
        else:
            merged.append([own, g, [f]])
    found = find_fn(src.toks("generator/features.rs"), "resolve_auto")
    if not found:
        err("generator/features.rs", 1, "fn resolve_auto not found")
    auto_lines = tr_block(parse_block(found[1], "generator/features.rs"), "generator/features.rs", set(), 1)
    # resolve itself: enable, auto, enable
    rfound = find_fn(src.toks("generator/features.rs"), "resolve")
    calls = [t.text for i, t in enumerate(rfound[1]) if t.text in ("resolve_enable", "resolve_auto")]
    if calls != ["resolve_enable", "resolve_auto", "resolve_enable"]:
        err("generator/features.rs", rfound[1][0].line, f"resolve is no longer enable; auto; enable ({calls})")
    L = ["-- GENERATED by /verif/translate from /repo/src (generator/features.rs, feature/**/check*). Do not edit.",
         "import EnumToolsModel.Config", "namespace ET.Generated", "",
         "/-- the propagation of `resolve_enable`, one rule per path through each `check`, in execution order -/",
         "def rules : List Rule := ["]
    L.append(",\n".join(f"  {{ src := .{o}, guard := {g}, sets := [{', '.join('.' + x for x in fs)}] }}" for o, g, fs in merged))
    L += ["]", "", "def aborts : List AbortRule := ["]
    L.append(",\n".join(f"  {{ src := .{o}, guard := {fmt_guard(p)}, unlessFlag := {('some .' + u) if u else 'none'}, err := {e} }}"
                        for o, p, u, e in aborts))
    L += ["]", ""]
    L += auto_lines
    L += ["", "end ET.Generated", ""]
    return "\n".join(L), {"rules": len(merged), "aborts": len(aborts), "check_order": order}


# ------------------------------------------------------------------ Catalog

def gen_catalog(src):
    toks = src.toks("parser/mod.rs")
    # order of `field: FeatureX::parse(&mut feature_parser)` inside `Features { … }`
    order = []
    for i, t in enumerate(toks):
        if t.text == "parse" and toks[i - 1].text == "::" and toks[i + 1].text == "(" and toks[i - 3].text == ":" \
                and toks[i - 4].kind == "ident" and toks[i - 4].text in FIELD_FLAG:
            order.append(toks[i - 4].text)
    if not order:
        err("parser/mod.rs", 1, "no Feature*::parse calls found")
    # sorted is parsed first, separately
    rows = []
    for field in order:
        rel = src.feature_file(field)
        found = find_fn(src.toks(rel), "parse")
        if not found:
            err(rel, 1, "fn parse not found")
        body = text_of(found[1])
        m = re.search(r'feature_parser . get \( "([^"]+)" \)', body)
        if not m:
            err(rel, found[1][0].line, "feature key not found in parse")
        key = m.group(1)
        vm = re.search(r'get_vis_name \( "([^"]+)" \)', body)
        has_vis = vm is not None
        if has_vis and vm.group(1) != key:
            err(rel, found[1][0].line, f"default name `{vm.group(1)}` differs from the feature key `{key}`")
        hidden = re.search(r'name : "(__\w+)" . (?:to_string|to_owned|into) \( \)', body) or re.search(r'name : String :: from \( "(__\w+)" \)', body)
        hidden_vis = "vis : Some ( Visibility :: Inherited )" in body
        if has_vis and not (hidden and hidden_vis):
            err(rel, found[1][0].line, "disabled default is not (`__name`, inherited visibility)")
        strs = re.findall(r'get_str_opt \( "([^"]+)" \)', body)
        struct_key = [s for s in strs if s != "mode"]
        if len(struct_key) > 1:
            err(rel, found[1][0].line, f"more than one extra string parameter: {struct_key}")
        modes = []
        if "mode" in strs:
            # the arms of the match on the mode string
            mm = re.search(r'get_str_opt \( "mode" \) . unwrap_or_else \( \|\| "(\w+)" . (?:to_string|to_owned|into) \( \) \) . as_str \( \) \{(.*?)_ =>', body, re.S)
            if mm:
                if mm.group(1) != "auto":
                    err(rel, found[1][0].line, "default mode is not auto")
                modes = re.findall(r'"(\w+)" =>', mm.group(2))
            else:
                # `match params.get_str_opt("mode").as_deref() { None | Some("auto") => …, Some("x") => …, Some(_) => error }`
                m2 = re.search(r'get_str_opt \( "mode" \) . as_deref \( \) \{(.*?)Some \( _ \) =>', body, re.S)
                if not m2:
                    err(rel, found[1][0].line, "mode match not recognised")
                arms = m2.group(1)
                dm = re.search(r'None \| Some \( "(\w+)" \) =>|Some \( "(\w+)" \) \| None =>', arms)
                if not dm or (dm.group(1) or dm.group(2)) != "auto":
                    err(rel, found[1][0].line, "default mode is not auto")
                if re.search(r'(?<!\| )None =>', arms.replace(dm.group(0), "")):
                    err(rel, found[1][0].line, "a second arm for the missing mode")
                modes = re.findall(r'Some \( "(\w+)" \)', arms)
            if "invalid mode" not in body:
                err(rel, found[1][0].line, "the fallback arm of the mode match does not emit an error")
        if "params . finish (" not in body and "params . finish(" not in body:
            err(rel, found[1][0].line, "parse does not call params.finish (leftover parameters would be ignored)")
        flag = FIELD_FLAG[field]
        kind = ".none" if not modes else (".iter" if flag == "iter" else ".m3")
        rows.append(f'  {{ key := "{key}", flag := .{flag}, hasVisName := {"true" if has_vis else "false"}, '
                    f'hiddenName := "{hidden.group(1) if hidden else ""}", structKey := {("some " + chr(34) + struct_key[0] + chr(34)) if struct_key else "none"}, '
                    f'modeKind := {kind}, modes := [{", ".join(chr(34) + x + chr(34) for x in modes)}] }}')
    # the parser must end with feature_parser.finish()
    if "feature_parser . finish ( )" not in text_of(toks):
        err("parser/mod.rs", 1, "Derive::parse does not call feature_parser.finish()")
    L = ["-- GENERATED by /verif/translate from /repo/src (parser/mod.rs, feature/**/parse). Do not edit.",
         "import EnumToolsModel.Config", "namespace ET.Generated", "", "def catalog : List FeatSpec := [", ",\n".join(rows), "]", "",
         "end ET.Generated", ""]
    return "\n".join(L), {"features": len(rows)}


def run(repo, gen_dir):
    """regenerate every module; a module whose extraction fails keeps its previous text and is reported in info['errors']"""
    src = Src(repo)
    os.makedirs(gen_dir, exist_ok=True)
    info = {"errors": {}}
    outputs = {}
    gens = [("Resolve.lean", gen_resolve), ("Catalog.lean", gen_catalog)]
    try:
        import translate_more
        gens += translate_more.GENERATORS
    except ImportError:
        pass
    try:
        feature_fields(src)
    except TranslateError as e:
        for name, _ in gens:
            info["errors"][name] = str(e)
        gens = []
    for name, fn in gens:
        try:
            outputs[name], info[name.replace(".lean", "").lower()] = fn(src)
        except TranslateError as e:
            info["errors"][name] = str(e)
        except (IndexError, KeyError, AttributeError, ValueError) as e:   # malformed input the parser did not anticipate
            info["errors"][name] = f"translator could not parse the source for {name}: {type(e).__name__}: {e}"
    changed = []
    for name, text in outputs.items():
        p = os.path.join(gen_dir, name)
        if not os.path.exists(p) or open(p).read() != text:
            open(p, "w").write(text)
            changed.append(name)
    info["regenerated_files"] = sorted(outputs)
    info["changed_since_last_run"] = changed
    return info


if __name__ == "__main__":
    import json
    import sys
    print(json.dumps(run(sys.argv[1] if len(sys.argv) > 1 else "/repo",
                         sys.argv[2] if len(sys.argv) > 2 else "/tmp/gen"), indent=1))
